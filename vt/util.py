"""Small shared helpers: numeric comparison, plain values."""
import math


def isnum(x):
    return isinstance(x, (int, float)) and not isinstance(x, bool)


def finite(x):
    try:
        return math.isfinite(float(x))
    except Exception:
        return False


def close(a, b, rtol=1e-9, atol=0.0):
    """|a-b| <= rtol*max(|a|,|b|) + atol for finite floats; exact equality otherwise."""
    try:
        a = float(a); b = float(b)
    except Exception:
        return a == b
    if math.isnan(a) or math.isnan(b):
        return math.isnan(a) and math.isnan(b)
    if math.isinf(a) or math.isinf(b):
        return a == b
    return abs(a - b) <= rtol * max(abs(a), abs(b)) + atol


def allclose(xs, ys, rtol=1e-9, atol=0.0):
    xs = list(xs); ys = list(ys)
    return len(xs) == len(ys) and all(close(x, y, rtol, atol) for x, y in zip(xs, ys))


def plain(v):
    """numpy scalar / 0-d array -> python scalar; arrays -> nested lists."""
    if hasattr(v, 'tolist'):
        return v.tolist()
    return v


def exc_sig(e):
    return '%s: %s' % (type(e).__name__, str(e)[:200])
