"""Driver, worker loop, verdict discipline, evidence writer, known-findings classifier.

    python -m vt.core <ID> quick|thorough
    python -m vt.core <ID> --replay <file>
    python -m vt.core --worker <ID> <tier> <seed> <shard> <nshards> <outfile>   (internal)

A property module (vt/props/<id>.py) provides

    ID, RULE, SHARDS, ASSUMPTIONS, MIN_NONTRIVIAL, REQUIRED_CLASSES, REQUIRED_MONITORS
    setup()                       -> ctx           (once per worker process)
    cases(rng, tier, shard, nshards, ctx) -> iterator of JSON-able case dicts
    run_case(case, ctx)           -> outcome dict  (see Outcome below)
    pinned(ctx)                   -> [(key, case)] witnesses of known / fixed findings

Outcome keys: skip (str|None), classes [str], nontrivial bool, fp str,
dev [ {mech, known (key|None), detail} ], monitors {name: n}, sample (any|None)
"""
import sys, os, json, time, hashlib, random, subprocess, traceback, importlib
from concurrent.futures import ThreadPoolExecutor

HERE = os.path.dirname(os.path.dirname(os.path.abspath(__file__)))
EXIT_OK, EXIT_VIOLATION, EXIT_INCONCLUSIVE = 0, 1, 2


def load_prop(pid):
    return importlib.import_module('vt.props.' + pid.lower())


def outcome(skip=None, classes=(), nontrivial=False, fp='', dev=(), monitors=None, sample=None):
    return dict(skip=skip, classes=list(classes), nontrivial=nontrivial, fp=fp,
                dev=list(dev), monitors=monitors or {}, sample=sample)


def dev(mech, detail=None, known=None):
    return dict(mech=mech, known=known, detail=detail)


def fphash(s):
    return hashlib.sha1(s.encode('utf8', 'replace')).hexdigest()[:14]


def jsonable(x):
    try:
        json.dumps(x)
        return x
    except Exception:
        return repr(x)


# --------------------------------------------------------------------------- worker

def worker_main(pid, tier, seed, shard, nshards, outfile):
    t0 = time.time()
    mod = load_prop(pid)
    res = dict(evaluations=0, skipped={}, classes={}, monitors={}, fps=[], violations=[],
               known={}, samples=[], harness_errors=[], truncated=False, generated=0,
               extra={})
    try:
        ctx = mod.setup()
    except Exception:
        res['harness_errors'].append('setup: ' + traceback.format_exc())
        json.dump(res, open(outfile, 'w'))
        return
    rng = random.Random(seed * 1_000_003 + shard)
    fps = set()
    tcap = getattr(mod, 'TIME_CAP', {}).get(tier, 600 if tier == 'quick' else 7200)
    nsample = 0
    seen_mech = {}

    def handle(case, pinned_key=None):
        nonlocal nsample
        try:
            out = mod.run_case(case, ctx)
        except Exception:
            res['harness_errors'].append(json.dumps(jsonable(case))[:600] + '\n' + traceback.format_exc())
            return
        for k, v in out.get('monitors', {}).items():
            res['monitors'][k] = res['monitors'].get(k, 0) + v
        if out.get('skip'):
            res['skipped'][out['skip']] = res['skipped'].get(out['skip'], 0) + 1
            return
        res['evaluations'] += 1
        for c in out.get('classes', ()):
            res['classes'][c] = res['classes'].get(c, 0) + 1
        if out.get('nontrivial'):
            fps.add(fphash(out.get('fp') or json.dumps(jsonable(case), sort_keys=True)))
        for d in out.get('dev', ()):
            key = d.get('known')
            if key:
                k = res['known'].setdefault(key, dict(count=0, witness=None))
                k['count'] += 1
                if k['witness'] is None:
                    k['witness'] = dict(case=jsonable(case), detail=jsonable(d.get('detail')))
            else:
                m = d['mech']
                seen_mech[m] = seen_mech.get(m, 0) + 1
                if seen_mech[m] <= 3:
                    res['violations'].append(dict(mech=m, case=jsonable(case),
                                                  detail=jsonable(d.get('detail'))))
        if pinned_key is not None:
            res['extra'].setdefault('pinned', {})[pinned_key] = [
                (d.get('known') or d['mech']) for d in out.get('dev', ())]
        if out.get('sample') is not None and nsample < 6 and (out.get('nontrivial') or nsample < 2):
            nsample += 1
            res['samples'].append(jsonable(out['sample']))

    if shard == 0 and hasattr(mod, 'pinned'):
        try:
            for key, case in mod.pinned(ctx):
                handle(case, pinned_key=key)
        except Exception:
            res['harness_errors'].append('pinned: ' + traceback.format_exc())
    try:
        for case in mod.cases(rng, tier, shard, nshards, ctx):
            res['generated'] += 1
            handle(case)
            if len(res['harness_errors']) > 5:
                break
            if time.time() - t0 > tcap:
                res['truncated'] = True
                break
    except Exception:
        res['harness_errors'].append('generator: ' + traceback.format_exc())
    if hasattr(mod, 'teardown'):
        try:
            extra = mod.teardown(ctx)
            if extra:
                for k, v in extra.get('monitors', {}).items():
                    res['monitors'][k] = res['monitors'].get(k, 0) + v
                res['extra'].update({k: v for k, v in extra.items() if k != 'monitors'})
        except Exception:
            res['harness_errors'].append('teardown: ' + traceback.format_exc())
    res['seen_mech'] = seen_mech
    res['fps'] = sorted(fps)
    res['wall'] = time.time() - t0
    with open(outfile, 'w') as f:
        json.dump(res, f)


# --------------------------------------------------------------------------- driver

def load_known(pid):
    path = os.path.join(HERE, 'known_findings.json')
    if not os.path.exists(path):
        return {}
    data = json.load(open(path))
    return {e['key']: e for e in data.get('findings', []) if e['property'] == pid}


def evidence_dir():
    d = os.environ.get('VERIF_EVIDENCE_DIR')
    if d:
        return d
    if os.path.realpath(os.environ.get('VERIF_REPO', '/repo')) != '/repo':
        return os.path.join(HERE, 'out', 'evidence-scratch')     # self-tests on scratch copies never touch evidence/
    return os.path.join(HERE, 'evidence')


def write_evidence(pid, ev):
    os.makedirs(evidence_dir(), exist_ok=True)
    with open(os.path.join(evidence_dir(), pid + '.json'), 'w') as f:
        json.dump(ev, f, indent=1, sort_keys=True, default=repr)


def drive(pid, tier, seed):
    t0 = time.time()
    mod = load_prop(pid)
    nshards = mod.SHARDS[tier] if isinstance(mod.SHARDS, dict) else mod.SHARDS
    ncpu = int(os.environ.get('VERIF_JOBS', os.cpu_count() or 4))
    tmpdir = os.path.join(HERE, 'out', 'work', '%s-%s-%d-%d' % (pid, tier, seed, os.getpid()))
    os.makedirs(tmpdir, exist_ok=True)
    os.makedirs(os.path.join(HERE, 'out', 'replays'), exist_ok=True)
    watchdog = getattr(mod, 'WATCHDOG', {}).get(tier, 1800 if tier == 'quick' else 6 * 3600)

    def run_shard(s):
        out = os.path.join(tmpdir, 'shard%d.json' % s)
        cmd = [sys.executable, '-m', 'vt.core', '--worker', pid, tier, str(seed), str(s), str(nshards), out]
        try:
            p = subprocess.run(cmd, timeout=watchdog, capture_output=True, text=True)
        except subprocess.TimeoutExpired:
            return dict(_fail='watchdog fired after %ds (shard %d)' % (watchdog, s))
        if not os.path.exists(out):
            return dict(_fail='worker shard %d died rc=%s stderr=%s' % (s, p.returncode, p.stderr[-1500:]))
        try:
            r = json.load(open(out))
        except Exception as e:
            return dict(_fail='unreadable worker result shard %d: %r' % (s, e))
        r['_stderr'] = p.stderr[-400:] if p.returncode else ''
        return r

    with ThreadPoolExecutor(max_workers=min(ncpu, nshards)) as ex:
        results = list(ex.map(run_shard, range(nshards)))

    fails = [r['_fail'] for r in results if '_fail' in r]
    results = [r for r in results if '_fail' not in r]
    agg = dict(evaluations=0, skipped={}, classes={}, monitors={}, violations=[], known={},
               samples=[], harness_errors=[], truncated=0, extra={}, seen_mech={})
    fps = set()
    for r in results:
        agg['evaluations'] += r['evaluations']
        for name in ('skipped', 'classes', 'monitors', 'seen_mech'):
            for k, v in r.get(name, {}).items():
                agg[name][k] = agg[name].get(k, 0) + v
        fps.update(r['fps'])
        agg['violations'] += r['violations']
        for k, v in r['known'].items():
            a = agg['known'].setdefault(k, dict(count=0, witness=None))
            a['count'] += v['count']
            a['witness'] = a['witness'] or v['witness']
        if len(agg['samples']) < 10:
            agg['samples'] += r['samples'][:2]
        agg['harness_errors'] += r['harness_errors']
        agg['truncated'] += 1 if r.get('truncated') else 0
        for k, v in r.get('extra', {}).items():
            if isinstance(v, dict):
                agg['extra'].setdefault(k, {}).update(v)
            elif isinstance(v, list):
                agg['extra'].setdefault(k, [])
                agg['extra'][k] += v
            elif isinstance(v, (int, float)):
                agg['extra'][k] = agg['extra'].get(k, 0) + v
            else:
                agg['extra'][k] = v
    try:
        import shutil
        shutil.rmtree(tmpdir, ignore_errors=True)
    except Exception:
        pass

    known = load_known(pid)
    lines = []
    # ---- classify
    violations = list(agg['violations'])
    known_seen = {}
    for key, info in agg['known'].items():
        ent = known.get(key)
        if ent and ent.get('status') == 'known':
            known_seen[key] = info['count']
        else:
            why = 'fixed finding returned' if ent else 'classifier key not listed in known_findings.json'
            violations.append(dict(mech='%s (%s)' % (key, why), case=info['witness']['case'] if info['witness'] else None,
                                   detail=info['witness']['detail'] if info['witness'] else None))
    pinned_status = agg['extra'].get('pinned', {})
    for key, ent in sorted(known.items()):
        if ent.get('status') == 'known':
            rep = 'reproduced' if key in pinned_status and key in pinned_status[key] else \
                  ('seen %d times' % known_seen[key] if key in known_seen else 'witness not reproduced in this run')
            lines.append('KNOWN-FINDING: property=%s key=%s %s [%s]' % (pid, key, ent['what'], rep))

    # ---- distinct mechanisms -> replay files
    exit_code = EXIT_OK
    by_mech = {}
    for v in violations:
        by_mech.setdefault(v['mech'], v)
    n = 0
    for mech, v in sorted(by_mech.items()):
        n += 1
        path = os.path.join(HERE, 'out', 'replays', '%s-%d-%d.json' % (pid, seed, n))
        with open(path, 'w') as f:
            json.dump(dict(property=pid, mechanism=mech, tier=tier, seed=seed, case=v['case'], detail=v['detail'],
                           occurrences=agg['seen_mech'].get(mech)), f, indent=1, default=repr)
        lines.append('VIOLATION property=%s replay=%s   # %s' % (pid, path, mech))
        exit_code = EXIT_VIOLATION

    # ---- inconclusive conditions
    inconclusive = list(fails)
    if agg['harness_errors']:
        inconclusive.append('harness errors (%d), first: %s' % (len(agg['harness_errors']), agg['harness_errors'][0][-1200:]))
    for c in getattr(mod, 'REQUIRED_CLASSES', ()):
        if agg['classes'].get(c, 0) == 0:
            inconclusive.append('case class never exercised: ' + c)
    for m in getattr(mod, 'REQUIRED_MONITORS', ()):
        if agg['monitors'].get(m, 0) == 0:
            inconclusive.append('monitor never evaluated: ' + m)
    minnt = getattr(mod, 'MIN_NONTRIVIAL', {}).get(tier, 2)
    if len(fps) < max(2, minnt):
        inconclusive.append('only %d distinct non-trivial cases (< %d)' % (len(fps), minnt))

    wall = time.time() - t0
    cov = dict(evaluations=agg['evaluations'], distinct_nontrivial=len(fps), rule=mod.RULE,
               samples=agg['samples'][:10] or ['(no sample recorded)'], exhaustive=False,
               classes=dict(sorted(agg['classes'].items())), monitor_evaluations=dict(sorted(agg['monitors'].items())),
               skipped_undefined=agg['skipped'], known_findings_seen=known_seen,
               shards=nshards, shards_truncated_by_time=agg['truncated'],
               exhaustive_subspaces=getattr(mod, 'EXHAUSTIVE_SUBSPACES', {}).get(tier, []),
               violation_mechanisms={k: agg['seen_mech'].get(k) for k in by_mech},
               inconclusive_reasons=inconclusive)
    for k, v in agg['extra'].items():
        if k != 'pinned':
            cov.setdefault(k, v)
    cov['pinned_witnesses'] = pinned_status
    ev = dict(property_id=pid, tier=tier, seed=seed, level=getattr(mod, 'LEVEL', 'exploration'), coverage=cov,
              assumptions=list(getattr(mod, 'ASSUMPTIONS', [])), wall_s=round(wall, 2), violations=len(by_mech))
    write_evidence(pid, ev)

    for l in lines:
        print(l)
    if exit_code == EXIT_OK and inconclusive:
        for r in inconclusive:
            print('INCONCLUSIVE property=%s reason=%s' % (pid, r))
        exit_code = EXIT_INCONCLUSIVE
    print('%s %s seed=%d: %s; evaluations=%d distinct_nontrivial=%d known=%s wall=%.1fs' % (
        pid, tier, seed, {0: 'held on what was observed', 1: 'VIOLATED', 2: 'INCONCLUSIVE'}[exit_code],
        agg['evaluations'], len(fps), known_seen, wall))
    return exit_code


def replay(pid, path):
    mod = load_prop(pid)
    rec = json.load(open(path))
    ctx = mod.setup()
    out = mod.run_case(rec['case'], ctx)
    known = load_known(pid)
    bad = 0
    print(json.dumps(dict(case=rec['case'], outcome=jsonable(out)), indent=1, default=repr))
    for d in out.get('dev', ()):
        key = d.get('known')
        if key and known.get(key, {}).get('status') == 'known':
            print('KNOWN-FINDING: property=%s key=%s %s' % (pid, key, known[key]['what']))
        else:
            bad += 1
            print('VIOLATION property=%s replay=%s   # %s' % (pid, path, key or d['mech']))
    return EXIT_VIOLATION if bad else EXIT_OK


def main(argv):
    if argv and argv[0] == '--worker':
        pid, tier, seed, shard, nshards, outfile = argv[1:7]
        covdir = os.environ.get('VERIF_COVERAGE_DIR')      # diagnostic only (tools/reach.py): which repository lines the workload drives
        cov = None
        if covdir:
            import coverage
            cov = coverage.Coverage(data_file=os.path.join(covdir, 'cov'), data_suffix=True,
                                    source=[os.path.join(os.environ.get('VERIF_REPO', '/repo'), 'src')], branch=False)
            cov.start()
        try:
            worker_main(pid, tier, int(seed), int(shard), int(nshards), outfile)
        finally:
            if cov is not None:
                cov.stop()
                cov.save()
        return 0
    if len(argv) < 2:
        print(__doc__)
        return 2
    pid = argv[0].upper()
    if argv[1] == '--replay':
        return replay(pid, argv[2])
    tier = argv[1]
    if tier not in ('quick', 'thorough'):
        print('tier must be quick or thorough')
        return 2
    seed = int(os.environ.get('VERIF_SEED', '0') or 0)
    return drive(pid, tier, seed)


if __name__ == '__main__':
    sys.exit(main(sys.argv[1:]))
