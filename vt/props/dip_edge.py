"""Closed-form side families for C14 and C16 (edge combinations the generated programs of the builders do not reach).

C14 'zero-in-other-unit': the LAST assignment is an exact zero written in another unit
    - same dimension, other prefix        -> 0 in the definition's unit
    - offset temperature units (K <-> Cel) -> the affine image of zero
    - unit of another dimension           -> parsing must fail (also for zero)
C16 'sliced-injection-into-bounded-array': a node with declared array bounds whose value is a sliced injection
    - result within the bounds            -> accepted with exactly the sliced elements
    - result outside the bounds           -> parsing must fail
Only 1-D numeric slices in definitions are used (string slices, slices in modification lines and multi-axis slices are
recorded C17 defects and stay out of these programs)."""
import itertools
import math
from vt.core import outcome, dev
from vt.util import close

LIN = {'length': [('m', 1.0), ('cm', 1e-2), ('km', 1e3), ('mm', 1e-3)], 'time': [('s', 1.0), ('ms', 1e-3), ('min', 60.0)],
       'mass': [('g', 1.0), ('kg', 1e3)]}
_n = itertools.count()


def parse(ctx, text, tag):
    from scinumtools.dip import DIP
    p = DIP(name='%s_%d' % (tag, next(_n)))
    p.add_string(text)
    try:
        return 'ok', p.parse(), p
    except Exception as e:
        return 'exc', e, p


# ------------------------------------------------------------------------------------------------ C14

def gen_c14(rng):
    kind = rng.choice(['same-dimension', 'same-dimension', 'offset-temperature', 'other-dimension', 'other-dimension'])
    dt = rng.choice(['float', 'float', 'int'])
    zero = rng.choice(['0', '0.0', '-0.0', '0e0']) if dt == 'float' else '0'
    c = dict(edge='c14-zero', kind=kind, dt=dt, zero=zero, typed=rng.random() < 0.3, x0=rng.choice([1, 20, 3]), mid=rng.random() < 0.5,
             grouped=rng.random() < 0.3)
    if kind == 'same-dimension':
        dim = rng.choice(list(LIN))
        (u0, _), (u1, _) = rng.sample(LIN[dim], 2)
        c.update(u0=u0, u1=u1)
    elif kind == 'offset-temperature':
        c.update(dt='float', zero='0', u0=rng.choice(['Cel', 'K']))
        c['u1'] = 'K' if c['u0'] == 'Cel' else 'Cel'
    else:
        d0, d1 = rng.sample(list(LIN), 2)
        c.update(u0=rng.choice(LIN[d0])[0], u1=rng.choice(LIN[d1])[0])
    return c


def run_c14(c, ctx):
    dt, u0, u1 = c['dt'], c['u0'], c['u1']
    name = 'grp.node' if c['grouped'] else 'node'
    L = ['grp'] if c['grouped'] else []
    ind = '  ' if c['grouped'] else ''
    L.append('%snode %s = %s %s' % (ind, dt, c['x0'], u0))
    if c['mid']:
        L.append('%s = %s %s' % (name, c['x0'] + 1, u0))
    L.append('%s%s = %s %s' % (name, ' ' + dt if c['typed'] else '', c['zero'], u1))
    text = '\n'.join(L) + '\n'
    classes = ['edge:zero-in-other-unit', 'edge:zero-' + c['kind']]
    devs = []
    st, res, keep = parse(ctx, text, 'e14')
    if c['kind'] == 'other-dimension':
        if st == 'ok':
            devs.append(dev('zero-in-unit-of-another-dimension-accepted', dict(text=text, data=res.data())))
        exp = 'rejected'
    else:
        exp = 0.0 if c['kind'] == 'same-dimension' else (-273.15 if u0 == 'Cel' else 273.15)
        if st != 'ok':
            devs.append(dev('legal-zero-modification-rejected', dict(text=text, exc=repr(res)[:200])))
        else:
            from scinumtools.dip.settings import Format
            d = res.data(Format.TUPLE).get(name)
            if not (isinstance(d, tuple) and close(d[0], exp, 1e-9, 1e-12) and d[1] == u0):
                devs.append(dev('zero-not-converted-into-definition-unit', dict(text=text, observed=d, expected=(exp, u0))))
    return outcome(classes=classes, nontrivial=True, fp='e14 ' + text, dev=devs, monitors={'edge_programs': 1}, sample=dict(text=text, expected=exp))


# ------------------------------------------------------------------------------------------------ C14, units that are no factors
# The main C14 model converts with exact rational factors; units with an offset (temperatures) or a logarithm (levels) have none.
# Closed forms, written here from the definitions of the units (not taken from the library):

TEMP_TO_K = {'K': lambda v: v, 'Cel': lambda v: v + 273.15, 'degF': lambda v: (v + 459.67) * 5.0 / 9.0, 'degR': lambda v: v * 5.0 / 9.0}
TEMP_FROM_K = {'K': lambda k: k, 'Cel': lambda k: k - 273.15, 'degF': lambda k: k * 9.0 / 5.0 - 459.67, 'degR': lambda k: k * 9.0 / 5.0}
# (family, unit of the level, linear unit, level -> linear, linear -> level)
LEVELS = [('power-level', 'dBm', 'W', lambda x: 1e-3 * 10 ** (x / 10.0), lambda w: 10.0 * math.log10(w / 1e-3)),
          ('power-level', 'dBm', 'mW', lambda x: 10 ** (x / 10.0), lambda w: 10.0 * math.log10(w)),
          ('power-ratio', 'dB', 'PR', lambda x: 10 ** (x / 10.0), lambda r: 10.0 * math.log10(r)),
          ('amplitude-ratio', 'dB', 'AR', lambda x: 10 ** (x / 20.0), lambda r: 20.0 * math.log10(r))]


def _shape_vals(rng, shape, draw):
    if shape is None:
        return draw()
    if len(shape) == 1:
        return [draw() for _ in range(shape[0])]
    return [[draw() for _ in range(shape[1])] for _ in range(shape[0])]


def _map(v, f):
    return [_map(x, f) for x in v] if isinstance(v, list) else f(v)


def _lit(v):
    if isinstance(v, list):
        return '[' + ','.join(_lit(x) for x in v) + ']'
    return repr(float(v)) if not float(v).is_integer() or abs(v) >= 1e15 else str(int(v))


def gen_c14_nl(rng):
    shape = rng.choice([None, [2], [3], [4], [2, 2], [2, 3]])
    fam = rng.choice(['temperature', 'temperature', 'level', 'linear'])
    nmods = rng.randint(1, 3)
    if fam == 'temperature':
        units = ['K', 'Cel', 'degF', 'degR']
        u0 = rng.choice(units)
        draw = lambda: rng.choice([0, 10, 20, 25.5, 100, 273.15, 300, 451, 1000, 36.6, 5, 1])
        mods = [(rng.choice(units + [None]), None) for _ in range(nmods)]
    elif fam == 'level':
        _, lv, lin, _, _ = LV = rng.choice(LEVELS)
        u0 = rng.choice([lv, lin])
        draw = lambda: rng.choice([1, 2, 3, 10, 20, 0.5, 30, 100, 7])
        mods = [(rng.choice([lv, lin, None]), None) for _ in range(nmods)]
        fam = 'level:' + LEVELS[LEVELS.index(LV)][0] + ':' + lv + '/' + lin
    else:
        dim = rng.choice(list(LIN))
        units = [u for u, _ in LIN[dim]]
        u0 = rng.choice(units)
        draw = lambda: rng.choice([0, 1, 2, 3.5, 10, 250, 0.25, 7])
        mods = [(rng.choice(units + [None]), None) for _ in range(nmods)]
        fam = 'linear:' + dim
    if all(u in (None, u0) for u, _ in mods):
        others = [x for x in (units if not fam.startswith('level') else [lv, lin]) if x != u0]
        mods[-1] = (rng.choice(others), None)
    v0 = _shape_vals(rng, shape, draw)
    mods = [(u, _shape_vals(rng, shape, draw)) for u, _ in mods]
    return dict(edge='c14-nl', fam=fam, shape=shape, u0=u0, v0=v0, mods=mods, grouped=rng.random() < 0.3, typed=rng.random() < 0.25)


def _convert_nl(fam, v, u, u0):
    if u is None or u == u0:
        return v
    if fam == 'temperature':
        return TEMP_FROM_K[u0](TEMP_TO_K[u](v))
    if fam.startswith('level'):
        for name, lv, lin, to_lin, to_lv in LEVELS:
            if fam == 'level:%s:%s/%s' % (name, lv, lin):
                return to_lin(v) if u == lv else to_lv(v)
    dim = fam.split(':')[1]
    f = dict(LIN[dim])
    return v * f[u] / f[u0]


def run_c14_nl(c, ctx):
    shape, u0 = c['shape'], c['u0']
    dims = '' if shape is None else '[' + ','.join(str(n) for n in shape) + ']'
    name = 'grp.node' if c['grouped'] else 'node'
    L = ['grp'] if c['grouped'] else []
    ind = '  ' if c['grouped'] else ''
    L.append('%snode float%s = %s %s' % (ind, dims, _lit(c['v0']), u0))
    for k, (u, v) in enumerate(c['mods']):
        last = k == len(c['mods']) - 1
        L.append('%s%s = %s%s' % (name, (' float' + dims) if (c['typed'] and last) else '', _lit(v), (' ' + u) if u else ''))
    text = '\n'.join(L) + '\n'
    u, v = c['mods'][-1]
    exp = _map(v, lambda x: _convert_nl(c['fam'], float(x), u, u0))
    kindcls = c['fam'].split(':')[0]
    classes = ['edge:unit-without-factor', 'edge:nl-' + kindcls, 'edge:nl-' + ('scalar' if shape is None else 'array-%dd' % len(shape))]
    if u not in (None, u0):
        classes.append('edge:nl-last-assignment-in-other-unit')
        if shape is not None and kindcls in ('temperature', 'level'):
            classes.append('edge:nl-array-converted-through-offset-or-logarithm')
    devs = []
    st, res, keep = parse(ctx, text, 'e14n')
    if st != 'ok':
        devs.append(dev('legal-modification-rejected(%s)' % kindcls, dict(text=text, exc=repr(res)[:200])))
    else:
        from scinumtools.dip.settings import Format
        d = res.data(Format.TUPLE).get(name)
        obs = d[0] if isinstance(d, tuple) else None
        if hasattr(obs, 'tolist'):
            obs = obs.tolist()
        ok = isinstance(d, tuple) and d[1] == u0
        if ok:
            fo, fe = _flatten(obs), _flatten(exp)
            ok = len(fo) == len(fe) and all(close(a, b, 1e-7, 1e-7) for a, b in zip(fo, fe))
        if not ok:
            devs.append(dev('last-value-not-converted-into-definition-unit(%s,%s)' % (kindcls, 'scalar' if shape is None else 'array'),
                            dict(text=text, observed=d if not hasattr(d, 'tolist') else d.tolist(), expected=(exp, u0))))
    return outcome(classes=classes, nontrivial=True, fp='e14n ' + text, dev=devs, monitors={'edge_programs': 1, 'nonfactor_unit_programs': 1},
                   sample=dict(text=text, expected=[exp, u0]))


def _flatten(v):
    if isinstance(v, (list, tuple)):
        out = []
        for x in v:
            out += _flatten(x)
        return out
    return [v]


# ------------------------------------------------------------------------------------------------ C14, assignments in a second stage
# "When a node is assigned more than once ..." - also when the later assignment arrives in a second DIP instance that was
# given the environment of the first (the documented two-stage use: DIP(env1)).

def gen_c14_staged(rng):
    dim = rng.choice(list(LIN))
    (u0, f0), (u1, f1) = rng.sample(LIN[dim], 2)
    other = rng.choice([d for d in LIN if d != dim])
    return dict(edge='c14-staged', u0=u0, u1=u1, uo=LIN[other][0][0], x=rng.choice([1, 2.5, 40, 300]), y=rng.choice([0, 3, 0.5, 120, -7]),
                what=rng.choice(['mod-other-unit', 'mod-other-unit', 'typed-other-unit', 'mod-no-unit', 'mod-twice', 'bool-false', 'str-empty',
                                 'other-dtype', 'other-dtype-str-that-reads-as-a-number', 'other-dtype-bool', 'other-dtype-float-for-str',
                                 'other-dimension', 'constant', 'constant-typed',
                                 'int-fraction', 'int-fraction-typed', 'int-fraction-negative', 'int-fraction-with-unit', 'int-declared-then-fraction',
                                 'int-whole', 'int-bool', 'float-bool', 'float-word', 'bool-fraction', 'bool-word']),
                frac=rng.choice([2.5, 0.75, 7.9, 0.5, 1.25, 1000.5]), whole=rng.choice([0, 7, -2, 12]),
                grouped=rng.random() < 0.4, extra_node=rng.random() < 0.5, single=rng.random() < 0.4)


def run_c14_staged(c, ctx):
    from scinumtools.dip import DIP
    from scinumtools.dip.settings import Format
    f = {u: k for d in LIN.values() for u, k in d}
    u0, u1, x, y, what = c['u0'], c['u1'], float(c['x']), float(c['y']), c['what']
    pre, ind, name = (['grp'], '  ', 'grp.w') if c['grouped'] else ([], '', 'w')
    A = pre + ['%sw float = %r %s' % (ind, x, u0)]
    if what.startswith('constant'):
        A.append('%s  !constant' % ind)
    A += ['flag bool = true', 'label str = "abc"']
    B, exp, must_fail = [], {name: (x, u0), 'flag': (True, None), 'label': ('abc', None)}, False
    frac, whole = c.get('frac', 2.5), c.get('whole', 7)
    if what.startswith('int-'):
        # an int node next to the float one: a literal with a fractional part is a value of another data type
        if what == 'int-declared-then-fraction':
            A.append('count int'); c = dict(c, single=True)              # a declaration has to receive its value in the same text
        elif what == 'int-fraction-with-unit':
            A.append('count int = 4 %s' % u0); exp['count'] = (4, u0)
        else:
            A.append('count int = 4'); exp['count'] = (4, None)
    if c['extra_node']:
        B.append('later int = 5')
        exp['later'] = (5, None)
    if what == 'mod-other-unit':
        B.append('%s = %r %s' % (name, y, u1)); exp[name] = (y * f[u1] / f[u0], u0)
    elif what == 'typed-other-unit':
        B.append('%s float = %r %s' % (name, y, u1)); exp[name] = (y * f[u1] / f[u0], u0)
    elif what == 'mod-no-unit':
        B.append('%s = %r' % (name, y)); exp[name] = (y, u0)
    elif what == 'mod-twice':
        B += ['%s = %r %s' % (name, y, u1), '%s = %r' % (name, x + 1)]; exp[name] = (x + 1, u0)
    elif what == 'bool-false':
        B.append('flag = false'); exp['flag'] = (False, None)
    elif what == 'str-empty':
        B.append('label = ""'); exp['label'] = ('', None)
    elif what == 'other-dtype':
        B.append('%s int = 3 %s' % (name, u0)); must_fail = True
    elif what == 'other-dtype-str-that-reads-as-a-number':
        B.append('%s str = "5"' % name); must_fail = True            # the text would even cast to the node's type
    elif what == 'other-dtype-bool':
        B.append('%s bool = true' % name); must_fail = True
    elif what == 'other-dtype-float-for-str':
        B.append('label float = 2.5'); must_fail = True
    elif what == 'other-dimension':
        B.append('%s = 3 %s' % (name, c['uo'])); must_fail = True
    elif what == 'int-fraction':
        B.append('count = %r' % frac); must_fail = True
    elif what == 'int-fraction-typed':
        B.append('count int = %r' % frac); must_fail = True
    elif what == 'int-fraction-negative':
        B += ['count = -3', 'count = %r' % -frac]; must_fail = True
    elif what == 'int-fraction-with-unit':
        B.append('count = %r %s' % (frac, u0)); must_fail = True
    elif what == 'int-declared-then-fraction':
        B.append('count = %r' % frac); must_fail = True
    elif what == 'int-whole':
        B.append('count = %d' % whole); exp['count'] = (int(whole), None)
    elif what == 'int-bool':
        B.append('count = true'); must_fail = True
    elif what == 'float-bool':
        B.append('%s = true' % name); must_fail = True
    elif what == 'float-word':
        B.append('%s = abc' % name); must_fail = True
    elif what == 'bool-fraction':
        B.append('flag = %r' % frac); must_fail = True
    elif what == 'bool-word':
        B.append('flag = abc'); must_fail = True
    elif what == 'constant':
        B.append('%s = %r %s' % (name, y, u1)); must_fail = True
    elif what == 'constant-typed':
        B.append('%s float = %r %s' % (name, y, u0)); must_fail = True
    tA, tB = '\n'.join(A) + '\n', '\n'.join(B) + '\n'
    classes = ['edge:second-stage-assignment' if not c.get('single') else 'edge:closed-form-assignment-in-one-text', 'edge:second-stage:' + what]
    devs = []
    if c.get('single'):
        # the same program in ONE text
        st1, env, keep = parse(ctx, tA + tB, 'e14s1')
        sample1 = dict(text=tA + tB, expected='parse() must fail' if must_fail else {k: list(v) for k, v in exp.items()})
        if must_fail:
            if st1 == 'ok':
                devs.append(dev('closed-form:illegal-assignment-accepted(%s)' % what, dict(text=tA + tB, data=repr(env.data(Format.TUPLE))[:300])))
        elif st1 != 'ok':
            devs.append(dev('closed-form:legal-assignment-rejected(%s)' % what, dict(text=tA + tB, exc=repr(env)[:200])))
        else:
            d = env.data(Format.TUPLE)
            bad = {}
            for k, (ev, eu) in exp.items():
                o = d.get(k)
                ov, ou = (o[0], o[1]) if isinstance(o, tuple) else (o, None)
                same = (ov == ev and type(ov) == type(ev)) if isinstance(ev, (str, bool)) else (not isinstance(ov, (str, bool)) and ov is not None and close(ov, ev, 1e-9, 1e-12))
                if isinstance(ev, int) and not isinstance(ev, bool) and eu is None and not (isinstance(ov, int) and not isinstance(ov, bool)):
                    same = False                                   # an int node keeps the int data type
                if k not in d or ou != eu or not same:
                    bad[k] = dict(observed=o, expected=(ev, eu))
            if bad or sorted(d) != sorted(exp):
                devs.append(dev('closed-form:result-is-not-one-node-with-the-last-value-in-the-definition-unit(%s)' % what, dict(text=tA + tB, differing=bad, keys=list(d))))
        return outcome(classes=classes, nontrivial=True, fp='e14s1 ' + tA + tB, dev=devs, monitors={'edge_programs': 1}, sample=sample1)
    st, env1, keep1 = parse(ctx, tA, 'e14sA')
    sample = dict(stage_1=tA, stage_2=tB, expected='parse() of stage 2 must fail' if must_fail else {k: list(v) for k, v in exp.items()})
    if st != 'ok':
        devs.append(dev('second-stage:first-stage-rejected', dict(text=tA, exc=repr(env1)[:200])))
        return outcome(classes=classes, nontrivial=True, fp='e14s ' + tA + tB, dev=devs, monitors={'edge_programs': 1}, sample=sample)
    p2 = DIP(env1, name='e14sB_%d' % next(_n))
    p2.add_string(tB)
    try:
        env2 = p2.parse()
        st2 = 'ok'
    except Exception as e:
        env2, st2 = e, 'exc'
    if must_fail:
        if st2 == 'ok':
            devs.append(dev('second-stage:illegal-assignment-accepted(%s)' % what, dict(stage_1=tA, stage_2=tB, data=repr(env2.data(Format.TUPLE))[:300])))
    elif st2 != 'ok':
        devs.append(dev('second-stage:legal-assignment-rejected(%s)' % what, dict(stage_1=tA, stage_2=tB, exc=repr(env2)[:200])))
    else:
        names = [n.name for n in env2.nodes.nodes]
        d = env2.data(Format.TUPLE)
        bad = {}
        for k, (ev, eu) in exp.items():
            o = d.get(k)
            ov, ou = (o[0], o[1]) if isinstance(o, tuple) else (o, None)
            same = (ov == ev and type(ov) == type(ev)) if isinstance(ev, (str, bool)) else (not isinstance(ov, (str, bool)) and ov is not None and close(ov, ev, 1e-9, 1e-12))
            if isinstance(ev, int) and not isinstance(ev, bool) and eu is None and not (isinstance(ov, int) and not isinstance(ov, bool)):
                same = False
            if k not in d or ou != eu or not same:
                bad[k] = dict(observed=o, expected=(ev, eu))
        if bad or sorted(names) != sorted(exp) or len(names) != len(set(names)):
            devs.append(dev('second-stage:result-is-not-one-node-with-the-last-value-in-the-definition-unit(%s)' % what,
                            dict(stage_1=tA, stage_2=tB, differing=bad, node_names=names)))
    return outcome(classes=classes, nontrivial=True, fp='e14s ' + tA + tB, dev=devs, monitors={'edge_programs': 1, 'second_stage_programs': 1}, sample=sample)


# ------------------------------------------------------------------------------------------------ C16, bare numbers in conditions
# The documented example:  energy float = 25 erg / !condition ("23 < {?} && {?} < 26")  - "values in a range of 23 and 26 erg":
# a bare number in a condition is read in the node's own unit.  Here the same expression also compares {?} with ANOTHER node
# written in a different unit, before or after the bare-number comparison.

def gen_c16_bare(rng):
    dim = rng.choice(list(LIN))
    (u, fu), (u2, f2) = rng.sample(LIN[dim], 2)
    V = rng.choice([500.0, 20.0, 6.0, 101.0, 0.5, 3000.0])
    B = rng.choice([100.0, 5.0, 1000.0])
    other_rel = rng.choice([0.01, 0.5, 2.0, 50.0])          # the other node's value as a multiple of V (physically)
    return dict(edge='c16-bare', u=u, u2=u2, V=V, B=B, other_rel=other_rel, dt=rng.choice(['float', 'float', 'int']),
                form=rng.choice(['node-then-bare', 'bare-then-node', 'bare-only', 'docs-range', 'node-then-bare-gt', 'node-left-then-bare']),
                route=rng.choice(['def', 'def', 'mod-other-unit']))


def run_c16_bare(c, ctx):
    f = {uu: k for d in LIN.values() for uu, k in d}
    u, u2, V, B = c['u'], c['u2'], float(c['V']), float(c['B'])
    O = V * f[u] * c['other_rel'] / f[u2]                     # other node, written in u2
    if c['dt'] == 'int' and (not all(float(z).is_integer() for z in (O, V, B)) or abs(O) > 1e9):
        c = dict(c, dt='float')
    num = (lambda z: '%d' % z) if c['dt'] == 'int' else (lambda z: repr(float(z)))
    if abs(V - B) < 1e-9 * max(V, B) or abs(c['other_rel'] - 1) < 1e-9:
        return outcome(skip='value on a boundary')
    gt_other = V * f[u] > O * f[u2]
    form = c['form']
    if form == 'node-then-bare':
        cond, truth = '{?} > {?other} && {?} < %s' % num(B), gt_other and V < B
    elif form == 'bare-then-node':
        cond, truth = '{?} < %s && {?} > {?other}' % num(B), gt_other and V < B
    elif form == 'bare-only':
        cond, truth = '{?} < %s' % num(B), V < B
    elif form == 'docs-range':
        lo = min(B, V) / 2
        cond, truth = '%s < {?} && {?} < %s' % (num(lo) if c['dt'] == 'float' else num(max(1, int(lo))), num(B)), (lo if c['dt'] == 'float' else max(1, int(lo))) < V < B
    elif form == 'node-then-bare-gt':
        cond, truth = '{?} < {?other} && {?} > %s' % num(B), (not gt_other) and V > B
    else:
        cond, truth = '{?other} < {?} && {?} < %s' % num(B), gt_other and V < B
    L = ['other %s = %s %s' % (c['dt'], num(O), u2)]
    if c['route'] == 'def':
        L += ['x %s = %s %s' % (c['dt'], num(V), u), '  !condition ("%s")' % cond]
    else:
        # the final value arrives through a modification written in the other unit (converted into the node's unit first)
        Vm = V * f[u] / f[u2]
        if c['dt'] == 'int' and not float(Vm).is_integer():
            return outcome(skip='modification value not integral in the other unit')
        L += ['x %s = %s %s' % (c['dt'], num(V + 1 if V + 1 < B or V > B else V), u), '  !condition ("%s")' % cond, 'x = %s %s' % (num(Vm), u2)]
        first = V + 1 if V + 1 < B or V > B else V
    text = '\n'.join(L) + '\n'
    classes = ['edge:bare-number-in-condition', 'edge:bare-number:' + form, 'edge:bare-number-' + ('accept' if truth else 'reject')]
    devs = []
    st, res, keep = parse(ctx, text, 'e16b')
    if truth and st != 'ok':
        devs.append(dev('bare-number-condition:satisfied-but-rejected(%s)' % form, dict(text=text, exc=repr(res)[:200])))
    if not truth and st == 'ok':
        devs.append(dev('bare-number-condition:violated-but-accepted(%s)' % form, dict(text=text, data=repr(res.data())[:200])))
    return outcome(classes=classes, nontrivial=True, fp='e16b ' + text, dev=devs, monitors={'edge_programs': 1, 'bare_number_condition_programs': 1},
                   sample=dict(text=text, expected='accepted' if truth else 'rejected'))


# ------------------------------------------------------------------------------------------------ C16

def gen_c16(rng):
    n = rng.randint(3, 6)
    lo = rng.choice([None, 1, 2])
    hi = rng.choice([None, 2, 3])
    if lo is not None and hi is not None and lo > hi:
        lo, hi = hi, lo
    if lo is None and hi is None:
        hi = 2
    form = rng.choice(['range', 'exact'])
    if form == 'exact':
        lo = hi = rng.choice([2, 3])
    a = rng.randint(0, n - 1)
    b = rng.randint(a + 1, n)
    return dict(edge='c16-slice', n=n, lo=lo, hi=hi, form=form, a=a, b=b, dt=rng.choice(['float', 'int']), unit=rng.choice([None, 'cm', 's']),
                open_lo=rng.random() < 0.3, open_hi=rng.random() < 0.3, remote_like=rng.random() < 0.2)


def run_c16(c, ctx):
    n, a, b = c['n'], c['a'], c['b']
    vals = [i * 2 + 1 for i in range(n)]
    u = (' ' + c['unit']) if c['unit'] else ''
    sl = '%s:%s' % ('' if c['open_lo'] else a, '' if c['open_hi'] else b)
    a_eff, b_eff = (0 if c['open_lo'] else a), (n if c['open_hi'] else b)
    part = vals[a_eff:b_eff]
    if c['form'] == 'exact':
        dim = '%d' % c['lo']
    else:
        dim = '%s:%s' % ('' if c['lo'] is None else c['lo'], '' if c['hi'] is None else c['hi'])
    text = 'src %s[%d] = [%s]%s\nmy %s[%s] = {?src}[%s]\n' % (c['dt'], n, ','.join(str(v) for v in vals), u, c['dt'], dim, sl)
    within = (c['lo'] is None or len(part) >= c['lo']) and (c['hi'] is None or len(part) <= c['hi'])
    classes = ['edge:sliced-injection-into-bounded-array', 'edge:slice-' + ('within-bounds' if within else 'outside-bounds')]
    devs = []
    st, res, keep = parse(ctx, text, 'e16')
    if within:
        if st != 'ok':
            devs.append(dev('wrongly-rejected:sliced-injection-within-dimension-bounds', dict(text=text, exc=repr(res)[:200])))
        else:
            d = res.data().get('my')
            d = d.tolist() if hasattr(d, 'tolist') else d
            if d is None or [float(x) for x in d] != [float(x) for x in part]:
                devs.append(dev('sliced-injection-delivers-other-elements', dict(text=text, observed=d, expected=part)))
    else:
        if st == 'ok':
            devs.append(dev('wrongly-accepted:sliced-injection-outside-dimension-bounds', dict(text=text, data=repr(res.data())[:200])))
    return outcome(classes=classes, nontrivial=True, fp='e16 ' + text, dev=devs, monitors={'edge_programs': 1},
                   sample=dict(text=text, expected=('accepted', part) if within else 'rejected'))


# ------------------------------------------------------------------------------------------------ C13: table cells

CELLS = ['C:\\data\\run1.h5', '\\alpha', "O'Brien", 'x#y', 'a=b', 'semi;colon', 'plain', 'v1.5', 'two words', 'tab\\t', 'q?', 'back\\\\slash', "it's"]


def gen_c13(rng):
    nrow = rng.randint(1, 4)
    cols = rng.sample(['id int', 'path str', 'ok bool', 'label str', 'w float'], rng.randint(2, 4))
    if not any(c.endswith('str') for c in cols):
        cols.append('name str')
    rows = []
    for r in range(nrow):
        row = []
        for c in cols:
            ty = c.split()[1]
            if ty == 'int':
                row.append(rng.randint(-50, 50))
            elif ty == 'float':
                row.append(rng.choice([1.5, -0.25, 3.0, 1e3]))
            elif ty == 'bool':
                row.append(rng.random() < 0.5)
            else:
                row.append(rng.choice(CELLS))
        rows.append(row)
    return dict(edge='c13-table', cols=cols, rows=rows, blank_lines=rng.random() < 0.4, indent=rng.choice([0, 2]))


def run_c13(c, ctx):
    def cell(v):
        if isinstance(v, bool):
            return 'true' if v else 'false'
        if isinstance(v, str):
            return '"%s"' % v if ' ' in v else v
        return repr(v)
    head = ['grp'] if c['indent'] else []
    ind = ' ' * c['indent']
    L = head + ['%st table = """' % ind] + c['cols'] + ['']
    for r in c['rows']:
        L.append(' '.join(cell(v) for v in r))
        if c['blank_lines']:
            L.append('')
    L.append('"""')
    text = '\n'.join(L) + '\n'
    prefix = 'grp.t.' if c['indent'] else 't.'
    exp = {}
    for j, col in enumerate(c['cols']):
        exp[prefix + col.split()[0]] = [r[j] for r in c['rows']]
    classes = ['edge:table-cells', 'edge:table-cell-special-characters'] if any(isinstance(v, str) and v in CELLS[:5] + CELLS[9:] for r in c['rows'] for v in r) else ['edge:table-cells']
    devs = []
    st, res, keep = parse(ctx, text, 'e13')
    if st != 'ok':
        devs.append(dev('table-with-literal-cells-rejected', dict(text=text, exc=repr(res)[:200])))
    else:
        d = res.data()
        d = {k: (v.tolist() if hasattr(v, 'tolist') else v) for k, v in d.items()}
        if list(d) != list(exp):
            devs.append(dev('table-columns-or-order-differ', dict(text=text, observed=list(d), expected=list(exp))))
        else:
            for k in exp:
                if d[k] != exp[k]:
                    devs.append(dev('table-cell-not-the-literal-written', dict(text=text, column=k, observed=d[k], expected=exp[k])))
                    break
    return outcome(classes=classes, nontrivial=True, fp='e13 ' + text, dev=devs, monitors={'edge_programs': 1}, sample=dict(text=text, expected=exp))


# ------------------------------------------------------------------------------------------------ C16: constraints travel with imports

def gen_c16_import(rng):
    kind = rng.choice(['condition', 'condition', 'format', 'options'])
    return dict(edge='c16-import', kind=kind, how=rng.choice(['star', 'single']), ok=rng.random() < 0.5, grouped_twice=rng.random() < 0.3,
                lim=rng.choice([10, 25, 8]), remote=rng.random() < 0.3)


def run_c16_import(c, ctx):
    import os, tempfile, shutil
    kind = c['kind']
    if kind == 'condition':
        src = ['template', '  size float = 5 cm', '    !condition ("{?} < %d cm")' % c['lim']]
        good, bad, name = '7 cm', '%d cm' % (c['lim'] * 5), 'size'
    elif kind == 'format':
        src = ['template', '  size str = ab12', '    !format "[a-z]+[0-9]+"']
        good, bad, name = 'xy7', 'XY', 'size'
    else:
        src = ['template', '  size int = 1', '    !options [1,2,3]']
        good, bad, name = '3', '9', 'size'
    tmpd = None
    top = 'outer.box' if c['grouped_twice'] else 'box'
    req = '{%s?template.*}' if c['how'] == 'star' else '{%s?template.size}'
    if c['remote']:
        tmpd = tempfile.mkdtemp(prefix='vt_e16_')
        with open(os.path.join(tmpd, 'r.dip'), 'w') as f:
            f.write('\n'.join(src) + '\n')
        L = ['$source r = %s' % os.path.join(tmpd, 'r.dip')]
        req = req % 'r'
    else:
        L = list(src)
        req = req % ''
    if c['grouped_twice']:
        L += ['outer', '  box', '    ' + req]
    else:
        L += ['box', '  ' + req]
    L.append('%s.%s = %s' % (top, name, good if c['ok'] else bad))
    text = '\n'.join(L) + '\n'
    classes = ['edge:constraint-on-imported-copy', 'edge:import-' + kind, 'edge:import-' + ('remote' if c['remote'] else 'local')]
    devs = []
    try:
        st, res, keep = parse(ctx, text, 'e16i')
    finally:
        if tmpd:
            shutil.rmtree(tmpd, ignore_errors=True)
    if c['ok']:
        if st != 'ok':
            devs.append(dev('wrongly-rejected:modification-of-imported-copy-satisfying-its-%s' % kind, dict(text=text, exc=repr(res)[:200])))
    else:
        if st == 'ok':
            devs.append(dev('wrongly-accepted:modification-of-imported-copy-violating-its-%s' % kind, dict(text=text, data=repr(res.data())[:200])))
    return outcome(classes=classes, nontrivial=True, fp='e16i ' + text, dev=devs, monitors={'edge_programs': 1},
                   sample=dict(text=text, expected='accepted' if c['ok'] else 'rejected'))


# ------------------------------------------------------------------------------------------------ C16: int options in another unit

def gen_c16_intopt(rng):
    return dict(edge='c16-intopt', form=rng.choice(['lines', 'list']), pick=rng.choice(['opt-small', 'opt-frac', 'opt-own-unit', 'truncated-1', 'truncated-0', 'other']),
                scale=rng.choice([('km', 'm', 1000), ('m', 'cm', 100), ('kg', 'g', 1000)]), dt=rng.choice(['int', 'int', 'float']))


def run_c16_intopt(c, ctx):
    big, small, k = c['scale']
    # options 0.5, 1.5 (written in the small unit) and 2 (own unit) of an int node given in the big unit
    L = ['range %s = 2 %s' % (c['dt'], big)]
    if c['form'] == 'list':
        L += ['  !options [%d,%d] %s' % (k // 2, 3 * k // 2, small), '  = 2 %s' % big]
    else:
        L += ['  = %d %s' % (k // 2, small), '  = %d %s' % (3 * k // 2, small), '  = 2 %s' % big]
    val, ok = {'opt-small': ('%d %s' % (k // 2, small), True), 'opt-frac': ('%d %s' % (3 * k // 2, small), True), 'opt-own-unit': ('2 %s' % big, True),
               'truncated-1': ('1 %s' % big, False), 'truncated-0': ('0 %s' % big, False), 'other': ('%d %s' % (k, small), False)}[c['pick']]
    L.append('range = %s' % val)
    text = '\n'.join(L) + '\n'
    classes = ['edge:int-options-in-another-unit', 'edge:int-option-' + ('member' if ok else 'non-member')]
    devs = []
    st, res, keep = parse(ctx, text, 'e16o')
    if ok and st != 'ok':
        devs.append(dev('wrongly-rejected:option-given-in-another-unit', dict(text=text, exc=repr(res)[:200])))
    if not ok and st == 'ok':
        devs.append(dev('wrongly-accepted:value-equal-to-a-truncated-option', dict(text=text, data=repr(res.data())[:160])))
    return outcome(classes=classes, nontrivial=True, fp='e16o ' + text, dev=devs, monitors={'edge_programs': 1},
                   sample=dict(text=text, expected='accepted' if ok else 'rejected'))


# ------------------------------------------------------------------------------------------------ C16, values of lower rank than declared
# "every declared array dimension lies within its bounds": a declared dimension that the final value does not have at all is
# not within its bounds - the value of a node declared [2,2:3] is a matrix, [5,6] or 7 is none.  Controls of the declared rank
# (inside and outside the bounds) behave as everywhere else.  Values of HIGHER rank are not in the statement and not asked.

def gen_c16_rank(rng):
    return dict(edge='c16-rank', kind=rng.choice(['vector-for-matrix', 'scalar-for-vector', 'scalar-for-matrix', 'modification-of-lower-rank',
                                                   'declaration-then-scalar', 'open-bounds-scalar', 'control-matrix-inside', 'control-matrix-outside',
                                                   'control-vector-inside', 'control-modification-same-rank']),
                dt=rng.choice(['int', 'float']), unit=rng.choice([None, 'cm']), a=rng.randint(1, 9), b=rng.randint(1, 9), grouped=rng.random() < 0.3)


def run_c16_rank(c, ctx):
    k, dt, a, b = c['kind'], c['dt'], c['a'], c['b']
    u = (' ' + c['unit']) if c['unit'] else ''
    ind, pre = ('  ', ['grp']) if c['grouped'] else ('', [])
    ok = k.startswith('control') and k != 'control-matrix-outside'
    L = {'vector-for-matrix': ['m %s[2,2:3] = [%d,%d]%s' % (dt, a, b, u)],
         'scalar-for-vector': ['m %s[2] = %d%s' % (dt, a, u)],
         'scalar-for-matrix': ['m %s[1:,1:] = %d%s' % (dt, a, u)],
         'modification-of-lower-rank': ['m %s[2,2] = [[1,2],[3,4]]%s' % (dt, u), 'm = [%d,%d]%s' % (a, b, u)],
         'declaration-then-scalar': ['m %s[2:]%s' % (dt, u), 'm = %d' % a],
         'open-bounds-scalar': ['m %s[:] = %d%s' % (dt, a, u)],
         'control-matrix-inside': ['m %s[2,2:3] = [[%d,%d,1],[%d,%d,2]]%s' % (dt, a, b, b, a, u)],
         'control-matrix-outside': ['m %s[2,2:3] = [[%d],[%d]]%s' % (dt, a, b, u)],
         'control-vector-inside': ['m %s[2:] = [%d,%d,%d]%s' % (dt, a, b, a, u)],
         'control-modification-same-rank': ['m %s[2,2] = [[1,2],[3,4]]%s' % (dt, u), 'm = [[%d,%d],[%d,%d]]%s' % (a, b, b, a, u)]}[k]
    text = '\n'.join(pre + [ind + l for l in L]) + '\n'
    classes = ['edge:value-rank-versus-declared-dimensions', 'edge:rank:' + k]
    devs = []
    st, res, keep = parse(ctx, text, 'e16r')
    if ok and st != 'ok':
        devs.append(dev('wrongly-rejected:value-of-the-declared-rank-within-bounds', dict(text=text, exc=repr(res)[:200])))
    if not ok and st == 'ok':
        devs.append(dev('wrongly-accepted:%s' % ('value-lacks-a-declared-dimension' if not k.startswith('control') else 'dimension-outside-bounds'),
                        dict(text=text, data=repr(res.data())[:160])))
    return outcome(classes=classes, nontrivial=True, fp='e16r ' + text, dev=devs, monitors={'edge_programs': 1},
                   sample=dict(text=text, expected='accepted' if ok else 'rejected'))


# ------------------------------------------------------------------------------------------------ C14, one custom-unit NAME in several parses
# A custom unit belongs to the text that defines it.  Several independent parses of one process define a unit of the same
# name with another size (or another dimension): every parse converts the last assignment with ITS definition.

def gen_c14_unitname(rng):
    sizes = rng.sample([2.0, 5.0, 0.5, 10.0, 4.0, 0.25], 3)
    return dict(edge='c14-unitname', sizes=sizes, x=rng.choice([3.0, 4.0, 12.0]), y=rng.choice([4.0, 6.0, 1.0]), base=rng.choice(['m', 's', 'g']),
                direction=rng.choice(['custom-is-definition-unit', 'custom-is-assignment-unit']), dt=rng.choice(['float', 'float', 'int']),
                last=rng.choice(['other-dimension', 'other-size', 'other-size']))


def run_c14_unitname(c, ctx):
    from scinumtools.dip.settings import Format
    base, x, y = c['base'], c['x'], c['y']
    other = {'m': 's', 's': 'g', 'g': 'm'}[base]
    devs, texts = [], []
    classes = ['edge:custom-unit-name-reused-across-parses', 'edge:custom-unit-name:' + c['direction']]
    steps = [(s, base) for s in c['sizes']]
    if c['last'] == 'other-dimension':
        steps[-1] = (steps[-1][0], other)
        classes.append('edge:custom-unit-name:redefined-in-another-dimension')
    for i, (size, b) in enumerate(steps):
        if c['direction'] == 'custom-is-definition-unit':
            L = ['$unit qq = %r %s' % (size, b), 'w float = %r [qq]' % x, 'w = %r %s' % (y, base)]
            exp, eu = y / size, '[qq]'
        else:
            L = ['$unit qq = %r %s' % (size, b), 'w float = %r %s' % (x, base), 'w = %r [qq]' % y]
            exp, eu = y * size, base
        text = '\n'.join(L) + '\n'
        texts.append(text)
        st, res, keep = parse(ctx, text, 'e14u')
        must_fail = b != base
        if must_fail:
            if st == 'ok':
                devs.append(dev('custom-unit-name:assignment-in-another-dimension-accepted-in-parse-%d' % (i + 1), dict(texts=texts, data=repr(res.data(Format.TUPLE))[:200])))
        elif st != 'ok':
            devs.append(dev('custom-unit-name:valid-program-rejected-in-parse-%d' % (i + 1), dict(texts=texts, exc=repr(res)[:200])))
        else:
            o = res.data(Format.TUPLE).get('w')
            if not isinstance(o, tuple) or o[1] != eu or not close(o[0], exp, 1e-9):
                devs.append(dev('custom-unit-name:parse-%d-does-not-convert-with-its-own-definition' % (i + 1), dict(texts=texts, observed=repr(o), expected=(exp, eu))))
        if devs:
            break
    return outcome(classes=classes, nontrivial=True, fp='e14u ' + ''.join(texts), dev=devs, monitors={'edge_programs': 1, 'custom_unit_name_parses': len(texts)},
                   sample=dict(texts=texts))


# ------------------------------------------------------------------------------------------------ C13, a path written twice, the second time as none
# "the declared type": a numeric node declared with a width / sign of its own (uint64, int16, float32, float128) that appears a
# second time under the same path with the literal none is ONE parameter of that path, value none, with the width and sign of
# the definition in its data-type object (which is what the exporters read).

def gen_c13_renone(rng):
    dt = rng.choice(['uint64', 'int16', 'int64', 'uint16', 'float32', 'float128', 'int', 'float', 'uint32'])
    return dict(edge='c13-renone', dt=dt, unit=rng.choice([None, 'cm', 's']), grouped=rng.random() < 0.6, typed=rng.random() < 0.4, array=rng.random() < 0.25,
                again=rng.choice(['none', 'none', 'value']), v=rng.randint(1, 99))


def run_c13_renone(c, ctx):
    from scinumtools.dip.settings import Format
    dt, u = c['dt'], (' ' + c['unit']) if c['unit'] else ''
    isint = 'int' in dt
    lit = ('[%d,%d]' % (c['v'], c['v'] + 1)) if c['array'] else (str(c['v']) if isint else repr(c['v'] + 0.5))
    lit2 = 'none' if c['again'] == 'none' else (('[%d,%d]' % (c['v'] + 2, c['v'] + 3)) if c['array'] else (str(c['v'] + 2) if isint else repr(c['v'] + 2.5)))
    dim = '[2]' if c['array'] else ''
    name = 'grid.cells' if c['grouped'] else 'cells'
    L = (['grid', '  cells %s%s = %s%s' % (dt, dim, lit, u)] if c['grouped'] else ['cells %s%s = %s%s' % (dt, dim, lit, u)])
    L.append('%s %s= %s' % (name, (dt + dim + ' ') if c['typed'] else '', lit2))
    text = '\n'.join(L) + '\n'
    uns = dt.startswith('u')
    bits = ''.join(ch for ch in dt if ch.isdigit())
    width = int(bits) if bits else (32 if isint else 64)
    classes = ['edge:path-written-twice', 'edge:path-written-twice:' + c['again'], 'edge:path-written-twice:width-%d%s' % (width, '-unsigned' if uns else '')]
    devs = []
    st, res, keep = parse(ctx, text, 'e13n')
    if st != 'ok':
        devs.append(dev('path-written-twice:valid-text-rejected', dict(text=text, exc=repr(res)[:200])))
    else:
        d = res.data(Format.TYPE)
        o = d.get(name)
        got = None if o is None else dict(kind=type(o).__name__, value=repr(o.value), width=getattr(o, 'precision', None), unsigned=bool(getattr(o, 'unsigned', False)), unit=o.unit)
        want_none = c['again'] == 'none'
        bad = (sorted(d) != [name] or o is None or ('Integer' in type(o).__name__) != isint or got['width'] != width or (isint and got['unsigned'] != uns)
               or got['unit'] != c['unit'] or (want_none and o.value is not None) or (not want_none and o.value is None))
        if bad:
            devs.append(dev('path-written-twice:parameter-does-not-keep-the-declared-width-sign-or-unit', dict(text=text, observed=got, keys=sorted(d),
                                                                                                         expected=dict(width=width, unsigned=uns, unit=c['unit'], value='none' if want_none else lit2))))
    return outcome(classes=classes, nontrivial=True, fp='e13n ' + text, dev=devs, monitors={'edge_programs': 1}, sample=dict(text=text))


# ------------------------------------------------------------------------------------------------ C16, constraints written in offset / logarithmic units
# "compared after conversion to the node's unit": a bound or an option written in K for a node in Cel (degF, dBm / W ...) is
# converted by the unit's formula, not by a factor.

def gen_c16_offset(rng):
    return dict(edge='c16-offset', nu=rng.choice(['Cel', 'K', 'degF']), bu=rng.choice(['Cel', 'K', 'degF']), tk=rng.choice([293.15, 250.0, 310.0, 373.15, 77.0]),
                delta=rng.choice([5.0, -5.0, 40.0, -40.0]), op=rng.choice(['>', '<']), form=rng.choice(['condition', 'condition-range', 'option-float', 'option-int', 'level-condition']),
                modified=rng.random() < 0.3)


def run_c16_offset(c, ctx):
    fromK = {'K': lambda t: t, 'Cel': lambda t: t - 273.15, 'degF': lambda t: t * 9 / 5 - 459.67}
    nu, bu = c['nu'], c['bu']
    if nu == bu:
        bu = {'Cel': 'K', 'K': 'degF', 'degF': 'Cel'}[nu]
    tk, bk = c['tk'], c['tk'] - c['delta']          # node temperature and bound, in K
    V, B = fromK[nu](tk), fromK[bu](bk)
    form = c['form']
    classes = ['edge:constraint-in-an-offset-or-logarithmic-unit', 'edge:offset-constraint:' + form]
    if form == 'condition':
        ok = (tk > bk) if c['op'] == '>' else (tk < bk)
        L = ['temp float = %r %s' % (V, nu), '  !condition ("{?} %s %r %s")' % (c['op'], B, bu)]
    elif form == 'condition-range':
        lo, hi = fromK[bu](min(tk, bk) - 1 if c['delta'] > 0 else bk + 1), fromK[bu](max(tk, bk) + 1 if c['delta'] > 0 else bk + 30)
        ok = (fromK['K'](tk) > (min(tk, bk) - 1 if c['delta'] > 0 else bk + 1)) and (tk < (max(tk, bk) + 1 if c['delta'] > 0 else bk + 30))
        L = ['temp float = %r %s' % (V, nu), '  !condition ("%r %s < {?} && {?} < %r %s")' % (lo, bu, hi, bu)]
    elif form == 'option-float':
        ok = abs(c['delta']) > 10           # the first option is the node's own temperature written in bu (member) or 5 K away (no member)
        opt = fromK[bu](tk if ok else tk + 5)
        L = ['temp float = %r %s' % (V, nu), '  !options [%r,%r] %s' % (opt, fromK[bu](tk + 80), bu)]
    elif form == 'option-int':
        ok = c['delta'] > 0
        L = ['th int = %d Cel' % (20 if ok else 21), '  = 68 degF', '  = 25 Cel']
    else:
        ok = (c['op'] == '>') == (c['delta'] > 0)
        L = ['lv float = 30 dBm', '  !condition ("{?} %s %s W")' % (c['op'], '0.5' if c['delta'] > 0 else '2')]      # 30 dBm = 1 W
    if c['modified'] and form in ('condition', 'condition-range'):
        # the definition satisfies nothing in particular; the LAST value (written in the bound's unit) is the one judged
        L = ['temp float = %r %s' % (fromK[nu](bk + (1 if c['op'] == '>' else -1) * 1000 if form == 'condition' else tk), nu)] + L[1:] + ['temp = %r %s' % (fromK[bu](tk), bu)]
        classes.append('edge:offset-constraint:value-assigned-in-the-bounds-unit')
    text = '\n'.join(L) + '\n'
    devs = []
    st, res, keep = parse(ctx, text, 'e16t')
    if ok and st != 'ok':
        devs.append(dev('wrongly-rejected:constraint-in-another-offset-unit(%s)' % form, dict(text=text, exc=repr(res)[:200])))
    if not ok and st == 'ok':
        devs.append(dev('wrongly-accepted:constraint-in-another-offset-unit(%s)' % form, dict(text=text, data=repr(res.data())[:160])))
    return outcome(classes=classes, nontrivial=True, fp='e16t ' + text, dev=devs, monitors={'edge_programs': 1},
                   sample=dict(text=text, expected='accepted' if ok else 'rejected'))
