"""Closed-form side families for C14 and C16 (edge combinations the generated programs of the builders do not reach).

C14 'zero-in-other-unit': the LAST assignment is an exact zero written in another unit
    - same dimension, other prefix        -> 0 in the definition's unit
    - offset temperature units (K <-> Cel) -> the affine image of zero
    - unit of another dimension           -> parsing must fail (also for zero)
C16 'sliced-injection-into-bounded-array': a node with declared array bounds whose value is a sliced injection
    - result within the bounds            -> accepted with exactly the sliced elements
    - result outside the bounds           -> parsing must fail
Only 1-D numeric slices in definitions are used (string slices, slices in modification lines and multi-axis slices are
recorded C17 defects and stay out of these programs)."""
import itertools
from vt.core import outcome, dev
from vt.util import close

LIN = {'length': [('m', 1.0), ('cm', 1e-2), ('km', 1e3), ('mm', 1e-3)], 'time': [('s', 1.0), ('ms', 1e-3), ('min', 60.0)],
       'mass': [('g', 1.0), ('kg', 1e3)]}
_n = itertools.count()


def parse(ctx, text, tag):
    from scinumtools.dip import DIP
    p = DIP(name='%s_%d' % (tag, next(_n)))
    p.add_string(text)
    try:
        return 'ok', p.parse(), p
    except Exception as e:
        return 'exc', e, p


# ------------------------------------------------------------------------------------------------ C14

def gen_c14(rng):
    kind = rng.choice(['same-dimension', 'same-dimension', 'offset-temperature', 'other-dimension', 'other-dimension'])
    dt = rng.choice(['float', 'float', 'int'])
    zero = rng.choice(['0', '0.0', '-0.0', '0e0']) if dt == 'float' else '0'
    c = dict(edge='c14-zero', kind=kind, dt=dt, zero=zero, typed=rng.random() < 0.3, x0=rng.choice([1, 20, 3]), mid=rng.random() < 0.5,
             grouped=rng.random() < 0.3)
    if kind == 'same-dimension':
        dim = rng.choice(list(LIN))
        (u0, _), (u1, _) = rng.sample(LIN[dim], 2)
        c.update(u0=u0, u1=u1)
    elif kind == 'offset-temperature':
        c.update(dt='float', zero='0', u0=rng.choice(['Cel', 'K']))
        c['u1'] = 'K' if c['u0'] == 'Cel' else 'Cel'
    else:
        d0, d1 = rng.sample(list(LIN), 2)
        c.update(u0=rng.choice(LIN[d0])[0], u1=rng.choice(LIN[d1])[0])
    return c


def run_c14(c, ctx):
    dt, u0, u1 = c['dt'], c['u0'], c['u1']
    name = 'grp.node' if c['grouped'] else 'node'
    L = ['grp'] if c['grouped'] else []
    ind = '  ' if c['grouped'] else ''
    L.append('%snode %s = %s %s' % (ind, dt, c['x0'], u0))
    if c['mid']:
        L.append('%s = %s %s' % (name, c['x0'] + 1, u0))
    L.append('%s%s = %s %s' % (name, ' ' + dt if c['typed'] else '', c['zero'], u1))
    text = '\n'.join(L) + '\n'
    classes = ['edge:zero-in-other-unit', 'edge:zero-' + c['kind']]
    devs = []
    st, res, keep = parse(ctx, text, 'e14')
    if c['kind'] == 'other-dimension':
        if st == 'ok':
            devs.append(dev('zero-in-unit-of-another-dimension-accepted', dict(text=text, data=res.data())))
        exp = 'rejected'
    else:
        exp = 0.0 if c['kind'] == 'same-dimension' else (-273.15 if u0 == 'Cel' else 273.15)
        if st != 'ok':
            devs.append(dev('legal-zero-modification-rejected', dict(text=text, exc=repr(res)[:200])))
        else:
            from scinumtools.dip.settings import Format
            d = res.data(Format.TUPLE).get(name)
            if not (isinstance(d, tuple) and close(d[0], exp, 1e-9, 1e-12) and d[1] == u0):
                devs.append(dev('zero-not-converted-into-definition-unit', dict(text=text, observed=d, expected=(exp, u0))))
    return outcome(classes=classes, nontrivial=True, fp='e14 ' + text, dev=devs, monitors={'edge_programs': 1}, sample=dict(text=text, expected=exp))


# ------------------------------------------------------------------------------------------------ C16

def gen_c16(rng):
    n = rng.randint(3, 6)
    lo = rng.choice([None, 1, 2])
    hi = rng.choice([None, 2, 3])
    if lo is not None and hi is not None and lo > hi:
        lo, hi = hi, lo
    if lo is None and hi is None:
        hi = 2
    form = rng.choice(['range', 'exact'])
    if form == 'exact':
        lo = hi = rng.choice([2, 3])
    a = rng.randint(0, n - 1)
    b = rng.randint(a + 1, n)
    return dict(edge='c16-slice', n=n, lo=lo, hi=hi, form=form, a=a, b=b, dt=rng.choice(['float', 'int']), unit=rng.choice([None, 'cm', 's']),
                open_lo=rng.random() < 0.3, open_hi=rng.random() < 0.3, remote_like=rng.random() < 0.2)


def run_c16(c, ctx):
    n, a, b = c['n'], c['a'], c['b']
    vals = [i * 2 + 1 for i in range(n)]
    u = (' ' + c['unit']) if c['unit'] else ''
    sl = '%s:%s' % ('' if c['open_lo'] else a, '' if c['open_hi'] else b)
    a_eff, b_eff = (0 if c['open_lo'] else a), (n if c['open_hi'] else b)
    part = vals[a_eff:b_eff]
    if c['form'] == 'exact':
        dim = '%d' % c['lo']
    else:
        dim = '%s:%s' % ('' if c['lo'] is None else c['lo'], '' if c['hi'] is None else c['hi'])
    text = 'src %s[%d] = [%s]%s\nmy %s[%s] = {?src}[%s]\n' % (c['dt'], n, ','.join(str(v) for v in vals), u, c['dt'], dim, sl)
    within = (c['lo'] is None or len(part) >= c['lo']) and (c['hi'] is None or len(part) <= c['hi'])
    classes = ['edge:sliced-injection-into-bounded-array', 'edge:slice-' + ('within-bounds' if within else 'outside-bounds')]
    devs = []
    st, res, keep = parse(ctx, text, 'e16')
    if within:
        if st != 'ok':
            devs.append(dev('wrongly-rejected:sliced-injection-within-dimension-bounds', dict(text=text, exc=repr(res)[:200])))
        else:
            d = res.data().get('my')
            d = d.tolist() if hasattr(d, 'tolist') else d
            if d is None or [float(x) for x in d] != [float(x) for x in part]:
                devs.append(dev('sliced-injection-delivers-other-elements', dict(text=text, observed=d, expected=part)))
    else:
        if st == 'ok':
            devs.append(dev('wrongly-accepted:sliced-injection-outside-dimension-bounds', dict(text=text, data=repr(res.data())[:200])))
    return outcome(classes=classes, nontrivial=True, fp='e16 ' + text, dev=devs, monitors={'edge_programs': 1},
                   sample=dict(text=text, expected=('accepted', part) if within else 'rejected'))
