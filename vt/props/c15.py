"""C15 — A node takes effect exactly when all enclosing case clauses are selected.

Reference-model oracle: a generated block tree (vt.refmodel.dip_ref_c15) is rendered to DIP text, the real
DIP parser only ever sees that text; the expected environment is computed from the tree by an independent
interpreter.  The complete small-scope core is enumerated in both tiers; random deep programs are added.
Known defective mechanisms F1..F5 of the branching code are classified by *taint* (see the refmodel and
NOTES_C15_C16.md): only differences on keys written by tainted writers, in the direction of the mechanism,
are attributed to a recorded finding.  Programs free of every shape are judged by the strict oracle.
"""
import random
from vt.core import outcome, dev
from vt.util import exc_sig
from vt.refmodel import dip_ref_c15 as R
from vt.refmodel import dip_ref_c16 as R16

ID = 'C15'
LEVEL = 'exploration'
RULE = ('programs = trees of nodes (definition / modification / definition with a property line), groups and '
        '@case/@else/@end blocks rendered with both closure styles; (i) complete small-scope core: every block shape '
        'with <=3 clauses x every truth assignment x {@end, indentation}: alone (with/without a following node), '
        'nested in every clause position of every outer block (before/after the clause\'s own nodes), two in '
        'sequence (with/without a node between), plus misplaced @else/@end around every explicitly closed block; '
        '(ii) random programs: nesting <=5, blocks under groups and in compact g.@case form, literal conditions and '
        'logical expressions over earlier nodes; non-trivial = program with >=1 block whose clauses contain nodes; '
        'distinct by rendered text')
SHARDS = {'quick': 16, 'thorough': 16}
MIN_NONTRIVIAL = {'quick': 9000, 'thorough': 60000}
REQUIRED_CLASSES = ['second-parse-from-a-base-whose-first-parse-ended-inside-a-block', 'repeated-condition-text', 'repeated-condition-text:defined', 'repeated-condition-text:change-in-selected-clause', 'core-single', 'core-nested', 'core-sequence', 'closure-end', 'closure-indent', 'nesting>=2',
                    'nesting>=3', 'node-before', 'node-inside', 'node-between', 'node-after', 'all-false',
                    'else-selected', 'later-true-clause-shadowed', 'block-under-group', 'compact-form',
                    'condition-expression', 'modification-in-clause', 'property-in-clause',
                    'mustfail-else-no-open-block', 'mustfail-end-no-open-block', 'mustfail-else-after-end', 'mustfail-inside-selected-clause',
                    'mustfail-inside-unselected-clause',
                    'shape-free', 'tainted', 'empty-or-comment-lines',
                    'empty-or-comment-lines-with-block-nested-in-unselected-clause']
REQUIRED_MONITORS = ['parses', 'strict_oracle_programs', 'step_budget_guarded_parses']
ASSUMPTIONS = ['empty and comment-only lines (at any indentation) are not lines of the program: about a third of the '
               'programs are laid out with such lines between their lines and judged by the unchanged expectation',
               'node names start with a lower-case letter; values are unique per writing line so that the writer of '
               'an observed value is identifiable',
               'conditions refer only to nodes that are certainly defined and untainted at that line',
               'second @else / @case after @else inside one block and conditions that reference nodes defined only '
               'inside an unselected clause are not generated (the statement is silent about them)',
               'observed per node: keyword, value, constant flag, tags, number of options (public node attributes)',
               'programs containing a known defective shape are judged by taint: a difference is tolerated only on keys '
               'written by tainted lines and only in the direction of the mechanism']
EXHAUSTIVE_SUBSPACES = {
    'quick': ['block shapes {(1),(1,else),(2),(2,else),(3)} x truth assignments x {@end,indent}: single (x tail node), '
              'nested depth 2 (x clause position x before/after), sequences of two (x node between), misplaced '
              '@else/@end around each @end-closed block'],
    'thorough': ['same complete core as quick']}
NRANDOM = {'quick': 2600, 'thorough': 84000}
NMUSTFAIL = {'quick': 300, 'thorough': 4000}
NREPEATED = {'quick': 320, 'thorough': 8000}

_uid = [0]


def setup():
    import warnings
    warnings.filterwarnings('ignore')
    from scinumtools.dip.settings import Format
    from vt.monitors.tables import Hygiene
    R16.attach_parse_contract('record')       # C16 post-condition on every environment this workload gets back
    from scinumtools.dip import DIP
    return dict(DIP=DIP, Format=Format, hyg=Hygiene(), steps=R.StepBudget(), keep=[])


def cases(rng, tier, shard, nshards, ctx):
    for i, c in enumerate(R.enum_core()):
        if i % nshards == shard:
            yield c
    for _ in range(NRANDOM[tier] // nshards):
        c = R.gen_random(rng, maxdepth=rng.choice([2, 3, 4, 5, 5]), clean=rng.random() < 0.55)
        if rng.random() < 0.35:
            c['noise'] = rng.choice(['every', rng.randrange(1 << 30), rng.randrange(1 << 30)])
        yield c
    # the complete core once more, laid out with empty and comment-only lines between its lines
    for i, c in enumerate(R.enum_core()):
        if i % nshards == shard and c.get('fam') in ('nested', 'sequence') and (i // nshards) % 3 == 0:
            c = dict(c)
            c['noise'] = rng.choice(['every', rng.randrange(1 << 30)])
            yield c
    # one condition text in several blocks while the node it reads changes in between
    for _ in range(NREPEATED[tier] // nshards):
        c = R.gen_repeated(rng)
        if rng.random() < 0.25:
            c['noise'] = rng.randrange(1 << 30)
        yield c
    for _ in range(NMUSTFAIL[tier] // nshards):
        c = R.gen_mustfail(rng)
        if c:
            yield c


# ------------------------------------------------------------------------------------------------ layout noise

NOISE_LINES = ['', '', '   ', '# note', '      # note', '  # @end', '#']


def add_noise(text, noise):
    """empty and comment-only lines, at any indentation, between the lines of the program; they are no lines of the
    program (EmptyNode) and change nothing: the expectation of the model stays what it was"""
    import random
    lines = text.split('\n')
    out, n = [], 0
    if noise == 'every':
        for k, ln in enumerate(lines):
            out.append(ln)
            if k < len(lines) - 1:
                out.append(NOISE_LINES[k % len(NOISE_LINES)])
                n += 1
        return '\n'.join(out), n
    r = random.Random(noise)
    p = r.choice([0.15, 0.3, 0.6])
    for k, ln in enumerate(lines):
        out.append(ln)
        while k < len(lines) - 1 and r.random() < p:
            out.append(r.choice(NOISE_LINES))
            n += 1
    return '\n'.join(out), n


# ------------------------------------------------------------------------------------------------ real run

def run_real(text, ctx, base=None):
    """-> ('env', {name: record}) | ('exc', type name, args) | ('budget', n) | ('unreadable', exc)"""
    _uid[0] += 1
    keep = []
    steps = ctx['steps']

    def go():
        p = ctx['DIP'](name='c15n%d' % _uid[0]) if base is None else ctx['DIP'](base, name='c15n%d' % _uid[0])
        keep.append(p)
        p.add_string(text)
        env = p.parse()
        keep.append(env)
        return env
    try:
        env = steps.run(go)
    except R.StepBudgetExceeded as e:
        return ('budget', steps.count), keep
    except Exception as e:
        return ('exc', type(e).__name__, [str(a) for a in e.args[:2]]), keep
    steps.accepted()
    try:
        out = {}
        for node in env.nodes:
            v = node.value.value
            if hasattr(v, 'tolist'):
                v = v.tolist()
            out[node.name] = {'ty': node.keyword, 'v': v, 'const': bool(node.constant),
                              'tags': getattr(node, 'tags', None),
                              'nopts': len(getattr(node, 'options', None) or [])}
    except Exception as e:
        return ('unreadable', exc_sig(e)), keep
    return ('env', out), keep


# ------------------------------------------------------------------------------------------------ judge

def judge(A, obs):
    devs = []
    if obs[0] == 'budget':
        return [dev('no-result-within-step-budget', dict(steps=obs[1]))]
    if obs[0] == 'unreadable':
        return [dev('returned-environment-unreadable', dict(exc=obs[1]))]
    if A.mustfail is not None:
        if obs[0] == 'exc':
            return []
        mf = A.mustfail
        if mf['kw'] == 'else' and not mf['first']:
            # twin of the mechanism: '@else' is only refused when no @case was seen before at all; otherwise it opens
            # a block of its own whose single clause is selected
            if obs[1] == A.expected and list(obs[1]) == list(A.expected):
                return [dev('misplaced-else-accepted', dict(observed=obs[1]), known=R.KEY_F2)]
            return [dev('misplaced-else-accepted-with-unexplained-environment',
                        dict(observed=obs[1], twin=A.expected))]
        return [dev('misplaced-%s-accepted' % mf['kw'], dict(observed=obs[1]))]
    if obs[0] == 'exc':
        sig = obs[1:]
        if obs[1] == 'Exception' and obs[2][:1] == ['Invalid condition:'] and len(obs[2]) > 1 and obs[2][1] in A.f4_lines:
            return [dev('valid-end-rejected', dict(exc=sig), known=R.KEY_F4)]
        if obs[1] == 'IndexError' and obs[2] == ['pop from empty list'] and A.f5:
            return [dev('valid-case-crashes', dict(exc=sig), known=R.KEY_F5)]
        return [dev('valid-program-rejected', dict(exc=sig, tainted=A.tainted))]
    got, exp = obs[1], A.expected
    if got == exp and list(got) == list(exp):
        return []
    diff = [k for k in list(exp) + [k for k in got if k not in exp] if got.get(k, R.MISSING) != exp.get(k, R.MISSING)]
    if not A.tainted:
        kinds = set()
        for k in diff:
            kinds.add('node-missing' if k not in got else 'node-extra' if k not in exp else
                      'value' if got[k]['v'] != exp[k]['v'] else 'property')
        if not diff:
            kinds.add('key-order')
        return [dev('shape-free-program:' + '+'.join(sorted(kinds)),
                    dict(differing={k: dict(observed=got.get(k, R.MISSING), expected=exp.get(k, R.MISSING)) for k in diff[:6]},
                         observed_order=list(got)[:12], expected_order=list(exp)[:12]))]
    mechs = set()
    for k in diff:
        m = R.explain_key(A, k, got.get(k, R.MISSING))
        if m is None:
            devs.append(dev('untainted-node-differs',
                            dict(key=k, observed=got.get(k, R.MISSING), expected=exp.get(k, R.MISSING),
                                 writers=[dict(line=w['line'], taken=w['taken'], drop=sorted(w['drop']), add=w['add'])
                                          for w in A.writers if w['name'] == k])))
            break
        mechs |= m
    clean = [k for k in R.clean_keys(A) if k in got]
    if [k for k in got if k in set(clean)] != clean:
        devs.append(dev('key-order-of-untainted-nodes-differs', dict(observed=list(got)[:12], expected=list(exp)[:12])))
    if not devs and not diff:
        # same records, other key order: keys with tainted writers may appear earlier / later
        cs = set(clean)
        dropk = {w['name'] for w in A.writers if w['name'] not in cs and w['drop']}
        addk = {w['name'] for w in A.writers if w['name'] not in cs and w['add']}

        def same_order_without(ign):
            return [k for k in got if k not in ign] == [k for k in exp if k not in ign]
        # blame the smallest explanation: keys whose earlier writer was DROPPED (F1/F6) appear later, keys whose writer was
        # wrongly APPLIED (F3) appear earlier; F3 is only blamed when the dropped-writer keys do not explain the order
        if dropk and same_order_without(dropk):
            use_add = False
        else:
            use_add = True
        for w in A.writers:
            if w['name'] not in cs:
                if w['drop']:
                    mechs.add(R._dk(w))
                if w['add'] and use_add:
                    mechs.add('F3')
    if not devs:
        if 'F1' in mechs:
            devs.append(dev('tainted-nodes-dropped', dict(keys=diff[:6]), known=R.KEY_F1))
        if 'F3' in mechs:
            devs.append(dev('tainted-nodes-applied', dict(keys=diff[:6]), known=R.KEY_F3))
        if 'F6' in mechs:
            devs.append(dev('tainted-nodes-dropped-by-absorbing-block', dict(keys=diff[:6]), known=R.KEY_F6))
        if not mechs:
            devs.append(dev('difference-without-mechanism', dict(keys=diff[:6])))
    return devs


# ------------------------------------------------------------------------------------------------ case

def _depth(items, d=0):
    m = d
    for it in items:
        if it['k'] == 'blk':
            for c in it['cl']:
                m = max(m, _depth(c['items'], d + 1))
            if it.get('el') is not None:
                m = max(m, _depth(it['el'], d + 1))
        elif it['k'] in ('grp', 'bad'):
            m = max(m, _depth(it['items'], d))
    return m


def classes_of(case, A):
    cl = []
    fam = case.get('fam')
    if fam in ('single', 'nested', 'sequence'):
        cl.append('core-' + fam)
    elif fam == 'random':
        cl.append('random')
    elif fam == 'repeated-condition':
        cl += ['repeated-condition-text', 'repeated-condition-text:' + case.get('kind', '?'), 'repeated-condition-text:change-' + case.get('where', '?')]
    ev = A.events
    blocks = A.blocks
    if any(b['close'] == 'end' for b in blocks):
        cl.append('closure-end')
    if any(b['close'] == 'indent' for b in blocks):
        cl.append('closure-indent')
    d = max([len(b['chain']) + 1 for b in blocks] or [0])
    for n in (2, 3, 4, 5):
        if d >= n:
            cl.append('nesting>=%d' % n)
    first_kw = min([e['i'] for e in ev if e['ev'] in ('kw', 'bad')] or [len(ev)])
    last_blk = max([b['end'] for b in blocks] or [-1])
    if any(e['ev'] == 'w' and e['i'] < first_kw for e in ev):
        cl.append('node-before')
    if any(e['ev'] == 'w' and e['chain'] for e in ev):
        cl.append('node-inside')
    if any(e['ev'] == 'w' and e['i'] > last_blk and not e['chain'] for e in ev) and blocks:
        cl.append('node-after')
    # between: a node after the end of one block and before the start of a later block, at the level of the first
    for b in blocks:
        for c in blocks:
            if c['start'] > b['end'] and any(e['ev'] == 'w' and b['end'] < e['i'] < c['start'] and
                                             len(e['chain']) <= len(b['chain']) for e in ev):
                cl.append('node-between')
                break
        else:
            continue
        break
    for b in blocks:
        if not any(b['locsel']):
            cl.append('all-false')
        kws = [ev[i] for i in b['kw']]
        if kws[-1]['kw'] == 'else' and b['locsel'][-1]:
            cl.append('else-selected')
        if sum(1 for k in kws if k['kw'] == 'case' and k['truth']) >= 2:
            cl.append('later-true-clause-shadowed')
        if b['gdepth'] > 0:
            cl.append('block-under-group')
    if '.@case' in A.text:
        cl.append('compact-form')
    if '@case (' in A.text:
        cl.append('condition-expression')
    if any(e['ev'] == 'w' and e['chain'] and (e['kind'] == 'mod') for e in ev):
        cl.append('modification-in-clause')
    if any(e['ev'] == 'w' and e['chain'] and e.get('p') for e in ev):
        cl.append('property-in-clause')
    if A.mustfail is not None:
        mf = A.mustfail
        if mf['depth'] > 0:
            cl.append('mustfail-inside-%s-clause' % ('selected' if mf['active'] else 'unselected'))
        if mf['first'] or not any(True for e in ev):
            cl.append('mustfail-%s-no-open-block' % mf['kw'])
        else:
            bad = [e['i'] for e in ev if e['ev'] == 'bad'][0]
            if ev[bad - 1]['ev'] == 'end' and mf['kw'] == 'else':
                cl.append('mustfail-else-after-end')
            cl.append('mustfail-%s-no-open-block' % mf['kw'])
    else:
        cl.append('shape-free' if A.shape_free else 'tainted')
        cl += A.classes_shape
    return sorted(set(cl))


def run_case(case, ctx):
    A = R.analyse(case['items'])
    if A.model_invalid:
        return outcome(skip='generator produced a program outside the model: ' + A.model_invalid.split(' of ')[0])
    text, nnoise = A.text, 0
    if case.get('noise') is not None:
        text, nnoise = add_noise(A.text, case['noise'])
    obs, keep = run_real(text, ctx)
    nev, pdevs = R16.drain_parse_deviations()
    mons = {'parses': 1, 'step_budget_guarded_parses': 1, 'parse_postcondition_evaluations': nev}
    leak = ctx['hyg'].check_restore()
    mons['table_hygiene_checks'] = 1
    if leak:
        mons['table_leaks_restored'] = 1
    devs = judge(A, obs)
    for d in pdevs:
        devs.append(dev('c16-postcondition:' + d['kind'], dict(node=d['node'], **d['detail']), known=d.get('known')))
    # ---- the same text as the SECOND program parsed from one base environment whose first program ended inside a case block
    #      (a text may end without @end; a text may fail inside a clause): what the first parse met is no part of the second
    import zlib
    if not devs and A.mustfail is None and obs[0] == 'env' and zlib.crc32(text.encode()) % 5 == 0:
        bobs, bkeep = run_real('zzbase int = 1\n', ctx)
        base_env = [k for k in bkeep if not hasattr(k, 'add_string')]
        if bobs[0] == 'env' and base_env:
            base_env = base_env[-1]
            fresh, k1 = run_real(text, ctx, base=base_env)
            poison = ['@case false\n  zq int = 1\n', '@case true\n  zq int = 1\n', '@case true\n  zq int = abc\n',
                      '@case true\n  @case false\n    zq int = 1\n'][zlib.crc32(text.encode()) // 5 % 4]
            first, k2 = run_real(poison, ctx, base=base_env)
            second, k3 = run_real(text, ctx, base=base_env)
            R16.drain_parse_deviations()
            mons['shared_base_twins'] = 1
            cl_extra = 'second-parse-from-a-base-whose-first-parse-ended-inside-a-block'
            if fresh != second:
                devs.append(dev('earlier-parse-from-the-same-base-changes-this-parse', dict(first_text=poison, first_outcome=first[0],
                                                                                      fresh=repr(fresh)[:300], after_the_first_parse=repr(second)[:300])))
            del k1, k2, k3
        del bkeep
    if A.mustfail is None:
        mons['strict_oracle_programs' if A.shape_free else 'taint_oracle_programs'] = 1
    else:
        mons['mustfail_programs'] = 1
    cl = classes_of(case, A)
    if mons.get('shared_base_twins'):
        cl.append('second-parse-from-a-base-whose-first-parse-ended-inside-a-block')
    if nnoise:
        mons['programs_with_empty_or_comment_lines'] = 1
        cl.append('empty-or-comment-lines')
        if any(b['chain'] and not all(s for _, _, s in b['chain']) for b in A.blocks):
            cl.append('empty-or-comment-lines-with-block-nested-in-unselected-clause')
        cl = sorted(set(cl))
    expected = 'must be rejected' if A.mustfail is not None else {k: v['v'] for k, v in A.expected.items()}
    observed = {k: v['v'] for k, v in obs[1].items()} if obs[0] == 'env' else list(obs)
    sample = dict(text=text, expected=expected, observed=observed,
                  judged='strict' if A.shape_free else ('must-fail' if A.mustfail is not None else 'taint'),
                  deviations=[d.get('known') or d['mech'] for d in devs])
    for d in devs:
        d['detail'] = dict(d.get('detail') or {}, text=text, expected=expected)
    del keep
    return outcome(classes=cl, nontrivial=bool(A.blocks) and any(e['ev'] == 'w' and e['chain'] for e in A.events) or
                   A.mustfail is not None, fp=text, dev=devs, monitors=mons, sample=sample)


def pinned(ctx):
    D, M, G, B, BAD, LIT = R.D, R.M, R.G, R.B, R.BAD, R.LIT
    return [
        (R.KEY_F1, dict(t='prog', fam='pinned', items=[B([(LIT(False), [D('b', 'int', 2)])], None, 'indent'),
                                                       D('c', 'int', 4)])),
        (R.KEY_F2, dict(t='prog', fam='pinned', items=[B([(LIT(True), [D('b', 'int', 2)])], None, 'end'),
                                                       BAD('else', [D('c', 'int', 4)])])),
        (R.KEY_F3, dict(t='prog', fam='pinned', items=[B([(LIT(False), [B([(LIT(True), [D('b', 'int', 2)])], None, 'end')])],
                                                         None, 'end')])),
        (R.KEY_F4, dict(t='prog', fam='pinned', items=[B([(LIT(True), [B([(LIT(True), [D('b', 'int', 2)])], None, 'indent')])],
                                                         None, 'end'), D('c', 'int', 3)])),
        (R.KEY_F5, dict(t='prog', fam='pinned', items=[G('g', [B([(LIT(True), [D('x', 'int', 1)])], None, 'indent')]),
                                                       B([(LIT(True), [D('y', 'int', 2)])], None, 'end')])),
        (R.KEY_F6, dict(t='prog', fam='pinned', items=[B([(LIT(True), [B([(LIT(True), [D('b', 'int', 2)])], None, 'indent')])],
                                                         None, 'indent'),
                                                       D('c', 'int', 3),
                                                       B([(LIT(True), [D('d', 'int', 4)])], None, 'end')])),
    ]


def teardown(ctx):
    return {'monitors': {}, 'step_budget': {'max_events_accepted_parse': ctx['steps'].max_ok,
                                            'limit': ctx['steps'].limit}}
