"""C10 - A molecular formula is decomposed into exactly its atoms.

Reference-model oracle: the generator builds a formula *tree* (vt.refmodel.materials_ref); the real code sees
only the rendered text.  Expected: species -> count by expanding the tree, per-species data from the raw isotope
table by the rules of the statement, totals as count-weighted sums.  Observed: Substance(text).components[*]
.proportion, data_components(quantity=False), data_composite(quantity=False)['sum'], for both isotope modes;
Substance + Substance, Substance + Element and Substance * k against multiset arithmetic.
"""
import re
from vt.core import outcome, dev
from vt.util import close, plain
from vt.refmodel import materials_ref as R

ID = 'C10'
LEVEL = 'exploration'
RTOL = 1e-9
RULE = ('every element (both isotope modes) and every tabulated isotope once (exhaustive, split over the shards); random '
        'formula trees over all 118 elements, nucleons, D/T, isotope/charge suffixes, counts 1..137 implicit or explicit, '
        'groups nested <=5, adjacency / blanks / explicit +, plus forced shapes (multiplied group followed by group, '
        '>=3-level nesting, two capitals in a row, counts >=10); dict form; Substance+Substance, Substance+Element, '
        'Substance*k.  The real code gets the rendered text only.  non-trivial = the formula has >=2 terms, a group, a '
        'count >1 or an isotope/charge suffix (i.e. is not a bare element symbol); distinct by (kind, rendered text(s), '
        'isotope mode, factor)')
SHARDS = {'quick': 16, 'thorough': 16}
MIN_NONTRIVIAL = {'quick': 1000, 'thorough': 30000}
TIME_CAP = {'quick': 300, 'thorough': 3600}
REQUIRED_CLASSES = ['element-arithmetic', 'substance*tiny-number', 'substance*almost-whole-number', 'sum-then-add-on-result-or-operand', 'single-element', 'single-isotope', 'natural', 'most-abundant', 'group', 'nesting>=3',
                    'multiplied-group-followed-by-group', 'multiplied-group-followed-by-explicit-plus',
                    'two-capitals-in-a-row', 'count>=10', 'isotope-suffix', 'charge-suffix', 'isotope+charge-suffix',
                    'nucleon', 'deuterium-tritium', 'explicit-multiplication', 'implicit-multiplication',
                    'explicit-addition', 'blank-between-terms', 'adjacent-terms', 'repeated-species', 'dict-form',
                    'substance+substance', 'substance+element', 'substance*number']
REQUIRED_MONITORS = ['mode_twin_tables', 'species_rows_compared', 'sum_rows_compared', 'counts_compared', 'table_hygiene_checks']
ASSUMPTIONS = ['PT_DATA and the unit-table magnitudes of Da, [m_e], [m_p], [m_n] are the reference data (the model reads them, '
               'it does not check them against NIST)',
               'species identity is (element, A, charge): D = H{2}, T = H{3}; counts are compared after merging species '
               'texts of the same identity, so a code that keeps or merges such texts is accepted either way',
               'documented notation only: explicit " * n" directly after one species or a closing parenthesis and followed '
               'by " + ", ")" or the end; no leading coefficients, no blanks inside a term, D/T only bare or with their own '
               'isotope number, elements without natural abundances only with an explicit isotope']
EXHAUSTIVE_SUBSPACES = {'quick': ['118 elements x {natural, most abundant} where defined', '354 tabulated isotopes'],
                        'thorough': ['118 elements x {natural, most abundant} where defined',
                                     '354 tabulated isotopes x {neutral, one random charge}']}
NRANDOM = {'quick': 2600, 'thorough': 110000}

KEY_GROUP = 'C10-group-multiplier-followed-by-group'


def setup():
    import warnings
    warnings.simplefilter('ignore')
    import scinumtools.materials as M
    from vt.monitors.tables import Hygiene
    T = R.load_tables()
    ctx = dict(M=M, T=T, hyg=Hygiene())
    selftest(ctx)
    return ctx


def selftest(ctx):
    """the model must reproduce the documented examples (docs/source/materials/*.rst) before it is trusted"""
    T = ctx['T']

    def tot(f, natural=True):
        c, i = R.expand(f)
        return R.totals(T, c, i, natural), c
    sp, gr, fm = R.sp, R.gr, R.fm
    t, _ = tot(fm([sp('O')]))
    assert abs(t['mass'] - 15.999) < 1e-3 and abs(t['N'] - 8.00448) < 1e-6 and t['Z'] == 8 and t['e'] == 8
    t, _ = tot(fm([sp('O', A=17, q=-2)]))
    assert abs(t['mass'] - 16.998) < 1e-3 and (t['Z'], t['N'], t['e']) == (8, 9, 6)
    t, _ = tot(fm([sp('O')]), natural=False)
    assert abs(t['mass'] - 15.995) < 1e-3 and t['N'] == 8
    t, _ = tot(fm([sp('D'), sp('T')]))
    assert abs(t['mass'] - 5.030) < 1e-3 and (t['Z'], t['N'], t['e']) == (2, 3, 2)
    t, c = tot(fm([sp('H', n=2), sp('O')]), natural=False)
    assert abs(t['mass'] - 18.010565) < 1e-6 and (t['Z'], t['N'], t['e']) == (10, 8, 10) and c == {'H': 2, 'O': 1}
    t, c = tot(fm([sp('B', A=11), sp('N', A=14), sp('H', A=1, n=6)]))
    assert abs(t['mass'] - 31.059330) < 1e-6 and (t['Z'], t['N'], t['e']) == (18, 13, 18)
    f = fm([sp('Ca'), gr([sp('O'), sp('H')], n=2)])
    t, c = tot(f)
    assert R.render(f) == 'Ca(OH)2' and c == {'Ca': 1, 'O': 2, 'H': 2}
    assert abs(t['mass'] - 74.093) < 1e-3 and abs(t['N'] - 36.125) < 1e-3 and t['Z'] == 38
    t, c = tot(fm([sp('[p]', n=3), sp('[n]', n=2), sp('[e]')]))
    assert abs(t['mass'] - 5.039711) < 2e-6 and (t['Z'], t['N'], t['e']) == (3, 2, 1)
    assert R.render(fm([sp('O', A=17, q=-1, n=3, cf='x')])) == 'O{17-1} * 3'
    assert R.render(fm([sp('Na', A=23), sp('Cl')], [' + '])) == 'Na{23} + Cl'
    assert R.render(fm([sp('C', A=13, q=2), gr([sp('B', A=11), sp('Li', n=2)], n=4), sp('H', q=-1, qs=True, n=2),
                        sp('O', q=3)], ['', ' ', ' '])) == 'C{13+2}(B{11}Li2)4 H{-}2 O{+3}'


# ---------------------------------------------------------------------------------- cases

def cases(rng, tier, shard, nshards, ctx):
    T = ctx['T']
    i = 0
    for el in T.elements:
        for natural in (True, False):
            i += 1
            if i % nshards == shard and el in T.unique_max:
                yield dict(t='formula', f=R.fm([R.sp(el)]), natural=natural, enum='element')
    for el in T.elements:
        for A in T.isotopes(el):
            i += 1
            if i % nshards == shard:
                yield dict(t='formula', f=R.fm([R.sp(el, A=A)]), natural=bool(i % 2), enum='isotope')
                if tier == 'thorough':
                    Z = T.pt[el][0]
                    q = rng.choice([x for x in range(-min(Z, 40), 5) if x != 0])
                    yield dict(t='formula', f=R.fm([R.sp(el, A=A, q=q, qs=(abs(q) == 1 and rng.random() < 0.5))]),
                               natural=bool(i % 2), enum='isotope')
    n = NRANDOM[tier] // nshards
    for j in range(n):
        r = rng.random()
        natural = rng.random() < 0.5
        if r < 0.50:
            yield dict(t='formula', f=R.gen_formula(rng, T), natural=natural)
        elif r < 0.56:
            yield dict(t='formula', f=forced_group_group(rng, T), natural=natural)
        elif r < 0.62:
            yield dict(t='formula', f=R.nest(rng, T, rng.randint(3, 5)), natural=natural)
        elif r < 0.68:
            yield dict(t='formula', f=forced_capitals(rng, T), natural=natural)
        elif r < 0.74:
            f = R.gen_formula(rng, T, dict(maxdepth=2, avoid_known=True))
            c, idents = R.expand(f)
            yield dict(t='dict', f=f, natural=natural)
        elif r < 0.84:
            opts = dict(maxdepth=2, maxitems=3, avoid_known=rng.random() < 0.8)
            yield dict(t='add', f=R.gen_formula(rng, T, opts), g=R.gen_formula(rng, T, opts), natural=natural,
                       same=rng.random() < 0.15)
        elif r < 0.90:
            s = R.gen_species(rng, T)
            yield dict(t='addel', f=R.gen_formula(rng, T, dict(maxdepth=2, maxitems=3, avoid_known=True)),
                       el=s, n=R.gen_count(rng), natural=natural, present=rng.random() < 0.4)
        else:
            k = rng.choice([2, 3, 7, 10, 0.5, 2.5, 1, rng.randint(2, 40), round(rng.uniform(0.1, 20), 3),
                            1e-9, 1e-8, 3e-7, 1.00000002, 0.99999997, 2.00000001, 1e6, 1 / 3, 1e-3])       # tiny, huge and almost-whole multipliers
            yield dict(t='mul', f=R.gen_formula(rng, T, dict(maxdepth=2, maxitems=4, avoid_known=True)), k=k, natural=natural)


def forced_group_group(rng, T):
    """... (A..)m (B..)n ...  and  ... (A..)m + X ... at a random nesting level"""
    def small():
        return [R.gen_species(rng, T, allow_suffix=rng.random() < 0.3) for _ in range(rng.randint(1, 2))]
    g1 = R.gr(small(), n=rng.choice([2, 2, 3, 5, 12, 18]))
    r = rng.random()
    if r < 0.6:
        nxt = R.gr(small(), n=rng.choice([1, 2, 3, 4]))
        sep = rng.choice(['', '', ' '])
    elif r < 0.8:
        nxt = R.gr(small(), n=rng.choice([1, 2, 3]))
        sep = ' + '
    else:
        nxt = R.gen_species(rng, T)
        sep = ' + '
    items, seps = [g1, nxt], [sep]
    if rng.random() < 0.5:
        items.insert(0, R.gen_species(rng, T)); seps.insert(0, rng.choice(['', ' ']))
    if rng.random() < 0.3:
        items.append(R.gen_species(rng, T)); seps.append(rng.choice(['', ' ', ' + ']))
        if items[-2]['cf'] == 'x':
            seps[-1] = ' + '
    f = R.fm(items, seps)
    for _ in range(rng.choice([0, 0, 1, 2])):
        f = R.fm([R.gr(f['items'], f['seps'], n=rng.randint(1, 3))])
    return f


SINGLE = ['H', 'B', 'C', 'N', 'O', 'F', 'P', 'S', 'K', 'V', 'Y', 'I', 'W', 'U']


def forced_capitals(rng, T):
    """CO vs Co, HF vs Hf, NI vs Ni, CU vs Cu, SI vs Si ...: adjacent one-letter symbols next to two-letter ones"""
    pairs = [(a, b) for a in SINGLE for b in SINGLE if (a + b.lower()) in T.pt and (a + b.lower()) in T.unique_max]
    a, b = rng.choice(pairs)
    items = [R.sp(a), R.sp(b, n=R.gen_count(rng))]
    if items[1]['n'] > 1:
        items[1]['cf'] = 'i'
    seps = ['']
    r = rng.random()
    two = R.sp(a + b.lower(), n=R.gen_count(rng))
    if r < 0.4:
        items.append(two); seps.append(rng.choice(['', ' ']))
    elif r < 0.7:
        items.insert(0, two); seps.insert(0, rng.choice(['', ' ']))
    if rng.random() < 0.3:
        items.append(R.sp(rng.choice(SINGLE))); seps.append('')
    f = R.fm(items, seps)
    if rng.random() < 0.3:
        f = R.fm([R.gr(f['items'], f['seps'], n=rng.randint(1, 4)), R.gen_species(rng, T)], [rng.choice(['', ' '])])
    return f


# ---------------------------------------------------------------------------------- oracle

def known_group_defect(f, exc):
    """the recorded defect, recognised by mechanism: the rewriting of '(..)m' drops the blank in front of the
    ' + ' that follows (inserted before a following group, or written explicitly), the solver then meets the
    token 'm+' / 'm+ X' and float() raises ValueError on exactly that token."""
    if not isinstance(exc, ValueError):
        return False
    m = re.fullmatch(r"could not convert string to float: '(\d+)\+(?: ([^']*))?'", str(exc))
    if not m:
        return False
    mult, rest = int(m.group(1)), m.group(2)
    for n, kind, nxt in R.multiplied_group_followers(f):
        if n != mult:
            continue
        if kind in ('group', 'plus-group') and rest is None:
            return True
        if kind == 'plus-species' and rest is not None and rest == nxt:
            return True
    return False


def observe(sub):
    from vt.props import mat_modes
    mat_modes.check(sub)        # both reading modes of the tables (plain numbers / default Quantity cells) agree
    comps = {k: plain(v.proportion) for k, v in sub.components.items()}
    dc = sub.data_components(quantity=False)
    rows = {}
    if dc is not None:
        for k, v in dc.items():
            d = v.data()
            rows[k] = {c: plain(d[c]) for c in ('mass', 'count', 'Z', 'N', 'e')}
    ds = sub.data_composite(quantity=False)
    srow = None
    if ds is not None:
        d = ds['sum'].data()
        srow = {c: plain(d[c]) for c in ('mass', 'Z', 'N', 'e')}
        # the totals the object carries itself ("Total mass" / "Total number" of print()), next to the 'sum' row of the table
        srow['total_mass_attribute'] = plain(sub.composite_mass.value('Da'))
        srow['total_number_attribute'] = plain(sub.proportion_norm)
    return comps, rows, srow


def compare(T, counts, idents, natural, comps, rows, srow, devs, mon, where=''):
    """counts/idents: expected multiset; comps/rows/srow: observation"""
    # every observed species text must be one the formula contains
    unknown = [k for k in comps if k not in idents]
    if unknown:
        devs.append(dev(where + 'unexpected-species', dict(unknown=unknown, expected=list(counts))))
        return
    exp_m = R.merge_by_ident(counts, idents)
    obs_m = R.merge_by_ident(comps, idents)
    mon['counts_compared'] += len(exp_m)
    bad = {k: (obs_m.get(k), exp_m.get(k)) for k in set(exp_m) | set(obs_m)
           if k not in obs_m or k not in exp_m or not close(obs_m[k], exp_m[k], RTOL)}
    n0 = len(devs)
    if bad:
        devs.append(dev(where + 'species-count-differs', dict(observed_vs_expected=bad)))
    for k, row in rows.items():
        if k not in idents:
            devs.append(dev(where + 'unexpected-species-row', dict(row=k)))
            continue
        d = R.ident_data(T, idents[k], natural)
        mon['species_rows_compared'] += 1
        for c in ('mass', 'Z', 'N', 'e'):
            if not close(row[c], d[c], RTOL, 1e-12):
                devs.append(dev('species-%s-differs' % c, dict(species=k, observed=row[c], expected=d[c],
                                                               natural=natural, where=where or 'formula')))
        if k in comps and not close(row['count'], comps[k], RTOL):
            devs.append(dev(where + 'count-column-differs-from-proportion', dict(species=k, row=row['count'], comp=comps[k])))
    if set(rows) != set(comps):
        devs.append(dev(where + 'component-rows-missing', dict(rows=list(rows), components=list(comps))))
    tot = R.totals(T, counts, idents, natural)
    if len(devs) > n0:
        return          # the sum row of a substance whose counts / species data already deviate adds nothing
    if srow is None:
        devs.append(dev(where + 'no-sum-row', None))
    else:
        mon['sum_rows_compared'] += 1
        for c in ('mass', 'Z', 'N', 'e'):
            if not close(srow[c], tot[c], RTOL, 1e-9 if c != 'mass' else 1e-12):
                devs.append(dev('sum-%s-differs' % c, dict(observed=srow[c], expected=tot[c], where=where or 'formula')))
        if 'total_mass_attribute' in srow:
            mon['total_attributes_compared'] = mon.get('total_attributes_compared', 0) + 2
            if not close(srow['total_mass_attribute'], tot['mass'], RTOL, 1e-12):
                devs.append(dev('total-mass-attribute-differs', dict(observed=srow['total_mass_attribute'], expected=tot['mass'], where=where or 'formula')))
            ntot = sum(counts.values())
            if not close(srow['total_number_attribute'], ntot, RTOL, 1e-12):
                devs.append(dev('total-number-attribute-differs', dict(observed=srow['total_number_attribute'], expected=ntot, where=where or 'formula')))


def defined(T, idents, natural):
    return all(R.ident_data(T, i, natural) is not None for i in idents.values())


def run_case(case, ctx):
    from vt.props import mat_modes
    return mat_modes.drain(_run(case, ctx))


def _finish(ctx, out):
    leak = ctx['hyg'].check_restore()
    out['monitors']['table_hygiene_checks'] = out['monitors'].get('table_hygiene_checks', 0) + 1
    out['monitors']['table_leaks_restored'] = out['monitors'].get('table_leaks_restored', 0) + (1 if leak else 0)
    return out


def _run(case, ctx):
    M, T = ctx['M'], ctx['T']
    natural = case['natural']
    f = case['f']
    text = R.render(f)
    counts, idents = R.expand(f)
    classes = set(R.shape_classes(f))
    classes.add('natural' if natural else 'most-abundant')
    if len(counts) < len(R.all_species(f)):
        classes.add('repeated-species')
    if case.get('enum') == 'element':
        classes.add('single-element')
    if case.get('enum') == 'isotope':
        classes.add('single-isotope')
    mon = dict(counts_compared=0, species_rows_compared=0, sum_rows_compared=0)
    devs = []
    t = case['t']
    trivial = (len(f['items']) == 1 and f['items'][0]['k'] == 'sp' and f['items'][0]['n'] == 1
               and f['items'][0].get('A') is None and not f['items'][0].get('q'))
    if not defined(T, idents, natural):
        return _finish(ctx, outcome(skip='species-without-defined-data (no abundance / no such isotope)'))

    def build(tree, label):
        """Substance(text) or (None, classified deviation); operands of an arithmetic case are checked like a formula case
        first, so that a parsing deviation is not reported a second time as an arithmetic one"""
        tx = R.render(tree)
        try:
            sub = M.Substance(tx, natural=natural)
        except Exception as e:
            if known_group_defect(tree, e):
                devs.append(dev('formula-rejected', dict(formula=tx, exc=repr(e)), known=KEY_GROUP))
            else:
                devs.append(dev('formula-rejected:' + type(e).__name__, dict(formula=tx, which=label, exc=repr(e)[:300])))
            return None
        if label != 'formula':
            c0, i0 = R.expand(tree)
            n0 = len(devs)
            try:
                ob = observe(sub)
            except Exception as e:
                devs.append(dev('reading-tables-raises:' + type(e).__name__, dict(exc=repr(e)[:300], formula=tx)))
                return None
            compare(T, c0, i0, natural, *ob, devs, mon)
            if len(devs) > n0:
                return None
        return sub

    def result(make, what):
        """run an operation of the code under test and read its tables; an exception is a deviation, not a harness error"""
        try:
            return observe(make())
        except Exception as e:
            devs.append(dev('%s-raises:%s' % (what, type(e).__name__), dict(exc=repr(e)[:300], formula=text)))
            return None

    sample = dict(kind=t, formula=text, natural=natural, expected_counts=counts)
    fp = '%s|%s|%s' % (t, text, natural)
    if t == 'formula':
        s = build(f, 'formula')
        if s is not None:
            res = result(lambda: s, 'reading-tables')
            if res:
                comps, rows, srow = res
                compare(T, counts, idents, natural, comps, rows, srow, devs, mon)
                sample.update(observed_counts=comps, observed_sum=srow, expected_sum=R.totals(T, counts, idents, natural))
    elif t == 'dict':
        classes.add('dict-form')
        res = result(lambda: M.Substance(dict(counts), natural=natural), 'dict-construction')
        if res:
            comps, rows, srow = res
            compare(T, counts, idents, natural, comps, rows, srow, devs, mon, 'dict:')
            sample.update(observed_counts=comps, observed_sum=srow, expected_sum=R.totals(T, counts, idents, natural))
        trivial = False
    elif t == 'add':
        classes.add('substance+substance')
        g = f if case.get('same') else case['g']
        c2, i2 = R.expand(g)
        if not defined(T, i2, natural):
            return _finish(ctx, outcome(skip='species-without-defined-data (no abundance / no such isotope)'))
        a, b = build(f, 'left'), build(g, 'right')
        fp += '|' + R.render(g)
        if a is not None and b is not None:
            exp = dict(counts)
            for k, v in c2.items():
                exp[k] = exp.get(k, 0) + v
            ids = dict(idents); ids.update(i2)
            box = {}

            def make_sum():
                box['c'] = a + b
                return box['c']
            res = result(make_sum, 'substance+substance')
            if res:
                comps, rows, srow = res
                compare(T, exp, ids, natural, comps, rows, srow, devs, mon, 'add:')
                sample.update(right=R.render(g), expected_counts=exp, observed_counts=comps)
            if res and not devs:
                # the sum is a composite of its own: topping up one of its species (one that only the right operand brought,
                # if there is one) leaves both operands as they were, and topping up the right operand leaves the sum alone
                classes.add('sum-then-add-on-result-or-operand')
                only_b = [k for k in c2 if k not in counts] or list(c2)
                sp = only_b[len(text) % len(only_b)]
                try:
                    box['c'].add(sp, 2)
                    exp2 = dict(exp); exp2[sp] = exp2[sp] + 2
                    mon['sum_aliasing_rereads'] = mon.get('sum_aliasing_rereads', 0) + 3
                    compare(T, exp2, ids, natural, *observe(box['c']), devs, mon, 'sum-after-add:')
                    compare(T, counts, idents, natural, *observe(a), devs, mon, 'left-operand-after-add-on-the-sum:')
                    compare(T, c2, i2, natural, *observe(b), devs, mon, 'right-operand-after-add-on-the-sum:')
                    if not devs:
                        b.add(sp, 3)
                        c3 = dict(c2); c3[sp] = c3[sp] + 3
                        compare(T, c3, i2, natural, *observe(b), devs, mon, 'right-operand-after-its-own-add:')
                        compare(T, exp2, ids, natural, *observe(box['c']), devs, mon, 'sum-after-add-on-the-right-operand:')
                except Exception as e:
                    devs.append(dev('add-after-sum-raises:' + type(e).__name__, dict(exc=repr(e)[:300], formula=text, right=R.render(g), species=sp)))
        trivial = False
    elif t == 'addel':
        classes.add('substance+element')
        e = dict(case['el'])
        if case.get('present'):
            e = dict(R.all_species(f)[0]); e['n'] = 1; e['cf'] = 'n'
        et = R.species_text(e)
        ids = dict(idents); ids[et] = R.species_ident(e)
        if not defined(T, ids, natural):
            return _finish(ctx, outcome(skip='species-without-defined-data (no abundance / no such isotope)'))
        a = build(f, 'left')
        fp += '|%s|%d' % (et, case['n'])
        if a is not None:
            exp = dict(counts)
            exp[et] = exp.get(et, 0) + case['n']
            res = result(lambda: a + M.Element(et, case['n'], natural=natural), 'substance+element')
            if res:
                comps, rows, srow = res
                compare(T, exp, ids, natural, comps, rows, srow, devs, mon, 'addel:')
                sample.update(element=et, n=case['n'], expected_counts=exp, observed_counts=comps)
            if res and not devs:
                # the element itself under * and + (same species), then the product as the operand of the sum
                classes.add('element-arithmetic')
                mon['element_arithmetic_checks'] = mon.get('element_arithmetic_checks', 0) + 1
                try:
                    kq = [3, 0.5, 2.5, 1e-9, 7][len(text) % 5]
                    d0 = R.ident_data(T, ids[et], natural)
                    e1 = M.Element(et, case['n'], natural=natural)
                    e2 = e1 * kq
                    e3 = e1 + M.Element(et, 4, natural=natural)
                    for lab, obj, want in (('element*number', e2, case['n'] * kq), ('element+element', e3, case['n'] + 4), ('element-operand-afterwards', e1, case['n'])):
                        got_n, got_m, got_1 = plain(obj.proportion), plain(obj.composite_mass.value('Da')), plain(obj.component_mass.value('Da'))
                        if not close(got_n, want, RTOL) or not close(got_m, want * d0['mass'], RTOL) or not close(got_1, d0['mass'], RTOL) or obj.natural != natural:
                            devs.append(dev(lab + '-differs', dict(element=et, n=case['n'], k=kq, natural=natural, observed=dict(count=got_n, total_mass=got_m, unit_mass=got_1, natural=obj.natural),
                                                                   expected=dict(count=want, total_mass=want * d0['mass'], unit_mass=d0['mass']))))
                    exp3 = dict(counts)
                    exp3[et] = exp3.get(et, 0) + case['n'] * kq
                    compare(T, exp3, ids, natural, *observe(a + e2), devs, mon, 'substance+(element*number):')
                except Exception as e:
                    devs.append(dev('element-arithmetic-raises:' + type(e).__name__, dict(exc=repr(e)[:300], element=et)))
        trivial = False
    elif t == 'mul':
        classes.add('substance*number')
        kk = float(case['k'])
        if kk < 1e-6:
            classes.add('substance*tiny-number')
        elif abs(kk - round(kk)) < 1e-6 and kk != round(kk):
            classes.add('substance*almost-whole-number')
        a = build(f, 'operand')
        fp += '|%r' % case['k']
        if a is not None:
            exp = {k: v * case['k'] for k, v in counts.items()}
            res = result(lambda: a * case['k'], 'substance*number')
            if res:
                comps, rows, srow = res
                compare(T, exp, idents, natural, comps, rows, srow, devs, mon, 'mul:')
                sample.update(k=case['k'], expected_counts=exp, observed_counts=comps)
        trivial = False
    if devs:
        sample['deviations'] = [d['mech'] for d in devs]
    rich = t != 'formula' or len(counts) >= 2 or bool(devs)
    return _finish(ctx, outcome(classes=sorted(classes), nontrivial=not trivial, fp=fp, dev=devs, monitors=mon,
                                sample=sample if rich else None))


def pinned(ctx):
    sp, gr, fm = R.sp, R.gr, R.fm
    oh = lambda n: gr([sp('O'), sp('H')], n=n)
    return [(KEY_GROUP, dict(t='formula', f=fm([oh(2), oh(3)]), natural=True))]
