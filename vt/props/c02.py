"""C02 — A solver instance is unaffected by what it solved before.

Differential twin: a history of solve() calls runs on ONE instance; every text of the history is also
given to a FRESH instance of the same configuration.  Outcome = value, or (exception type, repr(args)).
The two outcomes must agree for every position of the history.  Histories mix valid expressions with
expressions that fail at every stage: unknown atom at token j, missing operand found in the operate phase,
unbalanced '(' / ')', wrong arity, failure inside a nested argument, and an atom constructor that raises
on its n-th call (fault driver: the solver takes the atom type as a parameter, so no hook is needed).
Token buffers are dumped for diagnosis and for classifying the one known defect, never as a verdict.
"""
import copy, random, warnings
from vt.core import outcome, dev
from vt.util import close
from vt.refmodel import solver_ref as R

ID = 'C02'
LEVEL = 'exploration'
RULE = ('histories of 2-12 solve() calls on one instance for 5 configurations (default table; docs\' string atom with '
        '{par,add,gt} and custom steps; docs\' ~ and ^ custom operators; unit-expression AtomParser with {par,mul,truediv}; '
        'operator subset with a custom step order); each entry is a valid expression or a failing one (unknown atom at a '
        'random token, operand deleted, parenthesis inserted/deleted, wrong arity, atom constructor raising on its n-th '
        'call); every entry is also solved by a fresh instance and the outcomes are compared.  Non-trivial: the history '
        'contains a failing solve followed by at least one further solve; distinct by configuration + texts + fault positions')
SHARDS = {'quick': 16, 'thorough': 16}
NHIST = {'quick': 4000, 'thorough': 150000}
MIN_NONTRIVIAL = {'quick': 1500, 'thorough': 60000}
TIME_CAP = {'quick': 300, 'thorough': 3600}
CONFIGS = ['default', 'string-atom', 'custom-operators', 'unit-parser', 'subset-custom-order', 'functions-without-par', 'separate-add-sub-steps']
FAIL_KINDS = ['unknown-atom', 'missing-operand', 'unbalanced-open', 'unbalanced-close', 'arity', 'nested-argument', 'atom-ctor']
REQUIRED_CLASSES = (['cfg-' + c for c in CONFIGS] + ['fail-' + k for k in FAIL_KINDS] +
                    ['valid-after-failure', 'failure-after-failure', 'valid-after-valid', 'failure-after-valid',
                     'atom-ctor-fault-after-first-atom', 'failure-in-operate-phase', 'repeated-text',
                     'expression-object-input', 'expression-object-input-after-failure'] +
                    ['cfg-%s:fail-atom-ctor' % c for c in CONFIGS])
REQUIRED_MONITORS = ['differential_compares', 'step_guarded_calls', 'fresh_instances']
ASSUMPTIONS = ['outcome of a solve = value (rtol 1e-12, equal truthiness; strings / unit atoms exactly) or (exception type, repr(args))',
               'every instance (reused, fresh, pre-loaded twin) is built with the same atom type and its own copy of the operator table and step list',
               'the fault driver (atom constructor raising on its n-th call) is re-armed identically before each of the compared calls',
               'token buffers are inspected for diagnosis / classification of the known defect only']
EXHAUSTIVE_SUBSPACES = {'quick': [], 'thorough': []}

KEY_STALE = 'C02-stale-tokens-after-failed-solve'


class InjectedFault(Exception):
    pass


class Fault:
    """shared counter of atom constructions; raises on the n-th one when armed"""
    def __init__(self):
        self.calls, self.fail_at = 0, None

    def arm(self, n):
        self.calls, self.fail_at = 0, n

    def tick(self, text):
        self.calls += 1
        if self.fail_at is not None and self.calls == self.fail_at:
            raise InjectedFault('atom constructor call', self.calls, str(text).strip())


def setup():
    import numpy as np
    warnings.simplefilter('ignore')
    np.seterr(all='ignore')
    import scinumtools.solver as S
    from scinumtools.solver import solver, tokens, operators, expression, atom
    from scinumtools.units import unit_solver
    guard = R.StepGuard.get([solver, tokens, operators, expression, atom, unit_solver])
    fault = Fault()
    Otype = S.Otype

    # --- default table, AtomBase behaviour, constructor counted for str input (i.e. parsing)
    class FaultAtom(S.AtomBase):
        def __init__(self, value):
            if isinstance(value, str):
                fault.tick(value)
            S.AtomBase.__init__(self, value)

    def rewrap(name):
        base = getattr(S.AtomBase, name)

        def method(self, *others):
            return FaultAtom(base(self, *others).value)
        method.__name__ = name
        return method
    for name, f in list(vars(S.AtomBase).items()):
        if callable(f) and name not in ('__init__', '__repr__'):
            setattr(FaultAtom, name, rewrap(name))

    # --- docs: string atom with {par, add, gt} and custom steps
    class AtomCustom(S.AtomBase):
        value: str

        def __init__(self, value):
            if isinstance(value, str):
                fault.tick(value)
            self.value = str(value)

        def __add__(self, other):
            return AtomCustom(self.value + other.value)

        def __gt__(self, other):
            return AtomCustom(len(self.value) > len(other.value))

    # --- docs: custom operators ~ (square, acts on the right) and ^ (cube, acts on the left)
    class OperatorSquare(S.OperatorBase):
        symbol: str = '~'

        def operate_unary(self, tokens):
            right = tokens.get_right()
            tokens.put_left(right * right)

    class OperatorCube(S.OperatorBase):
        symbol: str = '^'

        def operate_unary(self, tokens):
            left = tokens.get_left()
            tokens.put_left(left * left * left)

    # --- unit expressions: AtomParser is a function
    def UnitAtom(string=None):
        fault.tick(string)
        return unit_solver.AtomParser(string)

    def conf(atom, ops, steps=None):
        # every instance gets its own copies of the operator table and step list, so state leaking through
        # a mutated configuration object is visible to the differential as well
        return lambda: S.ExpressionSolver(atom, dict(ops), copy.deepcopy(steps))

    cfgs = {
        'default': lambda: S.ExpressionSolver(FaultAtom),
        'string-atom': conf(AtomCustom, 
            {'add': S.OperatorAdd, 'gt': S.OperatorGt, 'par': S.OperatorPar},
            [dict(operators=['par'], otype=Otype.ARGS), dict(operators=['add'], otype=Otype.BINARY), dict(operators=['gt'], otype=Otype.BINARY)]),
        'custom-operators': conf(FaultAtom, 
            {'square': OperatorSquare, 'cube': OperatorCube, 'add': S.OperatorAdd},
            [dict(operators=['square', 'cube'], otype=Otype.UNARY), dict(operators=['add'], otype=Otype.BINARY)]),
        'unit-parser': conf(UnitAtom, 
            {'par': S.OperatorPar, 'mul': S.OperatorMul, 'truediv': S.OperatorTruediv}),
        'subset-custom-order': conf(FaultAtom, 
            {'par': S.OperatorPar, 'pow': S.OperatorPow, 'mul': S.OperatorMul, 'truediv': S.OperatorTruediv,
             'add': S.OperatorAdd, 'sub': S.OperatorSub},
            [dict(operators=['par'], otype=Otype.ARGS), dict(operators=['add', 'sub'], otype=Otype.UNARY),
             dict(operators=['add', 'sub'], otype=Otype.BINARY), dict(operators=['mul', 'truediv'], otype=Otype.BINARY),
             dict(operators=['pow'], otype=Otype.BINARY)]),
        # subtraction and addition in SEPARATE binary steps (legal: a + b - c + d = a + (b - c) + d): sign rewrites of the unary
        # step create operator tokens the tokenizer never saw
        'separate-add-sub-steps': conf(FaultAtom,
            {'par': S.OperatorPar, 'mul': S.OperatorMul, 'truediv': S.OperatorTruediv, 'add': S.OperatorAdd, 'sub': S.OperatorSub},
            [dict(operators=['par'], otype=Otype.ARGS), dict(operators=['add', 'sub'], otype=Otype.UNARY),
             dict(operators=['mul', 'truediv'], otype=Otype.BINARY), dict(operators=['sub'], otype=Otype.BINARY),
             dict(operators=['add'], otype=Otype.BINARY)]),
        # a subset with function operators but WITHOUT the plain parenthesis: "(1+2)" is no expression for this solver, before
        # and after it has solved function calls
        'functions-without-par': conf(FaultAtom,
            {'sin': S.OperatorSin, 'exp': S.OperatorExp, 'mul': S.OperatorMul, 'add': S.OperatorAdd, 'sub': S.OperatorSub}),
    }
    return dict(S=S, guard=guard, fault=fault, cfgs=cfgs)


# ---------------------------------------------------------------- text generators (token lists per configuration)

WORDS = ['limit', '100 km/s', 'foo', 'bar', 'a', 'x y z', '50000000000 km/s', 'q']
UNITS = ['kg', 'm', 's', 'm2', 's2', 'km', 'g', 'J', 'N', 'cm3', 'mol', 'K', 's-1', 'm-2', '12', '4', '2.5', 'eV', 'Pa']


def toks_default(rng):
    g = R.Gen(rng, maxdepth=rng.choice([1, 2, 2, 3]), size=rng.choice([.3, .6, 1.0]), maxops=15)
    ast = g.or_(g.maxdepth) if rng.random() < 0.4 else g.add(g.maxdepth)
    return ast


def toks_signs(rng, d=2):
    """token list: sums, differences and products of small numbers with stacked signs (5 - -3, 2 * -+4, - -1 + 2), no powers"""
    def term(d):
        out = list(rng.choice([[], [], ['-'], ['+'], ['-', '-'], ['-', '+'], ['+', '-'], ['-', '-', '-']]))
        if d > 0 and rng.random() < 0.25:
            return out + ['('] + toks_signs(rng, d - 1) + [')']
        return out + [rng.choice(['1', '2', '3', '5', '0.5', '10'])]
    out = term(d)
    for _ in range(rng.choice([0, 1, 1, 2, 3])):
        out += [rng.choice(['-', '+', '*', '-', '+', '/'])] + term(d)
    return out


def toks_subset(rng):
    g = R.Gen(rng, maxdepth=rng.choice([1, 2, 2, 3]), size=rng.choice([.3, .6, 1.0]), maxops=15, funcs=False)
    return g.add(g.maxdepth)


def flat(rng, atoms, binops, depth, par=True):
    """token list: operand (binop operand)*, operand := atom | '(' ... ')'"""
    out = []
    for i in range(rng.choice([1, 2, 2, 3, 4])):
        if i:
            out.append(rng.choice(binops))
        if par and depth > 0 and rng.random() < 0.3:
            out += ['('] + flat(rng, atoms, binops, depth - 1) + [')']
        else:
            out.append(rng.choice(atoms))
    return out


def toks_funcs(rng, depth=2):
    """operand (binop operand)*, operand := number | sin( ... ) | exp( ... ) | sometimes a plain '(' ... ')' (not an operator here)"""
    out = []
    for i in range(rng.choice([1, 2, 2, 3])):
        if i:
            out.append(rng.choice(['+', '*', '-']))
        x = rng.random()
        if depth > 0 and x < 0.35:
            out += [rng.choice(['sin(', 'exp('])] + toks_funcs(rng, depth - 1) + [')']
        elif depth > 0 and x < 0.5:
            out += ['('] + toks_funcs(rng, depth - 1) + [')']
        else:
            out.append(rng.choice(['1', '2', '0.5', '3', '0', '10']))
    return out


def toks_custom_ops(rng):
    out = []
    for i in range(rng.choice([1, 2, 2, 3, 4])):
        if i:
            out.append('+')
        x, n = rng.random(), rng.choice(['1', '2', '3', '0.5', '10'])
        out += ['~', n] if x < 0.35 else [n, '^'] if x < 0.7 else ['~', n, '^'] if x < 0.8 else [n]
    return out


def is_atom_token(cfg, t):
    if cfg in ('default', 'subset-custom-order', 'custom-operators', 'functions-without-par', 'separate-add-sub-steps'):
        return t[0].isdigit() or t[0] == '.'
    if cfg == 'string-atom':
        return t not in ('+', '>', '(', ')')
    return t not in ('*', '/', '(', ')')


def binop_tokens(cfg):
    return {'string-atom': ['+', '>'], 'unit-parser': ['*', '/'], 'custom-operators': ['+'], 'functions-without-par': ['+', '*'], 'separate-add-sub-steps': ['+', '*']}.get(cfg)


def gen_entry(rng, cfg, kind):
    """-> dict(text, fail_at, kind)"""
    if cfg in ('default', 'subset-custom-order'):
        ast = toks_default(rng) if cfg == 'default' else toks_subset(rng)
        toks = R.tokens(ast)
        if kind == 'arity':
            fn = R.nodes(ast, lambda e: e[0] == 'f')
            if not fn:
                ast = ['f', rng.choice(R.F1 + R.F2), [ast]]
                ast[2] = ast[2] * R.NARG[ast[1]]
                fn = [()]
            path = rng.choice(fn)
            delta = rng.choice([1, -1])
            toks = R.tokens(R.replace(ast, path, lambda n: ['f', n[1], (n[2] + [['num', '7']]) if delta == 1 else n[2][:-1]]))
        elif kind == 'missing-operand':
            bn = R.nodes(ast, lambda e: e[0] == 'bin')
            if not bn:
                ast = ['bin', 'mul', [ast, ['num', '3']], ['*']]
                bn = [()]
            path = rng.choice(bn)
            node = ast
            for p in path:
                node = node[p]
            j = rng.randrange(len(node[2]))
            toks = R.tokens(R.replace(ast, path, lambda n: ['bin', n[1], [(['hole'] if i == j else o) for i, o in enumerate(n[2])], n[3]]))
        elif kind == 'nested-argument':
            inner = R.tokens(toks_default(rng) if cfg == 'default' else toks_subset(rng))
            inner[rng.choice([i for i, t in enumerate(inner) if is_atom_token(cfg, t)])] = 'x'
            head = rng.choice([f + '(' for f in R.F1]) if cfg == 'default' else '('
            toks = (['2', '*', head] + inner + [')', '+', '3']) if rng.random() < 0.5 else ([head] + inner + [')'])
    elif cfg == 'string-atom':
        toks = flat(rng, WORDS, ['+', '>'], 2)
    elif cfg == 'unit-parser':
        toks = flat(rng, UNITS, ['*', '/'], 2)
    elif cfg == 'functions-without-par':
        toks = toks_funcs(rng)
    elif cfg == 'separate-add-sub-steps':
        toks = toks_signs(rng)
    else:
        toks = toks_custom_ops(rng)
    atoms = [i for i, t in enumerate(toks) if is_atom_token(cfg, t)]
    fail_at = None
    if kind == 'unknown-atom' and atoms:
        toks[rng.choice(atoms)] = rng.choice(['x', 'foo', '1 2', 'xx3'])
    elif kind == 'missing-operand' and cfg not in ('default', 'subset-custom-order') and atoms:
        i = rng.choice(atoms)
        toks = toks[:i] + toks[i + 1:]
        if not any(is_atom_token(cfg, t) for t in toks):
            toks = toks + [binop_tokens(cfg)[0]]
    elif kind == 'unbalanced-open':
        toks.insert(rng.randint(0, len(toks) - 1), '(')
    elif kind == 'unbalanced-close':
        toks.insert(rng.randint(1, len(toks)), ')')
    elif kind == 'nested-argument' and cfg in ('string-atom', 'unit-parser'):
        inner = flat(rng, WORDS if cfg == 'string-atom' else UNITS, binop_tokens(cfg), 1)
        bad = rng.choice([i for i, t in enumerate(inner) if is_atom_token(cfg, t)])
        inner = inner[:bad] + inner[bad + 1:] if cfg == 'string-atom' else inner[:bad] + ['xx'] + inner[bad + 1:]
        toks = toks + [binop_tokens(cfg)[0], '('] + inner + [')']
    elif kind == 'atom-ctor' and atoms:
        fail_at = rng.randint(1, len(atoms))
    gaps = R.blanks(rng, len(toks)) if rng.random() < 0.6 else None
    # solve() takes a string or an Expression object: a quarter of the calls hand the text over as an object
    return dict(text=R.render(toks, gaps), fail_at=fail_at, kind=kind, as_object=rng.random() < 0.25)


KINDS_FOR = {
    'default': FAIL_KINDS,
    'subset-custom-order': ['unknown-atom', 'missing-operand', 'unbalanced-open', 'unbalanced-close', 'nested-argument', 'atom-ctor'],
    'string-atom': ['missing-operand', 'unbalanced-open', 'unbalanced-close', 'nested-argument', 'atom-ctor'],
    'unit-parser': ['unknown-atom', 'missing-operand', 'unbalanced-open', 'unbalanced-close', 'nested-argument', 'atom-ctor'],
    'custom-operators': ['unknown-atom', 'missing-operand', 'atom-ctor'],
    'functions-without-par': ['unknown-atom', 'missing-operand', 'unbalanced-close', 'atom-ctor'],
    'separate-add-sub-steps': ['unknown-atom', 'missing-operand', 'unbalanced-open', 'unbalanced-close', 'atom-ctor'],
}


def cases(rng, tier, shard, nshards, ctx):
    n = NHIST[tier] // nshards
    for i in range(n):
        cfg = CONFIGS[(i + shard) % len(CONFIGS)]
        hist = []
        for _ in range(rng.randint(2, 12)):
            if hist and rng.random() < 0.15:
                # an earlier text again, with the fault driver armed differently (or not at all)
                e = dict(rng.choice(hist))
                natoms = max(1, sum(1 for t in R.lex(e['text']) or [] if t[0] == 'num'))
                e['fail_at'] = rng.choice([None, None, rng.randint(1, natoms)])
                e['kind'] = 'repeat'
                hist.append(e)
                continue
            kind = 'valid' if rng.random() < 0.45 else rng.choice(KINDS_FOR[cfg])
            hist.append(gen_entry(rng, cfg, kind))
        yield dict(cfg=cfg, hist=hist)


# ---------------------------------------------------------------- observation / comparison

def plain_value(r):
    if r is None:
        return ('none',)
    if hasattr(r, 'value'):
        v = r.value
        v = v.item() if hasattr(v, 'item') else v
        return ('value', v)
    if hasattr(r, 'magnitude') and hasattr(r, 'baseunits'):
        return ('unit-atom', float(r.magnitude), sorted((k, str(v)) for k, v in r.baseunits.items()))
    return ('repr', repr(r))


def observe(ctx, make, instance, entry):
    ctx['fault'].arm(entry.get('fail_at'))
    es = instance if instance is not None else make()
    arg = entry['text']
    if entry.get('as_object'):
        from scinumtools.solver import Expression
        arg = Expression(entry['text'])
    kind, r = ctx['guard'].run(es.solve, arg)
    ctx['fault'].arm(None)
    if kind == 'v':
        return ('v', plain_value(r))
    if kind == 'e':
        return ('e', type(r).__name__, repr(r.args)[:600])
    return ('budget', r)


def same(a, b):
    if a[0] != b[0]:
        return False
    if a[0] != 'v':
        return a == b
    x, y = a[1], b[1]
    if x[0] != y[0]:
        return False
    if x[0] == 'value':
        if isinstance(x[1], (int, float, bool)) and isinstance(y[1], (int, float, bool)):
            return close(x[1], y[1], 1e-12) and bool(x[1]) == bool(y[1])
        if isinstance(x[1], complex) and isinstance(y[1], complex):
            return close(x[1].real, y[1].real, 1e-12) and close(x[1].imag, y[1].imag, 1e-12)
        return type(x[1]) is type(y[1]) and x[1] == y[1]
    if x[0] == 'unit-atom':
        return close(x[1], y[1], 1e-12) and x[2] == y[2]
    return x == y


def show(o):
    if o[0] == 'v':
        v = o[1][1] if o[1][0] == 'value' else None
        if isinstance(v, (bool, int, str)) or (isinstance(v, float) and v == v and abs(v) != float('inf')):
            return dict(value=v)
        return dict(value=repr(o[1][1:] if o[1][0] != 'value' else v))
    if o[0] == 'e':
        return dict(raises=o[1], args=o[2][:200])
    return dict(no_result_within_steps=o[1])


def buffers(es):
    """deep copy of the instance's pending tokens (diagnosis; None when the attributes do not exist)"""
    try:
        return copy.deepcopy((list(es.tokens.left), list(es.tokens.right)))
    except Exception:
        return None


def run_case(case, ctx):
    cfg, hist = case['cfg'], case['hist']
    make = ctx['cfgs'][cfg]
    h = make()
    classes = {'cfg-' + cfg}
    mon = dict(differential_compares=0, step_guarded_calls=0, fresh_instances=0, nonempty_buffers_seen=0)
    devs, seen, rows = [], set(), []
    prev_failed = None
    nontrivial = False
    for k, entry in enumerate(hist):
        dump = buffers(h)
        out_h = observe(ctx, make, h, entry)
        out_f = observe(ctx, make, None, entry)
        mon['differential_compares'] += 1
        mon['step_guarded_calls'] += 2
        mon['fresh_instances'] += 1
        failed = out_f[0] != 'v'
        if failed:
            kind = entry['kind'] if entry['kind'] not in ('valid', 'repeat') else 'other'
            classes.add('fail-' + kind)
            classes.add('cfg-%s:fail-%s' % (cfg, kind))
            if entry.get('fail_at') and entry['fail_at'] > 1 and out_f[1] == 'InjectedFault':
                classes.add('atom-ctor-fault-after-first-atom')
            if out_f[0] == 'e' and out_f[1] in ('AttributeError', 'TypeError'):
                classes.add('failure-in-operate-phase')
        if entry['kind'] == 'repeat':
            classes.add('repeated-text')
        if entry.get('as_object'):
            classes.add('expression-object-input')
            if prev_failed:
                classes.add('expression-object-input-after-failure')
        if prev_failed is not None:
            classes.add('%s-after-%s' % ('failure' if failed else 'valid', 'failure' if prev_failed else 'valid'))
            if prev_failed or any(r[3] for r in rows):
                nontrivial = True
        if dump and (dump[0] or dump[1]):
            mon['nonempty_buffers_seen'] += 1
        rows.append((entry['text'], show(out_f), show(out_h), failed))
        for o in (out_h, out_f):
            if o[0] == 'budget' and 'budget' not in seen:
                seen.add('budget')
                devs.append(dev('no-result-within-step-budget', dict(step=k, text=entry['text'], steps=o[1])))
        if not same(out_h, out_f) and out_h[0] != 'budget' and out_f[0] != 'budget':
            mech = {('v', 'v'): 'history-changes-value', ('e', 'v'): 'history-turns-value-into-error',
                    ('v', 'e'): 'history-turns-error-into-value', ('e', 'e'): 'history-changes-error'}[(out_h[0], out_f[0])]
            known = None
            detail = dict(step=k, text=entry['text'], fail_at=entry.get('fail_at'), fresh_instance=show(out_f),
                          reused_instance=show(out_h), earlier=[r[0] for r in rows[:-1]],
                          pending_tokens_before_call=repr(dump)[:300])
            if dump and (dump[0] or dump[1]):
                # buggy twin of the known defect: a fresh instance whose buffers are pre-loaded with exactly the
                # tokens left behind must reproduce the reused instance's outcome; anything else is new
                t = make()
                try:
                    t.tokens.left, t.tokens.right = copy.deepcopy(dump[0]), copy.deepcopy(dump[1])
                    out_t = observe(ctx, make, t, entry)
                    mon['step_guarded_calls'] += 1
                    detail['fresh_instance_preloaded_with_pending_tokens'] = show(out_t)
                    if same(out_t, out_h):
                        known = KEY_STALE
                except Exception as e:
                    detail['twin_error'] = repr(e)
            if (known or mech) not in seen:
                seen.add(known or mech)
                devs.append(dev(known or mech, detail, known=known))
        prev_failed = failed
    fp = cfg + '|' + '|'.join('%s#%s' % (e['text'], e.get('fail_at')) for e in hist)
    sample = dict(configuration=cfg, history=[dict(text=r[0], fresh_instance=r[1], reused_instance=r[2]) for r in rows[:5]])
    return outcome(classes=sorted(classes), nontrivial=nontrivial, fp=fp, dev=devs, monitors=mon, sample=sample)


def pinned(ctx):
    return [(KEY_STALE, dict(cfg='default', hist=[dict(text='(1+2)*x', fail_at=None, kind='unknown-atom'),
                                                  dict(text='3*4', fail_at=None, kind='valid')]))]


def teardown(ctx):
    g = ctx['guard']
    return dict(monitors={}, anchor_lines_hit=dict(g.lines), step_budget={'events': g.budget})
