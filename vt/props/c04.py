"""C04 — Linear unit conversion is exact, reversible and dimension-safe."""
import math
from fractions import Fraction as Fr
from vt.core import outcome, dev
from vt.util import close
from vt.refmodel import units_ref as U

ID = 'C04'
LEVEL = 'exploration'
RULE = ('triples (u,v,w) of linear units of one dimension (every table symbol with every admissible prefix, compounds '
        'obtained by replacing factors with same-dimension alternatives, named units against base-unit expansions, '
        '#system symbols), magnitudes in {0,+-1,+-random,+-1e-200,+-1e200} as scalar or array; reciprocal pairs; bare '
        'number -> rad; refusal pairs of differing dimension with before/after fingerprint of the quantity; '
        'histories of value()/to()/rebase() steps on ONE object over a pool of three units; '
        'non-trivial = u and v differ in text and factor, or the conversion must be refused; distinct by (u,v,w,class of x)')
SHARDS = {'quick': 16, 'thorough': 16}
MIN_NONTRIVIAL = {'quick': 6000, 'thorough': 150000}
REQUIRED_CLASSES = ['magnitude-with-uncertainty', 'atom-pair', 'compound-pair', 'named-vs-expansion', 'system-symbol', 'array', 'scalar', 'zero', 'negative',
                    'extreme', 'reciprocal', 'bare-number-to-rad', 'merged-fractional-exponents', 'square-of-half-integer-dimension-unit', 'refusal', 'refusal-dimensionless-unit-to-angle', 'refusal-with-quantity-target', 'target-quantity', 'roundtrip', 'via-intermediate', 'same-object-history']
REQUIRED_MONITORS = ['value_compares', 'roundtrip_compares', 'path_compares', 'refusal_fingerprint_compares', 'history_step_compares']
ASSUMPTIONS = ['units_ref factors come from the published tables', 'rtol 1e-9',
               'temperature (Cel, degF) and logarithmic symbols are excluded here (C05)',
               'target units given as strings carry no numeric factor (to(Quantity) is used for that)',
               'cases whose base value or result leaves 1e+-290 are skipped and counted']
EXHAUSTIVE_SUBSPACES = {'quick': [], 'thorough': ['every ordered pair of prefixed/plain atoms of equal dimension among linear table symbols, exponent 1 (one magnitude each)']}
BASE = ['m', 'g', 's', 'K', 'C', 'cd', 'mol', 'rad']


def setup():
    import numpy as np
    from scinumtools.units import Quantity, BaseUnits
    from vt.monitors.tables import Hygiene
    T = U.Tables()
    atoms = []
    for u in T.linear_symbols():
        for p in [''] + T.admissible(u):
            atoms.append((p, u))
    for u in T.system:
        atoms.append(('', u))
    bydim = {}
    for p, u in atoms:
        f, dims = T.atom(p, u)
        bydim.setdefault(dims, []).append((p, u))
    named = [(p, u) for (p, u) in atoms if not u.startswith('#') and u not in BASE
             and all(x.denominator == 1 for x in T.atom(p, u)[1]) and any(T.atom(p, u)[1])]
    dimkeys = [d for d in bydim if len(bydim[d]) >= 2]
    # table units whose dimension vector has half-integer entries (Gaussian units: statC, statA, statV, Gs, ...)
    fracdim = [(p, u) for (p, u) in atoms if not u.startswith('#') and any(x.denominator != 1 for x in T.atom(p, u)[1])]
    return dict(T=T, Q=Quantity, BU=BaseUnits, np=np, atoms=atoms, bydim=bydim, dimkeys=dimkeys, named=named, fracdim=fracdim, hyg=Hygiene())


def pick_x(rng):
    r = rng.random()
    if r < 0.08:
        return 0.0, 'zero'
    if r < 0.2:
        return rng.choice([1.0, -1.0]), 'unit'
    if r < 0.3:
        return rng.choice([1e-200, -1e-200, 1e200, -1e200, 3.7e150, -2.2e-150]), 'extreme'
    v = rng.choice([rng.uniform(-1e3, 1e3), rng.uniform(-1, 1), 10 ** rng.uniform(-12, 12) * rng.choice([1, -1])])
    return v, 'random'


def alt_atom(rng, ctx, a):
    """another atom of the same dimension as atom a (same exponent)"""
    T = ctx['T']
    _, d1 = T.atom(a[1], a[2])
    cands = ctx['bydim'].get(d1, [])
    if not cands:
        return a
    p, u = rng.choice(cands)
    return ['a', p, u, a[3], a[4]]


def gen_compound(rng, ctx, k):
    xs = []
    for _ in range(k):
        p, u = rng.choice(ctx['atoms'])
        e = rng.choice([(1, 1), (1, 1), (2, 1), (-1, 1), (-2, 1), (3, 1), (1, 2)])
        xs.append(['a', p, u, e[0], e[1]])
    x = xs[0]
    for a in xs[1:]:
        x = [rng.choice('*/'), x, a]
    return x


def map_atoms(x, f):
    if x[0] == 'a':
        return f(x)
    if x[0] == 'n':
        return x
    if x[0] == 'p':
        return ['p', map_atoms(x[1], f)]
    return [x[0], map_atoms(x[1], f), map_atoms(x[2], f)]


def expansion(rng, ctx, dims):
    """base-unit expansion of an integer dimension vector with random prefixes"""
    x = None
    order = list(range(8))
    rng.shuffle(order)
    for i in order:
        e = dims[i]
        if e == 0:
            continue
        u = BASE[i]
        adm = ctx['T'].admissible(u)
        p = rng.choice(adm) if rng.random() < 0.5 else ''
        a = ['a', p, u, int(e), 1]
        x = a if x is None else ['*', x, a]
    return x


def cases(rng, tier, shard, nshards, ctx):
    import random
    r2 = random.Random(rng.random())
    for c in _cases(rng, tier, shard, nshards, ctx):
        if c.get('t') in ('conv', 'recip', 'hist', 'toq') and c.get('xc') != 'extreme' and r2.random() < 0.2:
            c['unc'] = True
        yield c


def _cases(rng, tier, shard, nshards, ctx):
    n = 14000 if tier == 'quick' else 420000
    if tier == 'thorough':
        i = 0
        for d in ctx['dimkeys']:
            for a in ctx['bydim'][d]:
                for b in ctx['bydim'][d]:
                    i += 1
                    if i % nshards == shard and a != b:
                        x, xc = pick_x(rng)
                        yield dict(t='conv', kind='atom-pair', u=['a', a[0], a[1], 1, 1], v=['a', b[0], b[1], 1, 1], w=None, x=x, xc=xc, arr=False)
    for _ in range(n // nshards):
        r = rng.random()
        x, xc = pick_x(rng)
        arr = rng.random() < 0.25
        if r < 0.3:
            d = rng.choice(ctx['dimkeys'])
            a, b, c = (rng.choice(ctx['bydim'][d]) for _ in range(3))
            e = rng.choice([(1, 1), (1, 1), (2, 1), (-1, 1), (1, 2), (-3, 1)])
            mk = lambda q: ['a', q[0], q[1], e[0], e[1]]
            yield dict(t='conv', kind='atom-pair', u=mk(a), v=mk(b), w=mk(c), x=x, xc=xc, arr=arr)
        elif r < 0.55:
            u = gen_compound(rng, ctx, rng.randint(2, 4))
            if rng.random() < 0.3:
                u = ['*', ['n', rng.choice(['2', '2.5', '1e3', '0.5'])], u]
            v = map_atoms(u, lambda a: alt_atom(rng, ctx, a) if rng.random() < 0.7 else a)
            w = map_atoms(u, lambda a: alt_atom(rng, ctx, a))
            v = strip_num(v); w = strip_num(w)
            yield dict(t='conv', kind='compound-pair', u=u, v=v, w=w, x=x, xc=xc, arr=arr)
        elif r < 0.65:
            p, s = rng.choice(ctx['named'])
            dims = ctx['T'].atom(p, s)[1]
            e = rng.choice([1, 1, 2, -1])
            u = ['a', p, s, e, 1]
            v = expansion(rng, ctx, tuple(d * e for d in dims))
            if rng.random() < 0.5:
                u, v = v, u
            yield dict(t='conv', kind='named-vs-expansion', u=u, v=v, w=None, x=x, xc=xc, arr=arr)
        elif r < 0.68:
            # fractional exponents that MERGE into an integer one (km1:2*km1:2, m3:2/m1:2, three cube roots): the exponent the
            # library holds afterwards is an unreduced fraction (2/2, 3/3); and squares of units with half-integer dimensions
            if ctx['fracdim'] and rng.random() < 0.3:
                p, sy = rng.choice(ctx['fracdim'])
                dims = ctx['T'].atom(p, sy)[1]
                u = ['a', p, sy, 2, 1]
                v = expansion(rng, ctx, tuple(dd * 2 for dd in dims))
                yield dict(t='conv', kind='square-of-half-integer-dimension-unit', u=u, v=v, w=None, x=x, xc=xc, arr=arr)
            else:
                d = rng.choice([k for k in ctx['dimkeys'] if any(k)])
                a = rng.choice(ctx['bydim'][d]); b = rng.choice(ctx['bydim'][d])
                form = rng.choice(['halves', 'thirds', 'three-halves-over-half', 'quarters'])
                at = lambda n_, d_: ['a', a[0], a[1], n_, d_]
                if form == 'halves':
                    u = ['*', at(1, 2), at(1, 2)]
                elif form == 'thirds':
                    u = ['*', ['*', at(1, 3), at(1, 3)], at(1, 3)]
                elif form == 'quarters':
                    u = ['*', ['*', at(1, 4), at(1, 4)], at(1, 2)]
                else:
                    u = ['/', at(3, 2), at(1, 2)]
                yield dict(t='conv', kind='merged-fractional-exponents', u=u, v=['a', b[0], b[1], 1, 1], w=None, x=x, xc=xc, arr=arr)
        elif r < 0.72:
            d = rng.choice([k for k in ctx['dimkeys'] if any(k)])
            a = rng.choice(ctx['bydim'][d]); b = rng.choice(ctx['bydim'][d])
            e = rng.choice([1, 2, -1])
            yield dict(t='recip', u=['a', a[0], a[1], e, 1], v=['a', b[0], b[1], -e, 1], x=x, xc=xc, arr=arr)
        elif r < 0.76:
            yield dict(t='bare', x=x, xc=xc, arr=arr)
        elif r < 0.84 and rng.random() < 0.6:
            # history on ONE object: value(v)/to(w)/value() steps drawn from a small pool of same-dimension units (repeats intended)
            d = rng.choice(ctx['dimkeys'])
            e = rng.choice([(1, 1), (1, 1), (2, 1), (-1, 1)])
            pool = [['a', q[0], q[1], e[0], e[1]] for q in (rng.choice(ctx['bydim'][d]) for _ in range(3))]
            steps = []
            for _ in range(rng.randint(3, 8)):
                steps.append([rng.choice(['value', 'value', 'to', 'to', 'plain', 'rebase']), rng.randrange(3)])
            yield dict(t='hist', pool=pool, steps=steps, x=x if x != 0 else 1.5, xc=xc, arr=arr)
        elif r < 0.84:
            d = rng.choice(ctx['dimkeys'])
            a, b = rng.choice(ctx['bydim'][d]), rng.choice(ctx['bydim'][d])
            yield dict(t='toq', u=['a', a[0], a[1], 1, 1], v=['a', b[0], b[1], 1, 1], k=rng.choice([2.0, 0.5, 10.0, 3.25]), x=x, xc=xc, arr=arr)
        elif r > 0.985:
            zero = tuple([0] * 8)
            ang = tuple([0] * 7 + [1])
            za = [a for a in ctx['bydim'].get(zero, []) + [a for d_, L in ctx['bydim'].items() if not any(d_) for a in L]]
            aa = [a for d_, L in ctx['bydim'].items() if tuple(int(x) if getattr(x, 'denominator', 1) == 1 else x for x in d_) == ang for a in L]
            if za and aa:
                a, b = rng.choice(za), rng.choice(aa)
                yield dict(t='refuse', u=['a', a[0], a[1], 1, 1], v=['a', b[0], b[1], 1, 1], x=x if x != 0 else 1.0, xc=xc, arr=arr, abse=rng.random() < 0.3,
                           op=rng.choice(['to', 'value', 'to-quantity']), k=rng.choice([3.0, 0.5, 8.0]))
        else:
            u = gen_compound(rng, ctx, rng.randint(1, 3))
            v = gen_compound(rng, ctx, rng.randint(1, 3))
            yield dict(t='refuse', u=u, v=v, x=x if x != 0 else 1.0, xc=xc, arr=arr, abse=rng.random() < 0.3, op=rng.choice(['to', 'value', 'to-quantity']), k=rng.choice([3.0, 0.5, 8.0]))


def strip_num(x):
    if x[0] in '*/' and x[1][0] == 'n':
        return x[2]
    return x


def fingerprint(q):
    v = q.magnitude.value
    vb = v.tobytes() if hasattr(v, 'tobytes') else repr(v)
    e = q.magnitude.error
    eb = e.tobytes() if hasattr(e, 'tobytes') else repr(e)
    return (type(v).__name__, vb, eb, q.baseunits.expression, tuple(sorted((k, str(x)) for k, x in U.unitmap_from_real(q.baseunits).items())),
            repr(q.baseunits.magnitude))


def run_case(case, ctx):
    out = _run(case, ctx)
    leak = ctx['hyg'].check_restore()
    if leak:
        out['monitors']['table_leaks_restored'] = out['monitors'].get('table_leaks_restored', 0) + 1
    return out


def vals(x, arr, np):
    if arr:
        return [x, 2 * x, -0.5 * x]
    return [x]


def _run(case, ctx):
    T, Q, np = ctx['T'], ctx['Q'], ctx['np']
    t = case['t']
    x, arr = case['x'], case['arr']
    classes = ['array' if arr else 'scalar']
    if x == 0:
        classes.append('zero')
    if x < 0:
        classes.append('negative')
    if case['xc'] == 'extreme':
        classes.append('extreme')
    mon, devs = {}, []
    xs = vals(x, arr, np)
    if case.get('unc') and case.get('t') != 'refuse':
        # a measured value: the number converts by the same factor whatever uncertainty rides along
        classes.append('magnitude-with-uncertainty')
        e_ = 0.01 * abs(xs[0]) + 1e-3
        mk = (lambda: Q(list(xs), ut, abse=e_)) if arr else (lambda: Q(xs[0], ut, abse=e_))
    else:
        mk = (lambda: Q(list(xs), ut)) if arr else (lambda: Q(xs[0], ut))

    def getv(q):
        v = q if not hasattr(q, 'magnitude') else q.magnitude.value
        return [float(z) for z in (v.tolist() if hasattr(v, 'tolist') and arr else [v])]

    def cmp(obs, exp, what, counter, rtol=1e-9):
        mon[counter] = mon.get(counter, 0) + 1
        if len(obs) != len(exp) or not all(close(a, b, rtol) for a, b in zip(obs, exp)):
            devs.append(dev(what, dict(u=ut, v=vt, x=xs, observed=obs, expected=exp)))

    if t == 'bare':
        classes.append('bare-number-to-rad')
        ut, vt = None, 'rad'
        q = Q(list(xs)) if arr else Q(xs[0])
        cmp(getv(q.value('rad')), xs, 'bare-number-to-rad-value', 'value_compares', 1e-12)
        q.to('rad')
        cmp(getv(q), xs, 'bare-number-to-rad-to', 'value_compares', 1e-12)
        if U.unitmap_from_real(q.baseunits) != {('', 'rad'): Fr(1)}:
            devs.append(dev('bare-number-to-rad-units', dict(units=q.units())))
        return outcome(classes=classes, nontrivial=True, fp='bare %s %s' % (case['xc'], arr), dev=devs, monitors=mon,
                       sample=dict(case='Quantity(%r).to("rad")' % (xs,), observed=getv(q)))
    if t == 'hist':
        return run_hist(case, ctx, classes, xs)
    try:
        mu = T.meaning(case['u'])
        mv = T.meaning(case['v'])
        mw = T.meaning(case['w']) if case.get('w') else None
    except (OverflowError, ZeroDivisionError):
        return outcome(skip='overflow')
    ut, vt = U.render(case['u']), U.render(case['v'])
    wt = U.render(case['w']) if case.get('w') else None
    Fu, Fv = mu[0] * mu[1], mv[0]
    if not U.finite_ok(Fu, Fv, mu[0]) or (mw and not U.finite_ok(mw[0])):
        return outcome(skip='overflow')
    base = [z * Fu for z in xs]
    if not U.finite_ok(*base):
        return outcome(skip='overflow')

    if t in ('conv', 'toq'):
        if mu[2] != mv[2]:
            raise AssertionError('generator produced differing dimensions')
        k = case.get('k', 1.0)
        exp = [b / Fv / k for b in base]
        if not U.finite_ok(*exp) or any(e == 0 and z != 0 for e, z in zip(exp, xs)) or any(b == 0 and z != 0 for b, z in zip(base, xs)):
            return outcome(skip='overflow')      # includes underflow of a non-zero magnitude to zero
        if t == 'toq':
            classes.append('target-quantity')
            q = mk()
            q.to(Q(k, vt))
            cmp(getv(q), exp, 'to-quantity-target-value', 'value_compares')
            if U.unitmap_from_real(q.baseunits) != U.nonzero(mv[3]):
                devs.append(dev('to-quantity-target-units', dict(u=ut, v=vt, units=q.units())))
            return outcome(classes=classes, nontrivial=True, fp='toq %s %s %s %s' % (ut, vt, case['xc'], arr), dev=devs, monitors=mon,
                           sample=dict(case='Quantity(%r,%r).to(Quantity(%r,%r))' % (xs, ut, k, vt), observed=getv(q), expected=exp))
        classes.append(case['kind'])
        if '#' in ut or '#' in vt:
            classes.append('system-symbol')
        step = 'value(v)'
        try:
            q0 = mk()
            fp0 = fingerprint(q0)
            cmp(getv(q0.value(vt)), exp, 'value-in-other-unit', 'value_compares')
            if fingerprint(q0) != fp0:
                devs.append(dev('value-query-changed-quantity', dict(u=ut, v=vt)))
            step = 'to(v)'
            q = mk()
            r = q.to(vt)
            if r is not q:
                devs.append(dev('to-does-not-return-self', dict(u=ut, v=vt)))
            cmp(getv(q), exp, 'converted-value', 'value_compares')
            if U.unitmap_from_real(q.baseunits) != U.nonzero(mv[3]):
                devs.append(dev('converted-units', dict(u=ut, v=vt, units=q.units(), expected={''.join(k): str(v) for k, v in U.nonzero(mv[3]).items()})))
            # round trip (back into the unit part of u; numeric factor of u stays in the number)
            classes.append('roundtrip')
            step = 'to(v) then back to(u)'
            ub = U.render(strip_num(case['u']))
            q.to(ub)
            cmp(getv(q), [z * mu[1] for z in xs], 'roundtrip', 'roundtrip_compares')
            if wt:
                mid = [b / mw[0] for b in base]
                if U.finite_ok(*mid) and not any(m == 0 and z != 0 for m, z in zip(mid, xs)):
                    classes.append('via-intermediate')
                    step = 'to(w) then to(v)'
                    q2 = mk()
                    q2.to(wt).to(vt)
                    cmp(getv(q2), exp, 'via-intermediate-unit', 'path_compares')
        except Exception as e:
            # units of one dimension: a conversion that raises is a refusal the property does not allow
            mon['value_compares'] = mon.get('value_compares', 0) + 1
            devs.append(dev('conversion-between-units-of-one-dimension-raises', dict(u=ut, v=vt, w=wt, step=step, exc='%s: %s' % (type(e).__name__, str(e)[:160]))))
        nontrivial = ut != vt and not close(Fu, Fv, 1e-12)
        return outcome(classes=classes, nontrivial=nontrivial, fp='conv %s|%s|%s|%s|%s' % (ut, vt, wt, case['xc'], arr), dev=devs, monitors=mon,
                       sample=dict(case='Quantity(%r,%r).to(%r)' % (xs, ut, vt), expected=exp, factor_u=Fu, factor_v=Fv))
    if t == 'recip':
        classes.append('reciprocal')
        if tuple(-d for d in mu[2]) != mv[2] or not any(mu[2]):
            raise AssertionError('generator: not reciprocal')
        if any(b == 0 for b in base):
            return outcome(skip='reciprocal-of-zero')
        exp = [1.0 / b / Fv for b in base]
        if not U.finite_ok(*exp) or not U.finite_ok(*[1.0 / b for b in base]):
            return outcome(skip='overflow')
        q = mk()
        cmp(getv(q.value(vt)), exp, 'reciprocal-value', 'value_compares')
        q.to(vt)
        cmp(getv(q), exp, 'reciprocal-converted-value', 'value_compares')
        q.to(ut)
        cmp(getv(q), xs, 'reciprocal-roundtrip', 'roundtrip_compares')
        return outcome(classes=classes, nontrivial=True, fp='recip %s %s %s %s' % (ut, vt, case['xc'], arr), dev=devs, monitors=mon,
                       sample=dict(case='Quantity(%r,%r).to(%r)' % (xs, ut, vt), expected=exp))
    if t == 'refuse':
        du, dv = mu[2], mv[2]
        if du == dv or tuple(-d for d in du) == dv:
            return outcome(skip='same-or-reciprocal-dimension')
        if not any(du) and not any(dv[:7]):
            # only a BARE number converts to radians; a dimensionless quantity written in a unit (%, ppth, [pi], PR ...) has
            # the dimension vector zero, an angle has not: refused like every other pair of differing dimension
            if not ut:
                return outcome(skip='bare-number-to-angle-is-the-allowed-conversion')
            classes.append('refusal-dimensionless-unit-to-angle')
        classes.append('refusal')
        q = Q(list(xs), ut, abse=0.25) if (arr and case['abse']) else (Q(xs[0], ut, abse=0.25) if case['abse'] else mk())
        fp0 = fingerprint(q)
        raised = None
        target = fpt0 = None
        if case['op'] == 'to-quantity':
            # the target is a Quantity used as a unit (1 target = k x vt): refused just the same, and neither object changes
            classes.append('refusal-with-quantity-target')
            target = Q(case.get('k', 3.0), vt)
            fpt0 = fingerprint(target)
        try:
            res = q.to(target) if target is not None else (q.to(vt) if case['op'] == 'to' else q.value(vt))
        except Exception as e:
            raised = e
        if target is not None and fingerprint(target) != fpt0:
            devs.append(dev('refused-conversion-changed-the-target-quantity', dict(u=ut, v=vt, now=repr(target))))
        if raised is None:
            devs.append(dev('conversion-between-different-dimensions-accepted', dict(u=ut, v=vt, op=case['op'], result=repr(res)[:80])))
        mon['refusal_fingerprint_compares'] = 1
        if fingerprint(q) != fp0:
            devs.append(dev('refused-conversion-changed-quantity', dict(u=ut, v=vt, op=case['op'], now=repr(q))))
        return outcome(classes=classes, nontrivial=True, fp='refuse %s %s %s' % (ut, vt, case['op']), dev=devs, monitors=mon,
                       sample=dict(case='Quantity(%r,%r).%s(%r)' % (xs, ut, case['op'], vt), observed=repr(raised)[:100]))
    raise ValueError(t)


def run_hist(case, ctx, classes, xs):
    """value()/to()/rebase() steps on one object, the model tracks (numbers, current unit factor)"""
    T, Q = ctx['T'], ctx['Q']
    arr = case['arr']
    classes.append('same-object-history')
    pool = case['pool']
    try:
        F = [T.meaning(u)[0] for u in pool]
    except (OverflowError, ZeroDivisionError):
        return outcome(skip='overflow')
    texts = [U.render(u) for u in pool]
    if not U.finite_ok(*F):
        return outcome(skip='overflow')
    cur = 0
    vals = list(xs)
    q = Q(list(xs), texts[0]) if arr else Q(xs[0], texts[0])
    devs, mon = [], {}
    trace = []

    def getv(v):
        return [float(z) for z in (v.tolist() if hasattr(v, 'tolist') and arr else [v])]
    for n, (op, i) in enumerate(case['steps']):
        if op == 'value':
            exp = [z * F[cur] / F[i] for z in vals]
            if not U.finite_ok(*exp) or any(e == 0 for e in exp):
                break
            obs = getv(q.value(texts[i]))
        elif op == 'to':
            exp = [z * F[cur] / F[i] for z in vals]
            if not U.finite_ok(*exp) or any(e == 0 for e in exp):
                break
            q.to(texts[i])
            vals, cur = exp, i
            obs = getv(q.magnitude.value)
        elif op == 'rebase':
            q.rebase()
            exp = vals
            obs = getv(q.magnitude.value)
        else:
            exp = vals
            obs = getv(q.value())
        trace.append([op, texts[i] if op in ('value', 'to') else None, obs[:1]])
        mon['history_step_compares'] = mon.get('history_step_compares', 0) + 1
        if len(obs) != len(exp) or not all(close(a, b, 1e-9) for a, b in zip(obs, exp)):
            devs.append(dev('same-object-history-%s-step' % op, dict(start=texts[0], x=xs, steps=[(o, texts[j]) for o, j in case['steps'][:n + 1]],
                                                                   observed=obs, expected=exp)))
            break
    return outcome(classes=classes, nontrivial=True, fp='hist %s %s %s' % (texts, case['steps'], case['xc']), dev=devs, monitors=mon,
                   sample=dict(case='Quantity(%r,%r)' % (xs, texts[0]), steps=trace))


def pinned(ctx):
    return []
