"""C17 / C16 side family: several programs parsed one after the other ON TOP of one base environment.

"Parsing on top of a previously parsed environment ... leaves that environment's nodes and units unchanged" (C17), for
every kind of base: one that holds nodes, and a shared preamble that holds only $unit directives (no node at all).
  * the returned environment is a new object, the base reports the same nodes and units as before (snapshot),
  * a second, independent program parsed on the same base gets exactly what it would get on a fresh copy of the base
    (nothing of the first program is visible to it),
  * values of the stage programs are the closed-form ones (custom unit of the base usable, injection of a base node).
"A returned environment satisfies every constraint" (C16), also for constraints that sit on nodes INHERITED from the base
and refer to other nodes: a stage that modifies the referenced node so that the inherited node's condition is false
must be rejected; the same stage with a harmless value is accepted."""
from vt.core import outcome, dev
from vt.util import close, plain


def gen(rng):
    return dict(stage='base', base=rng.choice(['units-only', 'units-only', 'nodes', 'nodes-and-units']), k=rng.choice([2, 5, 0.5]),
                x=rng.choice([3, 4, 10]), y=rng.choice([7, 1.5, 20]), limit=rng.choice([10, 50]), bad=rng.random() < 0.5,
                cond=rng.choice(['lt', 'le-bound', 'bool']), second=rng.choice(['same-names', 'other-names']))


def snap(env):
    nodes = []
    for n in env.nodes.nodes:
        v = n.value
        nodes.append((n.name, n.keyword, plain(v.value) if hasattr(v, 'value') else repr(v), getattr(v, 'unit', None), getattr(n, 'condition', None),
                      bool(getattr(n, 'constant', False))))
    units = sorted((k, repr(getattr(u, 'value', None)), getattr(u, 'unit', None) if not isinstance(u, dict) else repr(u)) for k, u in dict(env.units.units).items()) \
        if hasattr(env.units, 'units') else repr(env.units)
    return repr((nodes, units))


def run(c, ctx, real_parse):
    devs, classes = [], ['staged-base', 'staged-base:' + c['base']]
    mon = dict(staged_base_programs=1, base_snapshots_compared=0)
    k, x, y = float(c['k']), float(c['x']), float(c['y'])
    B = []
    if c['base'] in ('units-only', 'nodes-and-units'):
        B.append('$unit blk = %r m' % k)
    if c['base'] in ('nodes', 'nodes-and-units'):
        B += ['box', '  size float = %r cm' % float(c['limit']), 'inner float = 1 cm', '  !condition ("{?} < {?box.size}")' if c['cond'] != 'bool' else '  !condition ("{?} < 1e6 cm")',
              'rad bool = true', 'cool bool = true', '  !condition ("~{?} || {?rad}")']
    base_text = '\n'.join(B) + '\n'
    has_unit = c['base'] != 'nodes'
    has_nodes = c['base'] != 'units-only'
    # stage A
    # (a definition `s float = {?w} cm` would keep the number and take it in cm; the conversion applies to a modification)
    A = ['w float = %r %s' % (x, '[blk]' if has_unit else 'm'), 's float = 1 cm', 's = {?w}', 'n int = 3']
    expA = {'w': (x, '[blk]' if has_unit else 'm'), 's': (x * (k if has_unit else 1.0) * 100.0, 'cm'), 'n': (3, None)}
    violate = has_nodes and c['bad']
    if has_nodes:
        if c['cond'] == 'bool':
            A.append('rad = %s' % ('false' if violate else 'true'))
        elif c['cond'] == 'le-bound':
            A.append('box.size = %s' % ('10 mm' if violate else '%r cm' % (float(c['limit']) + 5)))      # 10 mm = 1 cm: "inner < size" is false on the bound
        else:
            A.append('box.size = %s' % ('0.5 cm' if violate else '%r cm' % (float(c['limit']) * 2)))
    # stage B (independent of A)
    if c['second'] == 'same-names':
        Bt = ['w int = 9', 's str = "text"', '$unit blk2 = 3 s', 't float = 2 [blk2]', 'u float = 1 s', 'u = {?t}']
        expB = {'w': (9, None), 's': ('text', None), 't': (2.0, '[blk2]'), 'u': (6.0, 's')}
    else:
        Bt = ['p float = %r %s' % (y, '[blk]' if has_unit else 'm'), 'q float = 1 m', 'q = {?p}']
        expB = {'p': (y, '[blk]' if has_unit else 'm'), 'q': (y * (k if has_unit else 1.0), 'm')}
    textA, textB = '\n'.join(A) + '\n', '\n'.join(Bt) + '\n'
    sample = dict(base=base_text, stage_a=textA, stage_b=textB, stage_a_must_fail=violate)
    kind, base = real_parse(ctx, base_text, tag='sb')
    if kind != 'ok':
        devs.append(dev('staged-base:base-text-rejected', dict(text=base_text, exc=repr(base)[:200])))
        return outcome(classes=classes, nontrivial=True, fp='stbase ' + repr(c), dev=devs, monitors=mon, sample=sample)
    s0 = snap(base)
    base_keys = [n.name for n in base.nodes.nodes]

    def data_of(env):
        from scinumtools.dip.settings import Format
        return {kk: (plain(v[0]), v[1]) if isinstance(v, tuple) else (plain(v), None) for kk, v in env.data(Format.TUPLE).items()}

    def judge(tag, text, exp, must_fail):
        kind, env = real_parse(ctx, text, base=base, tag='st')
        mon['base_snapshots_compared'] += 1
        if snap(base) != s0:
            devs.append(dev('staged-base:base-environment-changed(%s-base)' % ('node-less' if not base_keys else 'with-nodes'),
                            dict(stage=tag, before=s0[:500], after=snap(base)[:500])))
        if kind == 'ok' and env is base:
            devs.append(dev('staged-base:parse-returns-the-base-environment-itself', dict(stage=tag)))
        if must_fail:
            classes.append('staged-base:inherited-condition-violated-through-another-node')
            if kind == 'ok':
                devs.append(dev('staged-base:inherited-node-condition-false-but-accepted(%s)' % c['cond'], dict(base=base_text, stage=text, data=repr(data_of(env))[:300])))
            return
        if kind != 'ok':
            devs.append(dev('staged-base:valid-stage-rejected', dict(stage=tag, base=base_text, text=text, exc=repr(env)[:200])))
            return
        try:
            d = data_of(env)
        except Exception as e:
            devs.append(dev('staged-base:environment-unreadable', dict(stage=tag, exc=repr(e)[:200])))
            return
        bad = {}
        for kk, (ev, eu) in exp.items():
            o = d.get(kk)
            if o is None or o[1] != eu or not ((isinstance(ev, str) and o[0] == ev) or (not isinstance(ev, str) and not isinstance(o[0], str) and close(o[0], ev, 1e-9))):
                bad[kk] = dict(observed=o, expected=(ev, eu))
        extra = [kk for kk in d if kk not in exp and kk not in base_keys]
        if bad or extra:
            devs.append(dev('staged-base:stage-result-differs', dict(stage=tag, differing=bad, unexpected_nodes=extra, base=base_text, text=text)))

    judge('A', textA, expA, violate)
    judge('B-after-A', textB, expB, False)
    if violate:
        classes.append('staged-base:must-fail-stage')
    return outcome(classes=classes, nontrivial=True, fp='stbase ' + repr(c), dev=devs, monitors=mon, sample=sample)


# ------------------------------------------------------------------------------------------------ sourced file with a custom unit of the host's name
# "a sourced file is parsed on its own": it may define a custom unit whose NAME the host (the main text, or the base
# environment) also uses, with another size.  Values the sourced file exposes in ordinary units arrive by injection / import
# exactly as the file alone computes them; the host keeps its own unit.

def gen_srcunit(rng):
    return dict(stage='srcunit', host_k=rng.choice([2.0, 5.0, 0.5]), remote_k=rng.choice([1.0, 3.0, 20.0]), w=rng.choice([3.0, 4.0, 7.0]),
                host=rng.choice(['main-text', 'main-text', 'base-environment', 'no-custom-unit', 'other-name', 'unit-after-source']),
                count=rng.choice([4, 12]), api=rng.random() < 0.3)


def run_srcunit(c, ctx, real_parse):
    import os, tempfile, shutil
    devs, classes = [], ['sourced-file-defines-a-custom-unit', 'sourced-file-custom-unit:host-' + c['host']]
    mon = dict(sourced_custom_unit_programs=1)
    hk, rk, w = c['host_k'], c['remote_k'], c['w']
    gap_mm = w * rk * 10.0                      # w [len] with [len] = rk cm, expressed in mm
    remote = ['$unit len = %r cm' % rk, 'width float = %r [len]' % w, 'gap float = 5 mm', 'gap = {?width}', 'count int = %d' % c['count']]
    d = tempfile.mkdtemp(prefix='c17su_')
    try:
        path = os.path.join(d, 'parts.dip')
        with open(path, 'w') as f:
            f.write('\n'.join(remote) + '\n')
        unit_line = {'main-text': '$unit len = %r m' % hk, 'base-environment': None, 'no-custom-unit': None, 'other-name': '$unit span = %r m' % hk,
                     'unit-after-source': None}[c['host']]
        uname = 'span' if c['host'] == 'other-name' else 'len'
        has_unit = c['host'] != 'no-custom-unit'
        main = ([unit_line] if unit_line else []) + ['$source parts = %s' % path]
        if c['host'] == 'unit-after-source':
            main.append('$unit len = %r m' % hk)
        if has_unit:
            main.append('room float = 4 [%s]' % uname)
        main += ['slot float = {parts?gap}', 'rail float = 1 m', 'rail = {parts?gap}', 'n int = {parts?count}', 'box', '  {parts?gap}']
        text = '\n'.join(main) + '\n'
        base = None
        if c['host'] == 'base-environment':
            kind, base = real_parse(ctx, '$unit len = %r m\n' % hk, tag='su0')
            if kind != 'ok':
                devs.append(dev('sourced-custom-unit:base-text-rejected', dict(exc=repr(base)[:200])))
                return outcome(classes=classes, nontrivial=True, fp='srcunit ' + repr(c), dev=devs, monitors=mon, sample=dict(main=text, remote=remote))
        if c.get('api') and c['host'] in ('main-text', 'no-custom-unit', 'other-name'):
            # the same program with the source (and the host's unit) registered through the API calls add_unit / add_source
            classes.append('sourced-file-custom-unit:registered-through-the-api')
            rest = [l for l in main if not l.startswith('$')]
            from vt.props import c17 as C17

            def go():
                pp = ctx['DIP'](name=C17.unique(ctx, 'sua'))
                ctx['keep'].append(pp)
                if unit_line:
                    pp.add_unit(uname, hk, 'm')
                pp.add_source('parts', path)
                pp.add_string('\n'.join(rest) + '\n')
                return pp.parse()
            kind, env, _steps = ctx['guard'].run(go)
            text = '# add_unit(%r, %r, "m"); add_source("parts", path)\n' % (uname, hk) + '\n'.join(rest) + '\n'
        else:
            kind, env = real_parse(ctx, text, base=base, tag='su')
        sample = dict(main=text, remote='\n'.join(remote), base='$unit len = %r m' % hk if base is not None else None)
        if kind != 'ok':
            devs.append(dev('sourced-custom-unit:valid-program-rejected(host-%s)' % c['host'], dict(sample, exc=repr(env)[:200])))
        else:
            from scinumtools.dip.settings import Format
            dd = env.data(Format.TUPLE)
            exp = {'slot': (gap_mm, 'mm'), 'rail': (gap_mm / 1000.0, 'm'), 'n': (c['count'], None), 'box.gap': (gap_mm, 'mm')}
            if has_unit:
                exp['room'] = (4.0, '[%s]' % uname)
            bad = {}
            for kk, (ev, eu) in exp.items():
                o = dd.get(kk)
                ov, ou = (o[0], o[1]) if isinstance(o, tuple) else (o, None)
                if o is None or ou != eu or not close(plain(ov), ev, 1e-9):
                    bad[kk] = dict(observed=repr(o), expected=(ev, eu))
            if bad or sorted(dd) != sorted(exp):
                devs.append(dev('sourced-custom-unit:delivered-values-differ(host-%s)' % c['host'], dict(sample, differing=bad, keys=sorted(dd))))
    finally:
        shutil.rmtree(d, ignore_errors=True)
    return outcome(classes=classes, nontrivial=True, fp='srcunit ' + repr(c), dev=devs, monitors=mon, sample=dict(main=text, remote='\n'.join(remote)))
