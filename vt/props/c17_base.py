"""C17 / C16 side family: several programs parsed one after the other ON TOP of one base environment.

"Parsing on top of a previously parsed environment ... leaves that environment's nodes and units unchanged" (C17), for
every kind of base: one that holds nodes, and a shared preamble that holds only $unit directives (no node at all).
  * the returned environment is a new object, the base reports the same nodes and units as before (snapshot),
  * a second, independent program parsed on the same base gets exactly what it would get on a fresh copy of the base
    (nothing of the first program is visible to it),
  * values of the stage programs are the closed-form ones (custom unit of the base usable, injection of a base node).
"A returned environment satisfies every constraint" (C16), also for constraints that sit on nodes INHERITED from the base
and refer to other nodes: a stage that modifies the referenced node so that the inherited node's condition is false
must be rejected; the same stage with a harmless value is accepted."""
from vt.core import outcome, dev
from vt.util import close, plain


def gen(rng):
    return dict(stage='base', base=rng.choice(['units-only', 'units-only', 'nodes', 'nodes-and-units']), k=rng.choice([2, 5, 0.5]),
                x=rng.choice([3, 4, 10]), y=rng.choice([7, 1.5, 20]), limit=rng.choice([10, 50]), bad=rng.random() < 0.5,
                cond=rng.choice(['lt', 'le-bound', 'bool']), second=rng.choice(['same-names', 'other-names']))


def snap(env):
    nodes = []
    for n in env.nodes.nodes:
        v = n.value
        nodes.append((n.name, n.keyword, plain(v.value) if hasattr(v, 'value') else repr(v), getattr(v, 'unit', None), getattr(n, 'condition', None),
                      bool(getattr(n, 'constant', False))))
    units = sorted((k, repr(getattr(u, 'value', None)), getattr(u, 'unit', None) if not isinstance(u, dict) else repr(u)) for k, u in dict(env.units.units).items()) \
        if hasattr(env.units, 'units') else repr(env.units)
    return repr((nodes, units))


def run(c, ctx, real_parse):
    devs, classes = [], ['staged-base', 'staged-base:' + c['base']]
    mon = dict(staged_base_programs=1, base_snapshots_compared=0)
    k, x, y = float(c['k']), float(c['x']), float(c['y'])
    B = []
    if c['base'] in ('units-only', 'nodes-and-units'):
        B.append('$unit blk = %r m' % k)
    if c['base'] in ('nodes', 'nodes-and-units'):
        B += ['box', '  size float = %r cm' % float(c['limit']), 'inner float = 1 cm', '  !condition ("{?} < {?box.size}")' if c['cond'] != 'bool' else '  !condition ("{?} < 1e6 cm")',
              'rad bool = true', 'cool bool = true', '  !condition ("~{?} || {?rad}")']
    base_text = '\n'.join(B) + '\n'
    has_unit = c['base'] != 'nodes'
    has_nodes = c['base'] != 'units-only'
    # stage A
    # (a definition `s float = {?w} cm` would keep the number and take it in cm; the conversion applies to a modification)
    A = ['w float = %r %s' % (x, '[blk]' if has_unit else 'm'), 's float = 1 cm', 's = {?w}', 'n int = 3']
    expA = {'w': (x, '[blk]' if has_unit else 'm'), 's': (x * (k if has_unit else 1.0) * 100.0, 'cm'), 'n': (3, None)}
    violate = has_nodes and c['bad']
    if has_nodes:
        if c['cond'] == 'bool':
            A.append('rad = %s' % ('false' if violate else 'true'))
        elif c['cond'] == 'le-bound':
            A.append('box.size = %s' % ('10 mm' if violate else '%r cm' % (float(c['limit']) + 5)))      # 10 mm = 1 cm: "inner < size" is false on the bound
        else:
            A.append('box.size = %s' % ('0.5 cm' if violate else '%r cm' % (float(c['limit']) * 2)))
    # stage B (independent of A)
    if c['second'] == 'same-names':
        Bt = ['w int = 9', 's str = "text"', '$unit blk2 = 3 s', 't float = 2 [blk2]', 'u float = 1 s', 'u = {?t}']
        expB = {'w': (9, None), 's': ('text', None), 't': (2.0, '[blk2]'), 'u': (6.0, 's')}
    else:
        Bt = ['p float = %r %s' % (y, '[blk]' if has_unit else 'm'), 'q float = 1 m', 'q = {?p}']
        expB = {'p': (y, '[blk]' if has_unit else 'm'), 'q': (y * (k if has_unit else 1.0), 'm')}
    textA, textB = '\n'.join(A) + '\n', '\n'.join(Bt) + '\n'
    sample = dict(base=base_text, stage_a=textA, stage_b=textB, stage_a_must_fail=violate)
    kind, base = real_parse(ctx, base_text, tag='sb')
    if kind != 'ok':
        devs.append(dev('staged-base:base-text-rejected', dict(text=base_text, exc=repr(base)[:200])))
        return outcome(classes=classes, nontrivial=True, fp='stbase ' + repr(c), dev=devs, monitors=mon, sample=sample)
    s0 = snap(base)
    base_keys = [n.name for n in base.nodes.nodes]

    def data_of(env):
        from scinumtools.dip.settings import Format
        return {kk: (plain(v[0]), v[1]) if isinstance(v, tuple) else (plain(v), None) for kk, v in env.data(Format.TUPLE).items()}

    def judge(tag, text, exp, must_fail):
        kind, env = real_parse(ctx, text, base=base, tag='st')
        mon['base_snapshots_compared'] += 1
        if snap(base) != s0:
            devs.append(dev('staged-base:base-environment-changed(%s-base)' % ('node-less' if not base_keys else 'with-nodes'),
                            dict(stage=tag, before=s0[:500], after=snap(base)[:500])))
        if kind == 'ok' and env is base:
            devs.append(dev('staged-base:parse-returns-the-base-environment-itself', dict(stage=tag)))
        if must_fail:
            classes.append('staged-base:inherited-condition-violated-through-another-node')
            if kind == 'ok':
                devs.append(dev('staged-base:inherited-node-condition-false-but-accepted(%s)' % c['cond'], dict(base=base_text, stage=text, data=repr(data_of(env))[:300])))
            return
        if kind != 'ok':
            devs.append(dev('staged-base:valid-stage-rejected', dict(stage=tag, base=base_text, text=text, exc=repr(env)[:200])))
            return
        try:
            d = data_of(env)
        except Exception as e:
            devs.append(dev('staged-base:environment-unreadable', dict(stage=tag, exc=repr(e)[:200])))
            return
        bad = {}
        for kk, (ev, eu) in exp.items():
            o = d.get(kk)
            if o is None or o[1] != eu or not ((isinstance(ev, str) and o[0] == ev) or (not isinstance(ev, str) and not isinstance(o[0], str) and close(o[0], ev, 1e-9))):
                bad[kk] = dict(observed=o, expected=(ev, eu))
        extra = [kk for kk in d if kk not in exp and kk not in base_keys]
        if bad or extra:
            devs.append(dev('staged-base:stage-result-differs', dict(stage=tag, differing=bad, unexpected_nodes=extra, base=base_text, text=text)))

    judge('A', textA, expA, violate)
    judge('B-after-A', textB, expB, False)
    if violate:
        classes.append('staged-base:must-fail-stage')
    return outcome(classes=classes, nontrivial=True, fp='stbase ' + repr(c), dev=devs, monitors=mon, sample=sample)
