"""pytest plugin used by the C16 check (thorough tier): runs the repository's own DIP tests with the C16
post-condition attached to the real DIP.parse in record-only mode and writes what was recorded to $VT_C16_RECORD.

    python -m pytest -p vt.props.c16_pytest_plugin tests/dip
"""
import os
import json


def pytest_configure(config):
    from vt.refmodel import dip_ref_c16 as R
    R.attach_parse_contract('record')


def pytest_unconfigure(config):
    from vt.refmodel import dip_ref_c16 as R
    path = os.environ.get('VT_C16_RECORD')
    if path:
        with open(path, 'w') as f:
            json.dump(dict(evaluations=R.PARSE_MONITOR['parse_postcondition_evaluations'],
                           deviations=R.PARSE_MONITOR['deviations']), f, default=repr)
