"""C18 — DIP expressions compute unit-aware results under the documented priorities.

Three reference evaluators (vt/refmodel/dip_ref_c18.py) over generated ASTs; the real code only sees the rendered
DIP text / expression strings.  Every expression is observed twice: through the solver class
(NumericalSolver / LogicalSolver / TemplateSolver on the parsed environment) and through the value of a node
`res <type> = ("<expression>") <unit>` after DIP.parse().  Recorded defects are recognised by mechanism
(construct present AND exactly the outcome that defect produces); everything else is a new violation.
"""
import math
from vt.core import outcome, dev
from vt.util import close, exc_sig
from vt.refmodel import dip_ref_c18 as R
from vt.refmodel.dip_ref_c17 import StepGuard

ID = 'C18'
LEVEL = 'exploration'
RULE = ('random environments (float/int/bool/str nodes, arrays, groups, optional $units) + random ASTs of the three '
        'expression grammars: numerical (flat + - * / sequences, parentheses, exp pow log log10 sqrt sin cos tan, '
        'literals with units, references, requested unit of the right dimension, dimension-mismatch variants), '
        'logical (comparisons outside the ambiguous band, ~, !{ref}, && and || mixes, parentheses) and templates '
        '(text, {{ref}[slice]:format}); plus programs of 2-4 chained expression nodes. Each observed through the '
        'solver class and through a node value after DIP.parse(). Non-trivial = numerical with >=2 operators or a '
        'function, logical with >=2 operands or a negation, template with a slice or a format, any program; '
        'distinct by (environment text, expression text, requested unit)')
SHARDS = {'quick': 16, 'thorough': 16}
MIN_NONTRIVIAL = {'quick': 1500, 'thorough': 60000}
NCASES = {'quick': 3300, 'thorough': 160000}
TIME_CAP = {'quick': 300, 'thorough': 3600}

KEY_CUSTOM = 'C18-custom-unit-breaks-numerical-expression'
KEY_NEGEQ = 'C18-negated-equality-raises'
KEY_INTLIT = 'C18-int-node-equals-float-raises'
KEY_INTNODE = 'C18-int-node-vs-float-node-comparison-raises'
KEY_TWOLIT = 'C18-two-literal-comparison-untyped'
KEY_NOUNIT = 'C18-unitless-expression-node-cannot-be-cast'
KEY_FALSEEQ = 'C18-false-equality-node-left-without-value'
KEY_UNITDEF = 'C18-custom-unit-definition-drops-unit-magnitude'
KEY_NESTED = 'C18-function-nested-in-same-function-unclosed-parenthesis'

_PAIRS = ['+ then *', '+ then /', '- then *', '- then /', '* then +', '* then -', '/ then +', '/ then -',
          '- then +', '- then -', '+ then -', '/ then *', '/ then /', '* then /']
REQUIRED_CLASSES = (['inclusive-comparison:negative', 'inclusive-comparison:equal', 'int-node-from-expression-with-whole-exact-result', 'definedness-by-state:declared-value-later', 'definedness-by-state:absent-nothing-defined-yet', 'definedness-by-state:defined-further-down', 'equality-tolerance:inside', 'equality-tolerance:outside', 'equality-tolerance:other-unit', 'function-argument-in-dimensionless-unit'] + ['function-argument:' + f for f in ('exp', 'log', 'log10', 'sin', 'cos', 'tan', 'sqrt', 'pow-exponent', 'pow-base')] +
                    ['num-op:' + o for o in '+-*/'] + ['num-par', 'num-ref', 'num-lit', 'num-negative-literal'] +
                    ['num-fn:' + f for f in ('exp', 'pow', 'log', 'log10', 'sqrt', 'sin', 'cos', 'tan')] +
                    ['num-pair:' + p for p in _PAIRS] +
                    ['num-dimension-mismatch', 'num-custom-unit-env', 'num-custom-unit-used', 'num-dimensionless-result',
                     'num-compound-result-unit'] +
                    ['log-cmp:' + o for o in ('==', '!=', '<', '>', '<=', '>=')] +
                    ['log-op:&&', 'log-op:||', 'log-pair:&& then ||', 'log-pair:|| then &&', 'log-par', 'log-not',
                     'log-negated-equality', 'log-negated-comparison', 'log-defined-test', 'log-not-defined', 'log-bool-ref',
                     'log-mixed-int-node-float-literal', 'log-mixed-int-node-float-node', 'log-two-literals',
                     'log-equal-within-band', 'log-unequal-beyond-band', 'log-units-differ', 'log-custom-unit-env'] +
                    ['tpl-ref', 'tpl-slice', 'tpl-slice-range', 'tpl-slice-index', 'tpl-format', 'tpl-slice-and-format',
                     'tpl-str-default', 'tpl-plain-brace'] +
                    ['via-solver', 'via-node', 'program', 'modified-reference', 'modified-reference:mul', 'modified-reference:logical', 'modified-reference:template', 'modified-reference:solver-call', 'modified-reference:declared-then-assigned', 'node-vs-node-comparison', 'node-vs-node:int-left-converts-to-non-integer', 'node-vs-node:left-int-right-float', 'node-vs-node:left-float-right-int', 'node-vs-node:bool-node', 'node-vs-node:case', 'node-vs-node:condition', 'node-vs-node:solver-call', 'dimensionless-result', 'dimensionless-result:%', 'dimensionless-result:custom-dozen', 'dimensionless-result:m-must-fail', 'dimensionless-result:none'])
REQUIRED_MONITORS = ['dimensionless_result_programs', 'node_vs_node_programs', 'modified_reference_programs', 'solver_results_compared', 'node_results_compared', 'step_guard_runs']
ASSUMPTIONS = [
    'unit factors come from a hand-written table of exact SI factors (mm cm dm m km mg g kg ms s min h N kN J kJ mJ W kW) '
    'plus the $units of the generated text; the repo\'s tables are never read',
    'numerical results are compared with rtol 1e-9 plus 1000x a propagated rounding bound; cases whose bound exceeds '
    '1e-7 relative (cancellation) or whose reference is non-finite are skipped and counted',
    'operands of comparisons are either within 1e-9 or beyond 2e-3 relative distance and >= 1e-4 in both operand units, so '
    'numpy.isclose\'s absolute tolerance 1e-8 plays no role; != with equal operands uses identical text in identical units',
    'not generated: unary minus in front of a reference, ln(...), ~ directly in front of a comparison without parentheses, '
    'comparisons across dimensions or between a dimensional and a plain number, array-valued template references, '
    'non-integer powers of dimensional values, integer nodes defined by expressions whose exact result is NOT whole (how such a result becomes an int is not in the statement; whole exact results are demanded, family int-expression)',
    'a solver result may be a BooleanType, numpy.bool_ or bool; only its truth value is compared',
    'step budget: max(5e6, 200 x largest PY_START|JUMP count of an accepted call in this worker)',
]
EXHAUSTIVE_SUBSPACES = {'quick': [], 'thorough': []}


# ----------------------------------------------------------------------------- setup

def setup():
    import scinumtools                                   # noqa
    from scinumtools.dip import DIP
    from scinumtools.dip.settings import Format
    from scinumtools.dip.solvers import NumericalSolver, LogicalSolver, TemplateSolver
    from vt.monitors.tables import Hygiene
    return dict(DIP=DIP, Format=Format, NS=NumericalSolver, LS=LogicalSolver, TS=TemplateSolver,
                hyg=Hygiene(), guard=StepGuard(), n=0, keep=[], leaks=0)


def teardown(ctx):
    g = ctx['guard']
    g.close()
    return {'monitors': {}, 'max_steps_accepted_call': {'max': g.max_ok}, 'step_budget_floor': {'events': g.floor}}


# ----------------------------------------------------------------------------- generation

def cases(rng, tier, shard, nshards, ctx):
    n = NCASES[tier] // nshards
    for i in range(n):
        r = rng.random()
        if r < 0.40:
            yield gen_num(rng)
        elif r < 0.46:
            yield gen_mismatch(rng)
        elif r < 0.76:
            yield gen_log(rng)
        elif r < 0.90:
            yield gen_tpl(rng)
        else:
            yield gen_prog(rng)
        if i % 8 == 0:
            from vt.props import c18_modref
            yield c18_modref.gen(rng)
        if i % 8 == 4:
            from vt.props import c18_modref
            yield c18_modref.gen_nodecmp(rng)
        if i % 16 == 2:
            from vt.props import c18_modref
            yield c18_modref.gen_dimless(rng)
            yield c18_modref.gen_fnarg(rng)
            yield c18_modref.gen_eqtol(rng)
            yield c18_modref.gen_defstate(rng)
            yield c18_modref.gen_intexpr(rng)
            yield c18_modref.gen_cmpneg(rng)


def gen_num(rng):
    custom = rng.random() < 0.12
    env = R.gen_env(rng, custom)
    g = R.NumGen(rng, env)
    for _ in range(30):
        d = rng.choice(R.DIM_POOL + list(g.by_dim))
        seq = g.sum(d, rng.choice([1, 2, 2]))
        unit = None if d == R.NODIM else R.unit_for_dims(rng, d, g.customs)
        try:
            R.num_expected(seq, env, unit)
            break
        except (R.Undefined, R.DimMismatch):
            continue
    return dict(t='num', env=env, ast=seq, unit=unit)


def gen_mismatch(rng):
    env = R.gen_env(rng, False)
    g = R.NumGen(rng, env)
    seq = g.mismatch(2)
    d = rng.choice([x for x in R.DIM_POOL if x != R.NODIM])
    return dict(t='num', env=env, ast=seq, unit=R.unit_for_dims(rng, d, None), mismatch=True)


def gen_log(rng):
    env = R.gen_env(rng, rng.random() < 0.12)
    g = R.LogGen(rng, env, mixed=0.3, two_lit=0.05)
    return dict(t='log', env=env, ast=g.tree(rng.choice([1, 2, 2])))


def gen_tpl(rng):
    env = R.gen_env(rng, False)
    return dict(t='tpl', env=env, ast=R.TplGen(rng, env).gen())


def gen_prog(rng):
    """2-4 chained expression nodes; later ones refer to earlier results"""
    env = R.gen_env(rng, False)
    work = dict(nodes=[dict(n) for n in env['nodes']], units=[])
    steps = []
    k = 0
    for _ in range(rng.randint(2, 4)):
        r = rng.random()
        if r < 0.5 or not steps:
            g = R.NumGen(rng, work)
            for _ in range(30):
                d = rng.choice([x for x in R.DIM_POOL + list(g.by_dim) if x != R.NODIM])
                seq = g.sum(d, 1)
                unit = R.unit_for_dims(rng, d, None)
                try:
                    v, slack, _ = R.num_expected(seq, work, unit)
                    break
                except (R.Undefined, R.DimMismatch):
                    continue
            else:
                continue
            k += 1
            name = 'r%d' % k
            steps.append(dict(kind='num', name=name, ast=seq, unit=unit))
            work['nodes'].append(dict(path=name, type='float', value=v, unit=unit, computed=True,
                                      relerr=slack / abs(v), text=None, nocmp=not (1 <= abs(v) <= 1e9)))
        elif r < 0.8:
            g = R.LogGen(rng, work, mixed=0.0, two_lit=0.0)
            g.triggers = 1          # no recorded-defect triggers inside programs
            tree = g.tree(1, minitems=2)
            try:
                val = R.LogEval(work).node(tree)[0]
            except R.Undefined:
                continue
            k += 1
            name = 'r%d' % k
            steps.append(dict(kind='log', name=name, ast=tree))
            work['nodes'].append(dict(path=name, type='bool', value=val, computed=True, text='true' if val else 'false'))
        else:
            parts = R.TplGen(rng, work).gen()
            try:
                R.tpl_expected(parts, work)
            except R.Undefined:
                continue
            k += 1
            name = 'r%d' % k
            steps.append(dict(kind='tpl', name=name, ast=parts))
            work['nodes'].append(dict(path=name, type='str', value=R.tpl_expected(parts, work), computed=True,
                                      text=R.tpl_expected(parts, work), notpl=True))
    return dict(t='prog', env=env, steps=steps)


# ----------------------------------------------------------------------------- running the real code

def unique(ctx):
    ctx['n'] += 1
    return 'c18x%d' % ctx['n']


def parse_text(ctx, text):
    """-> ('ok', env) | ('exc', exception) | ('budget', None)"""
    def go():
        p = ctx['DIP'](name=unique(ctx))
        ctx['keep'].append(p)
        p.add_string(text)
        return p.parse()
    kind, res, steps = ctx['guard'].run(go)
    return kind, res


def truth(r):
    v = r.value if hasattr(r, 'value') and not isinstance(r, (bool, int, float)) else r
    if hasattr(v, 'item'):
        v = v.item()
    return v


def node_read(env, name, ctx):
    """-> ('value', v, unit) | ('unreadable', why) | ('missing',)"""
    for n in env.nodes.nodes:
        if n.name == name:
            if n.value is None:
                return ('unreadable', 'node has no value')
            v = n.value.value
            return ('value', v.item() if hasattr(v, 'item') else v, getattr(n.value, 'unit', None))
    return ('missing',)


def is_custom_clash(e, customs):
    return (type(e) is Exception and len(e.args) >= 2 and e.args[0] == 'Unit with this symbol already exists:'
            and e.args[1] in customs)


def same_function_nested(seq, inside=frozenset()):
    """does some function call contain (at any depth of its argument texts) a call of the same function?"""
    for x in seq[1][0::2]:
        if x[0] == 'par':
            if same_function_nested(x[1], inside):
                return True
        elif x[0] == 'fn':
            if x[1] in inside:
                return True
            if any(same_function_nested(a, inside | {x[1]}) for a in x[2]):
                return True
    return False


def is_unclosed(e):
    return type(e) is Exception and len(e.args) >= 1 and e.args[0] == 'Unclosed parenthesis in'


def is_nounit_cast(e):
    return (type(e) is Exception and len(e.args) >= 3 and e.args[0] == 'Could not convert raw value to type:'
            and type(e.args[2]).__name__ == 'Quantity')


def run_case(case, ctx):
    ctx['keep'] = []
    try:
        if case['t'] == 'modref':
            from vt.props import c18_modref
            out = c18_modref.run(case, ctx, parse_text)
        elif case['t'] == 'nodecmp':
            from vt.props import c18_modref
            out = c18_modref.run_nodecmp(case, ctx, parse_text)
        elif case['t'] == 'eqtol':
            from vt.props import c18_modref
            out = c18_modref.run_eqtol(case, ctx, parse_text)
        elif case['t'] == 'cmpneg':
            from vt.props import c18_modref
            out = c18_modref.run_cmpneg(case, ctx, parse_text)
        elif case['t'] == 'intexpr':
            from vt.props import c18_modref
            out = c18_modref.run_intexpr(case, ctx, parse_text)
        elif case['t'] == 'defstate':
            from vt.props import c18_modref
            out = c18_modref.run_defstate(case, ctx, parse_text)
        elif case['t'] == 'fnarg':
            from vt.props import c18_modref
            out = c18_modref.run_fnarg(case, ctx, parse_text)
        elif case['t'] == 'dimless':
            from vt.props import c18_modref
            out = c18_modref.run_dimless(case, ctx, parse_text)
        else:
            out = {'num': run_num, 'log': run_log, 'tpl': run_tpl, 'prog': run_prog}[case['t']](case, ctx)
    finally:
        ctx['keep'] = []
        leak = ctx['hyg'].check_restore()
    out['monitors']['table_leaks_restored'] = out['monitors'].get('table_leaks_restored', 0) + (1 if leak else 0)
    out['monitors']['step_guard_runs'] = ctx['guard'].take_runs()
    return out


def budget_dev(what):
    return dev('no-result-within-step-budget', dict(call=what))


# ---- numerical

def run_num(case, ctx):
    env, seq, unit = case['env'], case['ast'], case.get('unit')
    customs = R.customs_of(env.get('units'))
    text = R.render_env(env)
    expr = R.render_num(seq)
    ustr = R.render_unit(unit)
    classes = set(R.num_operators(seq)) | {'via-solver', 'via-node'}
    mism = False
    try:
        exp_v, slack, dims = R.num_expected(seq, env, unit)
    except R.DimMismatch:
        mism = True
        exp_v = slack = None
    except R.Undefined as e:
        return outcome(skip='numerical reference undefined: ' + str(e.args[0]), monitors={})
    if case.get('mismatch') and not mism:
        return outcome(skip='mismatch generator produced a well-formed sum', monitors={})
    twin_v = None
    if customs and not mism and R.bad_customs(env.get('units')):
        try:
            twin_v = R.num_expected(seq, env, unit, twin=True)[0]
        except Exception:
            twin_v = None
    if mism:
        classes.add('num-dimension-mismatch')
    if customs:
        classes.add('num-custom-unit-env')
        used = ('[' in expr) or ('[' in (ustr or '')) or any(
            n.get('unit') and any(s.startswith('[') for s, _ in n['unit']) and ('{?%s}' % n['path']) in expr for n in env['nodes'])
        if used:
            classes.add('num-custom-unit-used')
    if not mism:
        if unit is None:
            classes.add('num-dimensionless-result')
        elif len(unit) > 1 or unit[0][1] != 1:
            classes.add('num-compound-result-unit')
    nested = same_function_nested(seq)
    if nested:
        classes.add('num-function-nested-in-same-function')
    devs, mon = [], {'solver_results_compared': 0, 'node_results_compared': 0}
    sample = dict(environment=text, expression=expr, requested_unit=ustr, expected='raise (dimension mismatch)' if mism else exp_v)

    def judge(kind, res, via):
        """kind/res of an observation that should yield the number exp_v (or raise if mism)"""
        if kind == 'budget':
            devs.append(budget_dev(via))
            return
        if kind == 'exc':
            sample['observed_' + via] = exc_sig(res)
            if mism:
                return
            if customs and is_custom_clash(res, customs):
                devs.append(dev('numerical-expression-rejected', dict(via=via, exc=exc_sig(res), expr=expr), known=KEY_CUSTOM))
            elif nested and is_unclosed(res):
                devs.append(dev('numerical-expression-rejected', dict(via=via, exc=exc_sig(res), expr=expr), known=KEY_NESTED))
            elif via == 'node' and unit is None and is_nounit_cast(res):
                devs.append(dev('numerical-expression-rejected', dict(via=via, exc=exc_sig(res), expr=expr), known=KEY_NOUNIT))
            else:
                devs.append(dev('numerical-expression-rejected', dict(via=via, exc=exc_sig(res), expr=expr, unit=ustr, env=text)))
            return
        sample['observed_' + via] = res
        if mism:
            devs.append(dev('dimension-mismatch-accepted', dict(via=via, expr=expr, result=repr(res), env=text)))
            return
        try:
            ok = close(float(res), exp_v, 1e-9, slack)
        except Exception:
            ok = False
        if not ok:
            try:
                as_twin = twin_v is not None and close(float(res), twin_v, 1e-9, slack)
            except Exception:
                as_twin = False
            devs.append(dev('numerical-value-differs', dict(via=via, expr=expr, unit=ustr, expected=exp_v, observed=repr(res), env=text),
                            known=KEY_UNITDEF if as_twin else None))

    # (A) solver class on the parsed environment
    kind, envobj = parse_text(ctx, text)
    if kind != 'ok':
        devs.append(budget_dev('parse environment') if kind == 'budget' else
                    dev('plain-environment-rejected', dict(env=text, exc=exc_sig(envobj))))
    else:
        k, r, _ = ctx['guard'].run(lambda: ctx['NS'](envobj).solve(expr, ustr or '1'))
        mon['solver_results_compared'] += 1
        judge(k, r, 'solver')
    # (B) node value after parse
    line = 'res float = ("%s")%s\n' % (expr, (' ' + ustr) if ustr else '')
    kind, envobj2 = parse_text(ctx, text + line)
    mon['node_results_compared'] += 1
    if kind != 'ok':
        judge(kind, envobj2, 'node')
    else:
        got = node_read(envobj2, 'res', ctx)
        if got[0] != 'value':
            if mism:
                devs.append(dev('dimension-mismatch-accepted', dict(via='node', expr=expr, env=text)))
            else:
                devs.append(dev('expression-node-unreadable', dict(expr=expr, env=text, why=got)))
        else:
            judge('ok', got[1], 'node')
            if not mism and (got[2] or None) != ustr:
                devs.append(dev('expression-node-unit-differs', dict(expr=expr, expected=ustr, observed=got[2])))
    nops = len(seq[1]) // 2
    return outcome(classes=sorted(classes), nontrivial=(nops >= 2 or any(c.startswith('num-fn') for c in classes)),
                   fp='num|%s|%s|%s' % (text, expr, ustr), dev=devs, monitors=mon, sample=sample)


# ---- logical

def mixed_classes(tree, env, acc):
    idx = R.env_index(env)
    customs = R.customs_of(env.get('units'))

    def walk(node):
        for a in node[1]:
            for it in a[1]:
                visit(it)

    def visit(it):
        if it[0] == 'not':
            visit(it[1])
        elif it[0] == 'par':
            walk(it[1])
        elif it[0] == 'cmp':
            A, B = R.operand_info(it[2], idx, customs), R.operand_info(it[3], idx, customs)
            if A['kind'] == 'ref' and B['kind'] == 'ref' and {A['type'], B['type']} == {'int', 'float'}:
                acc.add('log-mixed-int-node-float-node')
            for n, l in ((A, B), (B, A)):
                if n['kind'] == 'ref' and n['type'] == 'int' and l['kind'] == 'lit':
                    if not l['raw'].lstrip('+-').isdigit() or R.render_unit(l['unit']) != R.render_unit(n['unit']):
                        acc.add('log-mixed-int-node-float-literal')
            if R.render_unit(A['unit']) != R.render_unit(B['unit']):
                acc.add('log-units-differ')
            d = R.reldist(A['base'], B['base'])
            acc.add('log-equal-within-band' if d <= 1e-9 else 'log-unequal-beyond-band')
    walk(tree)


def run_log(case, ctx):
    env, tree = case['env'], case['ast']
    text = R.render_env(env)
    expr = R.render_log(tree)
    classes = set(R.log_classes(tree)) | {'via-solver', 'via-node'}
    try:
        mixed_classes(tree, env, classes)
        good = R.LogEval(env).node(tree)[0]
    except R.Undefined as e:
        return outcome(skip='logical reference undefined: ' + str(e.args[0]), monitors={})
    if env.get('units'):
        classes.add('log-custom-unit-env')
    # buggy twins: all construct-level defects on, with and without the (environment-level) unit-definition defect
    twins = []
    for unitdef in ((True, False) if R.bad_customs(env.get('units')) else (False,)):
        tw = R.LogEval(env, twin=True, unitdef=unitdef)
        try:
            res = ('value',) + tuple(tw.node(tree))
        except R.TwinRaise as t:
            res = ('raise', t.key, t.sig)
        twins.append((res, sorted(tw.used)))
    devs, mon = [], {'solver_results_compared': 0, 'node_results_compared': 0}
    sample = dict(environment=text, expression=expr, expected=good)

    def judge_exc(e, via):
        sample['observed_' + via] = exc_sig(e)
        for twin, used in twins:
            if twin[0] == 'raise':
                tnames, frag = twin[2]
                if type(e).__name__ in tnames.split('|') and any(f in str(e) for f in frag.split('|')):
                    devs.append(dev('logical-expression-rejected', dict(via=via, exc=exc_sig(e), expr=expr), known=twin[1]))
                    return
        devs.append(dev('logical-expression-rejected', dict(via=via, exc=exc_sig(e), expr=expr, env=text)))

    def judge_val(v, via):
        sample['observed_' + via] = v
        if not isinstance(v, bool):
            devs.append(dev('logical-result-not-boolean', dict(via=via, expr=expr, observed=repr(v))))
        elif v != good:
            for twin, used in twins:
                if twin[0] == 'value' and used and (twin[1] == ('either',) or twin[1] == v):
                    for key in used:
                        devs.append(dev('logical-value-differs', dict(via=via, expr=expr, expected=good, observed=v), known=key))
                    return
            devs.append(dev('logical-value-differs', dict(via=via, expr=expr, expected=good, observed=v, env=text)))

    kind, envobj = parse_text(ctx, text)
    if kind != 'ok':
        devs.append(budget_dev('parse environment') if kind == 'budget' else
                    dev('plain-environment-rejected', dict(env=text, exc=exc_sig(envobj))))
    else:
        k, r, _ = ctx['guard'].run(lambda: ctx['LS'](envobj).solve(expr))
        mon['solver_results_compared'] += 1
        if k == 'budget':
            devs.append(budget_dev('LogicalSolver.solve'))
        elif k == 'exc':
            judge_exc(r, 'solver')
        else:
            judge_val(truth(r), 'solver')
    kind, envobj2 = parse_text(ctx, text + 'res bool = ("%s")\n' % expr)
    mon['node_results_compared'] += 1
    if kind == 'budget':
        devs.append(budget_dev('parse with logical node'))
    elif kind == 'exc':
        judge_exc(envobj2, 'node')
    else:
        got = node_read(envobj2, 'res', ctx)
        if got[0] == 'value':
            judge_val(got[1], 'node')
        else:
            sample['observed_node'] = repr(got)
            # recorded: a bare numpy False coming straight from '==' leaves the node without a value
            for twin, used in twins:
                if got[0] == 'unreadable' and twin[0] == 'value' and twin[2] is True and twin[1] is False:
                    if good is False:
                        devs.append(dev('expression-node-unreadable', dict(expr=expr, why=got), known=KEY_FALSEEQ))
                        break
                    if used:
                        for key in used + [KEY_FALSEEQ]:
                            devs.append(dev('expression-node-unreadable', dict(expr=expr, why=got), known=key))
                        break
            else:
                devs.append(dev('expression-node-unreadable', dict(expr=expr, env=text, why=got)))
    nitems = sum(len(a[1]) for a in tree[1])
    return outcome(classes=sorted(classes), nontrivial=(nitems >= 2 or 'log-not' in classes),
                   fp='log|%s|%s' % (text, expr), dev=devs, monitors=mon, sample=sample)


# ---- templates

def run_tpl(case, ctx):
    env, parts = case['env'], case['ast']
    text = R.render_env(env)
    tpl = R.render_tpl(parts)
    classes = set(R.tpl_classes(parts)) | {'via-solver', 'via-node'}
    exp = R.tpl_expected(parts, env)
    devs, mon = [], {'solver_results_compared': 0, 'node_results_compared': 0}
    sample = dict(environment=text, template=tpl, expected=exp)

    def judge(kind, res, via):
        if kind == 'budget':
            devs.append(budget_dev(via))
        elif kind == 'exc':
            sample['observed_' + via] = exc_sig(res)
            devs.append(dev('template-rejected', dict(via=via, template=tpl, exc=exc_sig(res), env=text)))
        else:
            sample['observed_' + via] = res
            if res != exp:
                devs.append(dev('template-text-differs', dict(via=via, template=tpl, expected=exp, observed=res, env=text)))

    kind, envobj = parse_text(ctx, text)
    if kind != 'ok':
        devs.append(budget_dev('parse environment') if kind == 'budget' else
                    dev('plain-environment-rejected', dict(env=text, exc=exc_sig(envobj))))
    else:
        k, r, _ = ctx['guard'].run(lambda: ctx['TS'](envobj).solve(tpl))
        mon['solver_results_compared'] += 1
        judge(k, r, 'solver')
    kind, envobj2 = parse_text(ctx, text + 'res str = ("%s")\n' % tpl)
    mon['node_results_compared'] += 1
    if kind != 'ok':
        judge(kind, envobj2, 'node')
    else:
        got = node_read(envobj2, 'res', ctx)
        if got[0] != 'value':
            devs.append(dev('expression-node-unreadable', dict(template=tpl, env=text, why=got)))
        else:
            judge('ok', got[1], 'node')
    return outcome(classes=sorted(classes), nontrivial=('tpl-slice' in classes or 'tpl-format' in classes),
                   fp='tpl|%s|%s' % (text, tpl), dev=devs, monitors=mon, sample=sample)


# ---- programs

def run_prog(case, ctx):
    env, steps = case['env'], case['steps']
    if len(steps) < 2:
        return outcome(skip='program generator produced fewer than two steps', monitors={})
    work = dict(nodes=[dict(n) for n in env['nodes']], units=[])
    lines = []
    expected = {}
    classes = {'program', 'via-node'}
    try:
        for st in steps:
            if st['kind'] == 'num':
                v, slack, _ = R.num_expected(st['ast'], work, st['unit'])
                u = R.render_unit(st['unit'])
                lines.append('%s float = ("%s") %s' % (st['name'], R.render_num(st['ast']), u))
                expected[st['name']] = ('num', v, slack, u)
                work['nodes'].append(dict(path=st['name'], type='float', value=v, unit=st['unit'], computed=True,
                                          relerr=slack / abs(v), text=None))
                classes |= R.num_operators(st['ast'])
                classes.add('program-numerical-node')
            elif st['kind'] == 'log':
                val = R.LogEval(work).node(st['ast'])[0]
                lines.append('%s bool = ("%s")' % (st['name'], R.render_log(st['ast'])))
                expected[st['name']] = ('log', val)
                work['nodes'].append(dict(path=st['name'], type='bool', value=val, computed=True, text='true' if val else 'false'))
                classes |= R.log_classes(st['ast'])
                classes.add('program-logical-node')
            else:
                s = R.tpl_expected(st['ast'], work)
                lines.append('%s str = ("%s")' % (st['name'], R.render_tpl(st['ast'])))
                expected[st['name']] = ('tpl', s)
                work['nodes'].append(dict(path=st['name'], type='str', value=s, computed=True, text=s, notpl=True))
                classes |= R.tpl_classes(st['ast'])
                classes.add('program-template-node')
    except (R.Undefined, R.DimMismatch) as e:
        return outcome(skip='program reference undefined', monitors={})
    text = R.render_env(env) + '\n'.join(lines) + '\n'
    devs, mon = [], {'node_results_compared': 0}
    sample = dict(program=text, expected={k: v[1] for k, v in expected.items()})
    kind, envobj = parse_text(ctx, text)
    if kind == 'budget':
        devs.append(budget_dev('parse program'))
    elif kind == 'exc':
        sample['observed'] = exc_sig(envobj)
        devs.append(dev('program-rejected', dict(program=text, exc=exc_sig(envobj))))
    else:
        obs = {}
        for name, e in expected.items():
            got = node_read(envobj, name, ctx)
            mon['node_results_compared'] += 1
            obs[name] = got[1] if got[0] == 'value' else repr(got)
            if got[0] != 'value':
                devs.append(dev('expression-node-unreadable', dict(program=text, node=name, why=got)))
            elif e[0] == 'num':
                try:
                    ok = close(float(got[1]), e[1], 1e-9, e[2]) and (got[2] or None) == e[3]
                except Exception:
                    ok = False
                if not ok:
                    devs.append(dev('program-node-differs:numerical', dict(program=text, node=name, expected=e[1:], observed=got[1:])))
            elif got[1] != e[1] or type(got[1]) is not type(e[1]):
                devs.append(dev('program-node-differs:' + ('logical' if e[0] == 'log' else 'template'),
                                dict(program=text, node=name, expected=e[1], observed=got[1])))
        sample['observed'] = obs
    return outcome(classes=sorted(classes), nontrivial=True, fp='prog|' + text, dev=devs, monitors=mon, sample=sample)


# ----------------------------------------------------------------------------- pinned witnesses

def _env(nodes, units=()):
    return dict(nodes=list(nodes), units=list(units))


def pinned(ctx):
    a = dict(path='a', type='float', text='3', unit=[('m', 1)])
    i = dict(path='i', type='int', text='3', unit=None)
    x = dict(path='x', type='float', text='2.5', unit=None)
    one = lambda it: ('or', [('and', [it])])
    return [
        (KEY_CUSTOM, dict(t='num', env=_env([a], [dict(name='ua', text='2', unit=[('m', 1)])]),
                          ast=('seq', [('ref', 'a'), '+', ('lit', '1', [('m', 1)])]), unit=[('cm', 1)])),
        (KEY_NESTED, dict(t='num', env=_env([a]), ast=('seq', [('fn', 'sqrt', [('seq', [('fn', 'sqrt', [('seq', [('lit', '16', None)])])])]),
                                                              '*', ('ref', 'a')]), unit=[('m', 1)])),
        (KEY_NOUNIT, dict(t='num', env=_env([a]), ast=('seq', [('lit', '1', None), '+', ('lit', '2', None)]), unit=None)),
        (KEY_NEGEQ, dict(t='log', env=_env([a]),
                         ast=one(('not', ('par', one(('cmp', '==', ('ref', 'a'), ('lit', '300', [('cm', 1)])))))))),
        (KEY_INTLIT, dict(t='log', env=_env([i]), ast=one(('cmp', '==', ('ref', 'i'), ('lit', '3.0', None))))),
        (KEY_INTNODE, dict(t='log', env=_env([i, x]), ast=one(('cmp', '<', ('ref', 'x'), ('ref', 'i'))))),
        (KEY_TWOLIT, dict(t='log', env=_env([a]), ast=one(('cmp', '<', ('lit', '1', [('m', 1)]), ('lit', '200', [('cm', 1)]))))),
        (KEY_UNITDEF, dict(t='log', env=_env([a], [dict(name='ua', text='2', unit=[('cm', 1)])]),
                           ast=one(('cmp', '<', ('ref', 'a'), ('lit', '100', [('[ua]', 1)]))))),
        (KEY_FALSEEQ, dict(t='log', env=_env([a]), ast=one(('cmp', '==', ('ref', 'a'), ('lit', '4', [('m', 1)]))))),
    ]
