"""C19 - Exported configuration files carry the same values as the environment.

External-reader oracle: a generated environment (structure -> DIP text -> real parser) is exported by the
real ``ExportConfig*`` class; the exported file is read back by the format's own reader (gcc / g++ / gfortran /
rustc printer programs, ``bash`` with ``declare -p``, json / yaml / tomllib loaders, the DIP parser) and the
symbol set, names, declared types, shapes, element order and values are compared with the *structure* the
environment was generated from.  Known defects are recognised by their exact read-back signature (buggy twins)
or, for files that do not compile, by (triggering feature present AND compiler message on that symbol's line);
the symbols so blamed are then removed from the environment and the back-end is run again so that everything
else is still checked strictly.
"""
import os, re, json, math, random, itertools, tempfile, shutil, hashlib
from decimal import Decimal
from vt.core import outcome, dev

ID = 'C19'
LEVEL = 'exploration'
BACKENDS = ['c', 'cpp', 'fortran', 'rust', 'bash', 'json', 'yaml', 'toml', 'dip']
COMPILED = ('c', 'cpp', 'fortran', 'rust')
MAPPED = ('c', 'cpp', 'fortran', 'rust', 'bash')        # back-ends that apply the documented name mapping
DATAFMT = ('json', 'yaml', 'toml')
DTYPES = ['bool', 'int', 'int16', 'int32', 'int64', 'uint', 'uint16', 'uint32', 'uint64',
          'float', 'float32', 'float64', 'float128', 'str']

RULE = ('environments generated from a structure (scalars and rank 1-3 arrays of every DIP dtype/width, none, strings '
        'with blanks / single / double quotes / look-alikes, per-width boundary integers, floats needing 17 digits, '
        'dotted paths, units, tags), rendered to DIP text, parsed by the real parser (pre-condition: parsed environment '
        '== structure), exported by every back-end under option sets (rename on/off, units on/off, define/const lists, '
        'selection by query / tags / both), exported file read back by the format\'s own compiler / interpreter / '
        'loader; non-trivial = case whose selection contains an array, a none, a quoted string, a boundary integer, a '
        '17-digit float or is restricted by query/tags; distinct by (environment structure, back-end, option set)')
SHARDS = {'quick': 16, 'thorough': 16}
NENV = {'quick': 12, 'thorough': 300}
MIN_NONTRIVIAL = {'quick': 120, 'thorough': 4000}
TIME_CAP = {'quick': 900, 'thorough': 5400}
REQUIRED_CLASSES = (['be:' + b for b in BACKENDS] + ['dtype:' + d for d in DTYPES] +
                    ['rank:1', 'rank:2', 'rank:3', 'select:query', 'select:tags', 'rename:on', 'rename:off',
                     'units:on', 'units:off', 'opt:define', 'opt:const', 'value:none', 'str:blank', 'str:dquote',
                     'str:squote', 'str:punctuation', 'str-array-element-with-array-notation-characters', 'int:boundary', 'float:17digits', 'path:dotted', 'has:unit'])
REQUIRED_MONITORS = (['compiles:' + b for b in BACKENDS] + ['symbols_compared:' + b for b in BACKENDS] +
                     ['exports', 'export_history_twins', 'selection_sets_compared'])
ASSUMPTIONS = [
    'values are representable in the declared dtype (integers inside the range of their width/signedness, array '
    'elements <= 2^63-1 because the DIP parser reads arrays through numpy int64, float32 '
    'values inside the normal float32 range); strings are printable ASCII without backslash, $, ` and newline',
    'node names are identifiers that stay distinct (case-insensitively) after the documented mapping and are not '
    'keywords of the target languages; with rename=False the mapped back-ends only get dot-free names',
    'selection by tags uses one tag; define/const lists are only used when selection leaves names unchanged and only '
    'scalar nodes are put into define lists',
    'documented/pinned mapping accepted as is: relative names after a query selection, names unchanged in JSON/YAML/'
    'TOML/DIP, bool->0/-1 and none->empty in Bash, none omitted in TOML, none bool->false constants (documented '
    'Fortran/Rust examples), float128->f64 in Rust, unsigned->signed kind in Fortran (no unsigned type), Fortran '
    'character values compared modulo trailing blanks, macros (#define) carry no declared type',
    'floats are compared at the declared width: float32 after rounding both sides to float32, float64 exactly '
    '(shortest-repr text read by a correctly rounding reader, printers use >=17 digits), float128 within 2^-52 relative',
    'gfortran runs with -ffree-line-length-none (the 132 column limit is not demanded); gcc -std=c11 -Wall, '
    'g++ -std=c++17 -Wall, rustc --edition 2021; warnings are not findings',
    'an exporter that raises a deliberate error (Exception/ValueError/NotImplementedError) refuses the feature and is '
    'accepted; TypeError/AttributeError/UnboundLocalError... are crashes',
    'the text scan for names defined by C/C++/Fortran/Rust files relies on the one-declaration-per-line layout',
]
EXHAUSTIVE_SUBSPACES = {'quick': [], 'thorough': []}

UNITS = ['cm', 'm', 'g/cm3', 'kg', 's', 'km/s', 'K', 'J']
TAGS = ['sel', 'aux', 'io']
WORDS = ['Conf', 'run7', 'zeta', 'Xi', 'mu0', 'alpha', 'Beta', 'grid-2', 'v1.5', 'a', 'bb', 'ccc', 'node_7', 'Q', 'x:y', 'up/down']
LOOKALIKE = ['true', '12', '1.5e3', 'None', '-7', '0']
# characters with a special meaning for a shell, a C-like compiler or a format string
SPECIALS = list('!&;*~|%?<>=$`\\(){}^@+,[]:/') + [' ! ', ' & ', '; ', '$(', '${', '\\n', '%s', '!!', '[1:3]', ' [cm]', '{0}', '[[', ']]']
PUNCT = ['Done!', 'go! now', 'a&b', 'x;y', 'p*q', '~home', 'a|b', '100%', 'why?', '<tag>', 'k=v', '$HOME', 'cost $5', '`cmd`', 'back\\slash',
         'tab(1)', 'semi; colon', 'hash#tag', '!bang', 'a && b', 'x > y', '%d items', '{curly}', 'c:\\dir']
NAMEPOOL = ['alpha', 'beta', 'gamma_ray', 'num_cells', 'boxSize', 'width', 'height', 'depth', 'rho', 'temp0', 'v1', 'Kappa',
            'eta', 'zeta', 'omega', 'nstep', 'cfl', 'mode', 'label', 'title', 'flagA', 'grid', 'cells', 'limits',
            'offset', 'seedval', 'output', 'xx', 'yy', 'zz', 'stars', 'tracers', 'density', 'primes', 'sizes',
            'matrix', 'vector', 'radiation', 'energy_min', 'energy_max', 'tEnd', 'dt0', 'nproc', 'restartFile', 'sigma',
            'lambda0', 'coeffs', 'weights', 'flags', 'names', 'geometry', 'viscosity', 'gravity', 'opacity', 'ratio']
GROUPPOOL = ['sim', 'cube', 'particles', 'hydro', 'io_cfg', 'mesh', 'Phys', 'setup', 'runtime', 'domain', 'solverCfg', 'bc']

INT_RANGE = {(16, False): (-2 ** 15, 2 ** 15 - 1), (32, False): (-2 ** 31, 2 ** 31 - 1), (64, False): (-2 ** 63, 2 ** 63 - 1),
             (16, True): (0, 2 ** 16 - 1), (32, True): (0, 2 ** 32 - 1), (64, True): (0, 2 ** 64 - 1)}
FLOATS17 = [0.1, 0.30000000000000004, 1 / 3, 2 / 3, 12345678.123456789, 3.141592653589793, 2.718281828459045,
            1.0000000000000002, 0.1 + 0.7, 123456.78901234567, 6.02214076e23, 1.602176634e-19, 9.109383701528e-31]
FLOATS_PLAIN = [15.0, 12.0, 23.4, 46.0, 96.4, 2.5, -7.25, 1e-06, 1e22, 1e16, 0.5, -0.001, 100000.0, 3e7]
FLOATS_EDGE64 = [1.7976931348623157e308, 2.2250738585072014e-308, 5e-324, 1e300, 4e38, 1e-40]
F32MAX = 3.4028234663852886e38


def dt_info(dt):
    if dt == 'bool':
        return 'bool', None, False
    if dt == 'str':
        return 'str', None, False
    m = re.match(r'^(u?)(int|float)(\d*)$', dt)
    kind = m.group(2)
    bits = int(m.group(3)) if m.group(3) else (32 if kind == 'int' else 64)
    return kind, bits, bool(m.group(1))


# ================================================================================ structure helpers

def flatten(v):
    if isinstance(v, list):
        out = []
        for x in v:
            out += flatten(x)
        return out
    return [v]


def shape_of(v):
    s = []
    while isinstance(v, list):
        s.append(len(v))
        v = v[0]
    return s or None


def nest(flat, shape):
    if not shape:
        return flat[0]
    if len(shape) == 1:
        return list(flat)
    step = len(flat) // shape[0]
    return [nest(flat[i * step:(i + 1) * step], shape[1:]) for i in range(shape[0])]


def forder(flat, shape):
    """row-major listing of the array obtained by filling `shape` column-major with `flat` (Fortran reshape)"""
    if not shape or len(shape) < 2:
        return list(flat)
    out = []
    for idx in itertools.product(*[range(s) for s in shape]):
        k, mul = 0, 1
        for d in range(len(shape)):
            k += idx[d] * mul
            mul *= shape[d]
        out.append(flat[k])
    return out


def f32(x):
    import numpy as np
    with np.errstate(all='ignore'):
        return float(np.float32(x))


# ================================================================================ DIP rendering (case -> text)

def scalar_text(kind, v):
    if v is None:
        return 'none'
    if kind == 'bool':
        return 'true' if v else 'false'
    if kind == 'int':
        return str(v)
    if kind == 'float':
        return repr(float(v))
    if "'" not in v:
        return "'" + v + "'"
    if '"' not in v:
        return '"' + v + '"'
    raise ValueError('string with both quote kinds cannot be rendered: %r' % v)


def array_text(kind, v):
    if kind == 'str':
        flat = flatten(v)
        t = json.dumps(v, separators=(',', ':'))
        if any((' ' in s or '"' in s) for s in flat):
            if any("'" in s for s in flat):
                raise ValueError('string array mixing blanks/double quotes with single quotes: %r' % v)
            return "'" + t.replace('\\', '\\\\') + "'"
        return t
    if kind == 'float':
        def r(x):
            return '[' + ','.join(r(y) for y in x) + ']' if isinstance(x, list) else repr(float(x))
        return r(v)
    return json.dumps(v, separators=(',', ':'))


def render_dip(nodes):
    lines, opened = [], []
    for nd in nodes:
        parts = nd['path'].split('.')
        grp, leaf = parts[:-1], parts[-1]
        k = 0
        while k < len(opened) and k < len(grp) and opened[k] == grp[k]:
            k += 1
        opened = opened[:k]
        for g in grp[k:]:
            lines.append('  ' * len(opened) + g)
            opened.append(g)
        ind = '  ' * len(opened)
        kind = dt_info(nd['dt'])[0]
        if nd.get('shape'):
            dim = '[' + ','.join(str(s) for s in nd['shape']) + ']'
            val = array_text(kind, nd['value'])
        else:
            dim = ''
            val = scalar_text(kind, nd['value'])
        lines.append('%s%s %s%s = %s%s' % (ind, leaf, nd['dt'], dim, val, (' ' + nd['unit']) if nd.get('unit') else ''))
        if nd.get('tags'):
            lines.append(ind + '  !tags ' + json.dumps(nd['tags'], separators=(',', ':')))
    return '\n'.join(lines) + '\n'


# ================================================================================ generator

def gen_string(rng, force=None):
    r = rng.random() if force is None else {'blank': 0.1, 'dquote': 0.3, 'squote': 0.45, 'look': 0.55, 'punct': 0.65, 'plain': 0.9}[force]
    w = lambda: rng.choice(WORDS)
    if r < 0.25:
        return ' '.join(w() for _ in range(rng.randint(2, 4)))
    if r < 0.40:
        form = rng.choice(['in', 'in', 'edge', 'odd', 'adj', 'dd'])
        if form == 'in':
            return '%s "%s" %s' % (w(), w(), w())
        if form == 'edge':
            return '"%s" %s' % (w(), w())
        if form == 'odd':
            return '%s %d" %s' % (w(), rng.randint(1, 9), w())
        if form == 'adj':
            return '%s" "%s' % (w(), w())
        return '%s""%s' % (w(), w())
    if r < 0.50:
        return rng.choice(["it's %s" % w(), "%s's" % w(), "'%s'" % w()])
    if r < 0.60:
        return rng.choice(LOOKALIKE)
    if r < 0.72 or force == 'punct':
        if rng.random() < 0.35:
            return rng.choice(PUNCT)
        # several special characters at once, so that every one of them is exported in (almost) every run
        chars = rng.sample(SPECIALS, 4)
        return ''.join(w() + c for c in chars) + w()
    return w()


def gen_int(rng, bits, unsigned, classes, in_array=False):
    lo, hi = INT_RANGE[(bits, unsigned)]
    if in_array:
        hi = min(hi, 2 ** 63 - 1)       # the DIP parser builds arrays through numpy int64 (out of scope here)
    r = rng.random()
    if r < 0.3:
        classes.add('int:boundary')
        cands = [lo, lo + 1, hi, hi - 1] + [c for c in (2 ** 15 - 1, 2 ** 15, 2 ** 31 - 1, 2 ** 31, -2 ** 31, -2 ** 31 - 1, 2 ** 63 - 1, 2 ** 63, 2 ** 32)
                                            if lo <= c <= hi]
        return rng.choice(cands)
    if r < 0.75:
        return rng.randint(max(lo, -1000), min(hi, 1000))
    return rng.randint(lo, hi)


def gen_float(rng, bits, classes):
    r = rng.random()
    if r < 0.4:
        classes.add('float:17digits')
        v = rng.choice(FLOATS17) * rng.choice([1, 1, -1, 10, 0.001])
    elif r < 0.8:
        v = rng.choice(FLOATS_PLAIN)
    elif r < 0.88 and bits != 32:
        v = rng.choice(FLOATS_EDGE64) * rng.choice([1, -1])
    else:
        v = rng.uniform(-1, 1) * 10 ** rng.randint(-12, 12)
        classes.add('float:17digits')
    if bits == 32 and not (1e-30 < abs(v) < 1e30):
        v = 0.1
    return float(v)


def gen_value(rng, dt, shape, classes, strkind=None):
    kind, bits, uns = dt_info(dt)
    n = 1
    for s in (shape or []):
        n *= s
    if kind == 'bool':
        flat = [rng.random() < 0.5 for _ in range(n)]
    elif kind == 'int':
        flat = [gen_int(rng, bits, uns, classes, bool(shape)) for _ in range(n)]
    elif kind == 'float':
        flat = [gen_float(rng, bits, classes) for _ in range(n)]
    else:
        if shape:
            mode = rng.choice(['plain-equal', 'plain', 'blank', 'dquote', 'squote', 'punct', 'punct']) if strkind is None else strkind
            if mode == 'plain-equal':
                L = rng.randint(1, 4)
                flat = [''.join(rng.choice('abcdxyz019') for _ in range(L)) for _ in range(n)]
            elif mode == 'plain':
                flat = [rng.choice(WORDS + LOOKALIKE) for _ in range(n)]
            elif mode == 'blank':
                flat = [gen_string(rng, 'blank') if rng.random() < 0.6 else rng.choice(WORDS) for _ in range(n)]
                flat[0] = gen_string(rng, 'blank')
            elif mode == 'punct':
                # array ELEMENTS with characters that mean something to a shell, a compiler or an array notation ([ ] { } , ;)
                flat = [rng.choice(WORDS) for _ in range(n)]
                for _ in range(rng.randint(1, n)):
                    flat[rng.randrange(n)] = gen_string(rng, 'punct')
            elif mode == 'dquote':
                flat = [rng.choice(WORDS) for _ in range(n)]
                flat[rng.randrange(n)] = gen_string(rng, 'dquote')
            else:
                flat = [rng.choice(WORDS) for _ in range(n)]
                flat[rng.randrange(n)] = rng.choice(["it's", "o'clock", "%s's" % rng.choice(WORDS)])
        else:
            flat = [gen_string(rng, strkind)]
    return nest(flat, shape) if shape else flat[0]


def mapped(name):
    return name.upper().replace('.', '_')


def gen_env(rng, nnodes, cover=False):
    """list of node dicts; `cover` forces one scalar of every dtype plus arrays of rank 1..3"""
    for _attempt in range(50):
        names = NAMEPOOL[:]
        rng.shuffle(names)
        groups = GROUPPOOL[:]
        rng.shuffle(groups)
        # layout: list of group paths ('' = top level); one flat group is always present
        gpaths = ['', groups[0], groups[1], groups[1] + '.' + groups[2]]
        if rng.random() < 0.5:
            gpaths.append(groups[1] + '.' + groups[2] + '.' + groups[3])
        if rng.random() < 0.5:
            gpaths.append(groups[4])
        plan = []
        if cover:
            for dt in DTYPES:
                plan.append((dt, None))
            plan += [('str', None)] * 6 + [('str', 1)]
            plan += [('bool', 1), ('int', 2), ('float', 3), ('str', 1), ('str', 2), ('int64', 1), ('uint16', 2), ('float32', 1),
                     ('float128', 2), ('float', 2), ('str', 1), ('uint64', 1), ('int16', 3), ('bool', 2), ('str', 1)]
        while len(plan) < nnodes:
            dt = rng.choice(DTYPES)
            rank = rng.choice([None, None, None, 1, 1, 2, 2, 3])
            plan.append((dt, rank))
        rng.shuffle(plan)
        nodes, classes = [], set()
        strk = ['blank', 'dquote', 'squote', 'look', 'punct', 'plain'] if cover else []
        astr = ['plain-equal', 'blank', 'dquote', 'plain', 'punct'] if cover else []
        none_left = 3 if cover else (1 if rng.random() < 0.5 else 0)
        for i, (dt, rank) in enumerate(plan):
            kind = dt_info(dt)[0]
            shape = None
            if rank:
                while True:
                    shape = [rng.randint(1, 4) for _ in range(rank)]
                    if 2 <= math.prod(shape) <= 24 or rank == 1:
                        break
            g = rng.choice(gpaths)
            path = (g + '.' if g else '') + names[i]
            if rank is None and none_left and rng.random() < (0.5 if cover else 0.15):
                value = None
                none_left -= 1
            else:
                sk = None
                if kind == 'str':
                    if rank and astr:
                        sk = astr.pop()
                    elif not rank and strk:
                        sk = strk.pop()
                value = gen_value(rng, dt, shape, classes, sk)
            unit = rng.choice(UNITS) if kind in ('int', 'float') and rng.random() < 0.4 else None
            tags = rng.sample(TAGS, rng.choice([0, 0, 1, 1, 2])) or None
            nodes.append(dict(path=path, dt=dt, shape=shape, value=value, unit=unit, tags=tags))
        # contiguous groups, stable order
        order = {g: k for k, g in enumerate(gpaths)}
        nodes.sort(key=lambda nd: order['.'.join(nd['path'].split('.')[:-1])])
        full = [mapped(nd['path']).lower() for nd in nodes]
        leafs = [nd['path'].split('.')[-1].lower() for nd in nodes]
        if len(set(full)) != len(full) or len(set(leafs)) != len(leafs):
            continue
        try:
            render_dip(nodes)
        except ValueError:
            continue
        return nodes
    raise RuntimeError('could not generate an environment')


def option_sets(rng, nodes, be, tier, k):
    """option sets for one (environment, back-end); selection choices are taken from the structure"""
    groups = sorted({'.'.join(nd['path'].split('.')[:i]) for nd in nodes for i in range(1, nd['path'].count('.') + 1)})
    flat_groups = [g for g in groups if not any(h.startswith(g + '.') for h in groups)]
    tags = sorted({t for nd in nodes for t in (nd['tags'] or [])})
    scal = [nd for nd in nodes if not nd['shape']]
    leaf = rng.choice(nodes)['path']

    def selection(i):
        c = ['group', 'tags', 'both', 'leaf', 'star', 'nested'][i % 6]
        if c == 'group' and groups:
            return dict(query=rng.choice(groups) + '.*')
        if c == 'nested' and len(groups) > len(flat_groups):
            return dict(query=rng.choice([g for g in groups if g not in flat_groups]) + '.*')
        if c == 'tags' and tags:
            return dict(tags=[rng.choice(tags)])
        if c == 'both' and tags:
            return dict(query=rng.choice(['*'] + [g + '.*' for g in groups]), tags=[rng.choice(tags)])
        if c == 'leaf':
            return dict(query=leaf)
        return dict(query='*')

    def flat_selection():
        if flat_groups:
            return dict(query=rng.choice(flat_groups) + '.*')
        return dict(query=leaf)

    out = []
    if be in ('c', 'cpp'):
        o = dict(rename=True)
        if scal:
            o['define'] = [nd['path'] for nd in rng.sample(scal, min(len(scal), rng.randint(1, 4)))]
            shadowed = [nd['path'] for nd in scal if '.' in nd['path'] and any(m['path'] != nd['path'] and nd['path'].endswith('.' + m['path']) for m in nodes)]
            if shadowed:
                o['define'] = rng.sample(shadowed, min(len(shadowed), rng.randint(2, 4)))        # the longer path of a shadowing pair is listed, the shorter is not
            nn = [nd['path'] for nd in scal if nd['value'] is None and nd['path'] not in o['define']]
            if nn and rng.random() < 0.6:
                o['define'].append(nn[0])
        if be == 'cpp':
            rest = [nd['path'] for nd in nodes if nd['path'] not in o.get('define', [])]
            o['const'] = rng.sample(rest, min(len(rest), rng.randint(1, 4)))
        out.append(o)
        o2 = dict(rename=True, guard='SETTINGS_%d_H' % k)
        o2.update(selection(k))
        o3 = dict(rename=False)
        o3.update(flat_selection())
        o4 = dict(rename=True)
        o4.update(dict(tags=[rng.choice(tags)]) if tags else dict(query='*'))
        if o4.get('tags') and scal:
            o4['define'] = [nd['path'] for nd in scal if o4['tags'][0] in (nd['tags'] or [])][:2]
        out += [o2, o3] if tier == 'thorough' else [o2 if k % 2 == 0 else o3]
        if tier == 'thorough':
            out.append(o4)
    elif be in ('fortran', 'rust'):
        out.append(dict(rename=True))
        o2 = dict(rename=True)
        o2.update(selection(k + 1))
        if be == 'fortran':
            o2['module'] = 'Settings%d' % k
        o3 = dict(rename=False)
        o3.update(flat_selection())
        out += [o2, o3] if tier == 'thorough' else [o2 if k % 2 == 1 else o3]
    elif be == 'bash':
        out.append(dict(rename=True, export=True))
        o2 = dict(rename=True, export=False)
        o2.update(selection(k + 2))
        o3 = dict(rename=False, export=True)
        o3.update(flat_selection())
        out += [o2, o3]
    elif be in DATAFMT:
        o1 = dict(units=True)
        if be == 'json':
            o1['kwargs'] = dict(indent=2)
        if be == 'yaml' and k % 2:
            o1['kwargs'] = dict(default_flow_style=True)
        o2 = dict(units=False)
        o2.update(selection(k + 3))
        o3 = dict(units=True, rename=False)
        o3.update(selection(k + 4))
        o4 = dict(units=False, rename=True)
        out += [o1, o2, o3] + ([o4] if tier == 'thorough' else [])
    else:
        out.append(dict())
        o2 = dict()
        o2.update(selection(k + 5))
        out.append(o2)
    return out


def gen_shadow_env(rng):
    """parameters whose NAME is the trailing part of another parameter's path (width / box.width, size.xlen / box.size.xlen; no one-letter names: the Rust reader's own identifiers): option
    lists (define=, const=) name parameters by their full path, nobody else is meant"""
    f32 = rng.choice([0.1, 0.2, 1.1, 3.3])
    big = rng.choice([5000000000, -4000000000, 2 ** 40 + 1])
    N = lambda path, dt, value, unit=None, shape=None: dict(path=path, dt=dt, shape=shape, value=value, unit=unit, tags=None)
    nodes = [N('width', 'float32', f32, 'cm'), N('count', 'int64', big), N('name', 'str', 'top level'), N('flag', 'bool', True),
             N('box.width', 'float', rng.choice([2.5, 0.75]), 'm'), N('box.count', 'int', rng.randint(1, 99)), N('box.name', 'str', 'inner'),
             N('box.flag', 'bool', False), N('box.size.xlen', 'float', 1.5), N('box.size.num', 'uint16', [1, 2, 3], None, [3]),
             N('size.xlen', 'int16', -7), N('size.num', 'float32', [0.1, 0.2], None, [2])]
    return nodes


def env_list(tier, seed):
    rng = random.Random(seed * 7919 + 1900 + (0 if tier == 'quick' else 1))
    envs = []
    for i in range(NENV[tier]):
        cover = i < 2 or (tier == 'thorough' and i % 25 == 0)
        envs.append(gen_env(rng, rng.randint(6, 14), cover=cover))
    for _ in range(1 if tier == 'quick' else 6):
        envs.append(gen_shadow_env(rng))
    return envs


def cases(rng, tier, shard, nshards, ctx):
    seed = int(os.environ.get('VERIF_SEED', '0') or 0)
    envs = env_list(tier, seed)
    i = 0
    for k, nodes in enumerate(envs):
        for be in BACKENDS:
            orng = random.Random('%d/%s/%d/%s' % (seed, tier, k, be))
            for opt in option_sets(orng, nodes, be, tier, k):
                i += 1
                if i % nshards == shard:
                    yield dict(env=nodes, be=be, opt=opt, envno=k)


# ================================================================================ setup

def setup():
    import scinumtools.dip as sdip
    from scinumtools.dip import DIP
    from scinumtools.dip import config as cfg
    from vt.refmodel import export_readers as R
    from vt.monitors.tables import Hygiene
    import numpy as np
    for be in BACKENDS:
        R.selftest(be)
    return dict(DIP=DIP, cfg=cfg, R=R, np=np, hyg=Hygiene(), seq=[0], keep=[],
                classes={'c': cfg.ExportConfigC, 'cpp': cfg.ExportConfigCPP, 'fortran': cfg.ExportConfigFortran,
                         'rust': cfg.ExportConfigRust, 'bash': cfg.ExportConfigBash, 'json': cfg.ExportConfigJSON,
                         'yaml': cfg.ExportConfigYAML, 'toml': cfg.ExportConfigTOML, 'dip': cfg.ExportConfig})


# ================================================================================ real code drivers

def parse_env(nodes, ctx):
    ctx['seq'][0] += 1
    text = render_dip(nodes)
    dip = ctx['DIP'](name='zq_c19_env_%d_%d' % (os.getpid(), ctx['seq'][0]))
    dip.add_string(text)
    env = dip.parse()
    ctx['keep'].append((dip, env))
    del ctx['keep'][:-8]
    return text, env


def env_matches(nodes, env):
    """pre-condition: the parsed environment is the structure the case was generated from"""
    real = {n.name: n for n in env.nodes}
    if sorted(real) != sorted(nd['path'] for nd in nodes):
        return 'node names differ: %r' % sorted(set(real) ^ set(nd['path'] for nd in nodes))[:4]
    for nd in nodes:
        n = real[nd['path']]
        kind, bits, uns = dt_info(nd['dt'])
        if n.keyword != kind:
            return '%s: keyword %s' % (nd['path'], n.keyword)
        v = n.value
        val = None if v is None else v.value
        if hasattr(val, 'tolist'):
            val = val.tolist()
        if val != nd['value'] or repr(val) != repr(nd['value']):
            return '%s: value %r != %r' % (nd['path'], val, nd['value'])
        if v is not None and kind in ('int', 'float'):
            if int(v.precision) != bits or (kind == 'int' and bool(v.unsigned) != uns):
                return '%s: precision/unsigned %r/%r' % (nd['path'], v.precision, getattr(v, 'unsigned', None))
            if (v.unit or None) != (nd['unit'] or None):
                return '%s: unit %r' % (nd['path'], v.unit)
        if (list(n.tags) if n.tags else None) != (nd['tags'] or None):
            return '%s: tags %r' % (nd['path'], n.tags)
    return None


def select_model(nodes, query, tags):
    """documented selection: '*' all, 'a.b.*' the children of a.b (named relative to it), 'a.b.c' that node (named by
    its last component); tags keep the nodes carrying the tag"""
    if query is None or query == '*':
        sel = [(nd['path'], nd) for nd in nodes]
    elif query.endswith('.*'):
        pre = query[:-1]
        sel = [(nd['path'][len(pre):], nd) for nd in nodes if nd['path'].startswith(pre)]
    else:
        sel = [(nd['path'].split('.')[-1], nd) for nd in nodes if nd['path'] == query]
    if tags:
        sel = [(n, nd) for n, nd in sel if nd['tags'] and tags[0] in nd['tags']]
    return sel


CRASH_TYPES = (TypeError, AttributeError, UnboundLocalError, NameError, KeyError, IndexError, ZeroDivisionError,
               AssertionError, RecursionError)


def do_export(ctx, env, be, opt):
    """-> ('text', text) | ('refused', exc) | ('crash', exc)"""
    cls = ctx['classes'][be]
    kw = {}
    if 'rename' in opt:
        kw['rename'] = opt['rename']
    tmp = None
    try:
        exp = cls(env, **kw)
        if opt.get('query') is not None or opt.get('tags') is not None:
            exp.select(query=opt.get('query'), tags=opt.get('tags'))
        pk = {}
        if be in ('c', 'cpp'):
            if opt.get('define'):
                pk['define'] = list(opt['define'])
            if opt.get('guard'):
                pk['guard'] = opt['guard']
            if be == 'cpp' and opt.get('const'):
                pk['const'] = list(opt['const'])
        elif be == 'fortran':
            if opt.get('module'):
                pk['module'] = opt['module']
        elif be == 'bash':
            pk['export'] = opt.get('export', True)
        elif be in DATAFMT:
            pk['units'] = opt.get('units', True)
            pk.update(opt.get('kwargs') or {})
        text = exp.parse(**pk)
        # history on one environment: the same exporter asked again, and a fresh exporter after ANOTHER back-end has gone
        # over the environment, say the same ("for every parsed environment" - also one that was exported before)
        again = exp.parse(**pk)
        if again != text:
            return 'history-differs', ('the same exporter asked twice', text, again)
        # EVERY other back-end goes over the same environment object (no selection: the exporters then hold the environment's own
        # objects, not copies), then a fresh exporter of this back-end has to say what the first one said
        others = [o for o in sorted(ctx['classes']) if o != be]
        ran = []
        for other in others:
            try:
                ctx['classes'][other](env).parse()
                ran.append(other)
            except Exception:
                pass
        if ran:
            exp3 = cls(env, **kw)
            if opt.get('query') is not None or opt.get('tags') is not None:
                exp3.select(query=opt.get('query'), tags=opt.get('tags'))
            fresh = exp3.parse(**pk)
            if fresh != text:
                return 'history-differs', ('fresh exporter after %s exports of the same environment' % '/'.join(ran), text, fresh)
        tmp = tempfile.mkdtemp(prefix='vt_c19_')
        path = os.path.join(tmp, 'exported.txt')
        exp.save(path)
        with open(path) as f:
            saved = f.read()
        if saved != text:
            return 'save-differs', (text, saved)
        return 'text', text
    except CRASH_TYPES as e:
        return 'crash', e
    except Exception as e:
        return 'refused', e
    finally:
        if tmp:
            shutil.rmtree(tmp, ignore_errors=True)


# ================================================================================ buggy twins of the recorded defects

def c_literal_twin(s):
    """what a C/C++ compiler makes of  "<s>"  when the quotes inside s are not escaped: adjacent string literals
    are concatenated; anything else between two literals is a syntax error (None)"""
    seg = s.split('"')
    if len(seg) % 2 == 0:
        return None
    for gap in seg[1::2]:
        if gap.strip(' ') != '':
            return None
    return ''.join(seg[0::2])


def fortran_literal_twin(s):
    """what gfortran makes of  "<s>" : a doubled quote is one quote, a single one ends the literal (None unless at
    the end of the text)"""
    t = s + '"'
    out, i = [], 0
    while i < len(t):
        if t[i] == '"':
            if i + 1 < len(t) and t[i + 1] == '"':
                out.append('"')
                i += 2
                continue
            return ''.join(out) if i == len(t) - 1 else None
        out.append(t[i])
        i += 1
    return None


def bash_words(rhs):
    """words bash makes of the text after NAME= (alphabet without $ ` \\ and newline); None = unterminated quote.
    -> (is_array, [words])"""
    i, n = 0, len(rhs)
    is_array = rhs.startswith('(')
    if is_array:
        i = 1
    words, cur, started, state = [], [], False, None
    while i < n:
        ch = rhs[i]
        if state == 'd':
            if ch == '"':
                state = None
            else:
                cur.append(ch)
        elif state == 's':
            if ch == "'":
                state = None
            else:
                cur.append(ch)
        else:
            if ch == '"':
                state, started = 'd', True
            elif ch == "'":
                state, started = 's', True
            elif ch in ' \t':
                if started:
                    words.append(''.join(cur))
                cur, started = [], False
            elif ch == ')' and is_array:
                if started:
                    words.append(''.join(cur))
                cur, started = [], False
                is_array = 'closed'
                i += 1
                break
            elif ch in '();&|<>' :
                return None, None          # shell operator outside quotes: not modelled
            else:
                cur.append(ch)
                started = True
        i += 1
    if state is not None or is_array is True:
        return None, None
    if started:
        words.append(''.join(cur))
    return (is_array == 'closed'), words


def bash_twin(node, export):
    """read-back predicted from the defective rendering: scalars  NAME="<s>", rank-1 string arrays
    NAME=(""<s1>"" ""<s2>"") , higher ranks NAME[i,j]="<s>" ; -> (shape, flat) | 'unset' | None (not modelled)"""
    v, shape = node['value'], node['shape']
    if not shape:
        arr, words = bash_words('"' + v + '"')
        if words is None:
            return None
        if len(words) > 1 and not export:
            return 'unset'                   # NAME=word other words...: assignment only for that command
        return None, [words[0] if words else '']
    flat = flatten(v)
    if len(shape) == 1:
        arr, words = bash_words('(' + ' '.join('""' + s + '""' for s in flat) + ')')
        if words is None:
            return None
        return [len(words)], words
    out = []
    for s in flat:
        arr, words = bash_words('"' + s + '"')
        if words is None or len(words) > 1:
            return None
        out.append(words[0] if words else '')
    return list(shape), out


# ================================================================================ expectations

def has_dquote(nd):
    return dt_info(nd['dt'])[0] == 'str' and nd['value'] is not None and any('"' in s for s in flatten(nd['value']))


def bash_feature(nd):
    """string values the Bash back-end renders defectively: a double quote inside, or any rank-1 string array"""
    return dt_info(nd['dt'])[0] == 'str' and nd['value'] is not None and (has_dquote(nd) or (nd['shape'] is not None and len(nd['shape']) == 1))


def bash_chaotic(nd, export):
    """the defective line cannot be modelled on its own: unterminated quote, or words left over that bash runs as a
    command / exports as further names"""
    if not bash_feature(nd):
        return False
    if bash_twin(nd, export) in (None, 'unset'):
        return True
    if not nd['shape']:
        arr, words = bash_words('"' + nd['value'] + '"')
        return words is None or len(words) > 1
    return False


def bash_keys(nd):
    keys = []
    if has_dquote(nd):
        keys.append('unescaped-double-quote')
    if nd['shape'] and len(nd['shape']) == 1:
        keys.append('string-array-double-quoted')
        if has_dquote(nd):
            # which of the two defects changes the outcome?
            flat = flatten(nd['value'])
            plain = dict(nd, value=[s.replace('"', 'Q') for s in flat])
            tp = bash_twin(plain, True)
            if tp and tp[1] == [s.replace('"', 'Q') for s in flat]:
                keys = ['unescaped-double-quote']
    return keys


def sym_form(be, opt, relname):
    if be in ('c', 'cpp') and relname in (opt.get('define') or []):
        return 'define'
    if be == 'cpp' and relname in (opt.get('const') or []):
        return 'const'
    return 'constexpr' if be == 'cpp' else ('const' if be == 'c' else None)


CPP_TYPES = {('int', 16, False): 'short', ('int', 32, False): 'int', ('int', 64, False): 'long long',
             ('int', 16, True): 'unsigned short', ('int', 32, True): 'unsigned int', ('int', 64, True): 'unsigned long long',
             ('float', 32, False): 'float', ('float', 64, False): 'double', ('float', 128, False): 'long double',
             ('bool', None, False): 'bool', ('str', None, False): 'char*'}


def float_equal(obs, exp, bits):
    """obs: decimal text or float as read back; exp: python float of the environment; at the declared width"""
    try:
        o = float(obs)
    except (TypeError, ValueError):
        return False
    if bits == 32:
        return f32(o) == f32(exp)
    if bits == 128 and not isinstance(obs, float):
        try:
            d, e = Decimal(str(obs).strip()), Decimal(exp)
        except Exception:
            return False
        return abs(d - e) <= abs(e) * Decimal(2) ** -52
    return o == exp


def values_equal(kind, bits, obs, exp, be):
    """flat lists; comparison rule per kind and reader"""
    if len(obs) != len(exp):
        return False
    for o, e in zip(obs, exp):
        if e is None:
            if o is not None:
                return False
            continue
        if kind == 'bool':
            if be in COMPILED:
                ok = o in (0, 1) and bool(o) == e and not isinstance(o, str)
            elif be == 'bash':
                ok = o == ('0' if e else '-1')
            else:
                ok = isinstance(o, bool) and o == e
        elif kind == 'int':
            if be == 'bash':
                ok = re.match(r'^-?\d+$', o or '') is not None and int(o) == e
            else:
                ok = isinstance(o, int) and not isinstance(o, bool) and o == e
        elif kind == 'float':
            if be in DATAFMT or be == 'dip':
                ok = isinstance(o, float) and o == e
            elif be == 'bash':
                ok = re.match(r'^-?(\d+\.?\d*|\.\d+)([eE][-+]?\d+)?$', o or '') is not None and float(o) == e
            else:
                ok = float_equal(o, e, bits)
        else:
            if be == 'fortran':
                ok = isinstance(o, str) and o.rstrip(' ') == e.rstrip(' ')
            else:
                ok = isinstance(o, str) and o == e
        if not ok:
            return False
    return True


def brief(x, n=160):
    s = json.dumps(x, default=repr)
    return s if len(s) <= n else s[:n] + '...'


class Round:
    """one export + read-back of a (reduced) environment"""

    def __init__(self, ctx, be, opt, nodes):
        self.ctx, self.be, self.opt, self.nodes = ctx, be, opt, nodes
        self.devs = []          # vt.core.dev dicts
        self.offenders = set()  # node paths to drop before the next round
        self.mon = {}
        self.again = False
        self.sample = None
        self.skip = None

    def count(self, k, n=1):
        self.mon[k] = self.mon.get(k, 0) + n

    def known(self, key, nd, detail):
        self.devs.append(dev(self.be + ':' + key, dict(symbol=nd['path'] if nd else None, **detail), known='C19-%s-%s' % (self.be, key)))

    def new(self, mech, nd, detail):
        self.devs.append(dev(self.be + ':' + mech, dict(symbol=nd['path'] if nd else None, **detail)))


def run_round(ctx, be, opt, nodes, first):
    R = ctx['R']
    rd = Round(ctx, be, opt, nodes)
    try:
        dip_text, env = parse_env(nodes, ctx)
    except Exception as e:
        rd.skip = 'environment-not-parsable'
        rd.sample = dict(dip=render_dip(nodes)[:400], why='%s: %s' % (type(e).__name__, str(e)[:200]))
        return rd
    why = env_matches(nodes, env)
    if why:
        rd.skip = 'environment-not-as-generated'
        rd.sample = dict(dip=dip_text[:400], why=why)
        return rd
    sel = select_model(nodes, opt.get('query'), opt.get('tags'))
    rename = opt.get('rename', True)
    expected = {}
    for rel, nd in sel:
        name = mapped(rel) if (be in MAPPED and rename) else rel
        expected[name] = (rel, nd)
    if be in MAPPED and not rename and any('.' in n for n in expected):
        rd.skip = 'rename-off-with-dotted-name'
        return rd
    kind, res = do_export(ctx, env, be, opt)
    rd.count('exports')
    if kind == 'refused':
        rd.count('refusals_accepted')
        rd.sample = dict(be=be, opt=opt, refused=repr(res)[:200])
        return rd
    if kind == 'history-differs':
        rd.new('export-depends-on-earlier-exports-of-the-environment', None, dict(what=res[0], first=res[1][:300], later=res[2][:300]))
        return rd
    rd.count('export_history_twins')
    if kind == 'save-differs':
        rd.new('saved-file-differs-from-parse-text', None, dict(text=res[0][:200], saved=res[1][:200]))
        return rd
    if kind == 'crash':
        return classify_crash(rd, res, sel)
    text = res
    specs = []
    for name, (rel, nd) in expected.items():
        k, bits, uns = dt_info(nd['dt'])
        form = sym_form(be, opt, rel)
        specs.append(dict(name=name, kind=k, unsigned=uns, shape=nd['shape'], none=nd['value'] is None, form=form,
                          ctype=CPP_TYPES.get((k, bits, uns)) if be == 'cpp' and form != 'define' else None))
    # symbols whose name does not occur in the exported text are reported as missing and not referenced
    if be in COMPILED:
        declared = set(R.scan_defined(be, text))
        present = [s for s in specs if s['name'] in declared]
    else:
        present = specs
    if be == 'fortran':
        res = R.read_fortran(text, present, module=opt.get('module') or 'ConfigurationModule')
    else:
        res = R.READERS[be](text, present)
    rd.count('compiles:' + be, res['compiles'])
    rd.sample = dict(be=be, opt=opt, dip=dip_text[:500], exported=text[:700], status=res['status'],
                     read_back={n: dict(type=r['type'], shape=r['shape'], values=r['values'][:6], unit=r['unit'])
                                for n, r in list(res['symbols'].items())[:4]})
    if res['status'] == 'compile-error':
        return classify_compile_error(rd, res, expected, text)
    if res['status'] in ('run-error', 'load-error'):
        rd.new('exported-file-not-readable', None, dict(message=res['message'][-400:], exported=text[:300]))
        return rd
    compare_all(rd, res, expected, text, first)
    return rd


# -------------------------------------------------------------------------------- exporter crashed

def classify_crash(rd, exc, sel):
    be = rd.be
    msg = '%s: %s' % (type(exc).__name__, str(exc)[:200])
    hit = False
    if be == 'dip' and isinstance(exc, TypeError):
        for rel, nd in sel:
            k = dt_info(nd['dt'])[0]
            if k in ('int', 'float') and nd['shape'] and "not 'list'" in str(exc):
                rd.known('export-array-typeerror', nd, dict(exception=msg))
                rd.offenders.add(nd['path']); hit = True
            elif k in ('int', 'float') and nd['value'] is None and "not 'NoneType'" in str(exc):
                rd.known('export-none-typeerror', nd, dict(exception=msg))
                rd.offenders.add(nd['path']); hit = True
        if hit:
            # only the first offending node raised; the other feature carriers are removed with it
            for rel, nd in sel:
                k = dt_info(nd['dt'])[0]
                if k in ('int', 'float') and (nd['shape'] or nd['value'] is None):
                    rd.offenders.add(nd['path'])
    if not hit:
        rd.new('export-crashes', None, dict(exception=msg))
    rd.again = hit
    return rd


# -------------------------------------------------------------------------------- does not compile

def verbatim_quoted(nd, line):
    """the exported line carries a string value with its double quotes verbatim (unescaped) between double quotes"""
    return any('"' in s and ('"' + s + '"') in line for s in flatten(nd['value']) if isinstance(s, str))


def rust_literal_left_open(line):
    """lexed by Rust rules (backslash escapes), the line ends inside a string literal"""
    inside, i = False, 0
    while i < len(line):
        ch = line[i]
        if inside and ch == '\\':
            i += 2
            continue
        if ch == '"':
            inside = not inside
        i += 1
    return inside


def compile_break_key(be, nd, form, msgs, line):
    """key of the recorded defect that explains a compile error on this symbol's line, else None"""
    k, bits, uns = dt_info(nd['dt'])
    text = ' | '.join(msgs)
    flat = flatten(nd['value'])
    if nd['value'] is None and k in ('int', 'float') and form != 'define':
        if be in ('c', 'cpp') and "'None'" in text:
            return 'none-emitted-as-bare-None'
        if be == 'rust' and ('mismatched types' in text or 'None' in text):
            return 'none-emitted-as-bare-None'
        if be == 'fortran' and "'none'" in text.lower():
            return 'none-emitted-as-bare-None'
    if k == 'str' and nd['value'] is not None and has_dquote(nd) and verbatim_quoted(nd, line):
        if be in ('c', 'cpp') and any(c_literal_twin(s) is None for s in flat):
            return 'unescaped-double-quote'
        if be == 'rust':
            return 'unescaped-double-quote'
        if be == 'fortran' and any(fortran_literal_twin(s) is None for s in flat):
            return 'unescaped-double-quote'
    if be == 'fortran' and nd['value'] is not None:
        if k == 'int':
            smax = 2 ** (bits - 1) - 1
            if uns and any(v > smax for v in flat) and ('Integer too big for its kind' in text or 'Arithmetic overflow' in text):
                return 'unsigned-above-signed-range'
            if any(abs(v) > 2 ** 31 - 1 for v in flat) and 'Integer too big for its kind' in text:
                return 'int-literal-above-default-kind'
        if k == 'float' and bits in (64, 128) and any(abs(v) > F32MAX for v in flat) and 'overflows its kind' in text:
            return 'real8-default-kind-literal'
        if k == 'str' and nd['shape']:
            lens = {len(fortran_literal_twin(s)) if fortran_literal_twin(s) is not None else -1 for s in flat}
            if len(lens) > 1 and 'Different CHARACTER lengths' in text:
                return 'char-array-unequal-length'
    return None


def classify_compile_error(rd, res, expected, text):
    """blamed symbols that a recorded defect explains are reported under its key and removed; unexplained ones are
    reported only in a round without explained ones (an earlier broken line can derail the following lines, the next
    round judges them again)"""
    be = rd.be
    lines = text.split('\n')
    decl = res.get('decl_lines') or {}
    if not res['blamed']:
        rd.new('does-not-compile', None, dict(message=(res['unattributed'] or [res['message']])[0][-400:], exported=text[:300]))
        return rd
    explained, unexplained = [], []
    for name, msgs in res['blamed'].items():
        rel, nd = expected[name]
        ln = decl.get(name)
        line = lines[ln - 1] if ln else ''
        key = compile_break_key(be, nd, sym_form(be, rd.opt, rel), msgs, line)
        (explained if key else unexplained).append((key, nd, line, msgs))
    if be == 'rust':
        # a Rust string literal may span lines: an odd number of quotes shifts the error to a later line
        errlines = [int(m.group(1)) for msgs in res['blamed'].values() for x in msgs for m in [re.match(r'^config\.rs:(\d+):', x)] if m]
        done = {nd['path'] for _, nd, _, _ in explained}
        for name, (rel, nd) in expected.items():
            if has_dquote(nd) and nd['path'] not in done and decl.get(name) and any(l >= decl[name] for l in errlines) \
                    and verbatim_quoted(nd, lines[decl[name] - 1]) and rust_literal_left_open(lines[decl[name] - 1]):
                explained.append(('unescaped-double-quote', nd, lines[decl[name] - 1], ['error at or after this line: ' + res['message'][:160]]))
    if explained:
        for key, nd, line, msgs in explained:
            rd.known(key, nd, dict(exported_line=line[:200], compiler=msgs[0][:200], expected=brief(nd['value'])))
            rd.offenders.add(nd['path'])
        rd.count('unexplained_compile_errors_deferred', len(unexplained))
    else:
        for key, nd, line, msgs in unexplained:
            rd.new('does-not-compile', nd, dict(exported_line=line[:200], compiler=msgs[:2], expected=brief(nd['value']), dtype=nd['dt']))
            rd.offenders.add(nd['path'])
    rd.again = True
    return rd


# -------------------------------------------------------------------------------- compare what was read back

def compare_all(rd, res, expected, text, first):
    be, opt = rd.be, rd.opt
    exportflag = opt.get('export', True)
    chaotic = {nd['path'] for _, nd in expected.values() if be == 'bash' and bash_chaotic(nd, exportflag)}
    defined = res['defined']
    deferred = []
    for name, (rel, nd) in expected.items():
        rec = res['symbols'].get(name)
        isnone = nd['value'] is None
        before = len(rd.devs)
        if nd['path'] in chaotic:
            # judged loosely: anything but the expected read-back is the recorded defect of this very line
            ok = rec is not None and (rec['shape'] or None) == (nd['shape'] or None) and \
                values_equal('str', None, rec['values'], flatten(nd['value']), be)
            if rec is not None:
                rd.count('symbols_compared:' + be)
            if not ok:
                for key in bash_keys(nd):
                    rd.known(key, nd, dict(expected=brief(nd['value']), read_back=brief(rec['values']) if rec else 'variable not set'))
            continue
        if rec is None:
            if isnone and (be == 'toml' or be in COMPILED):
                rd.count('none_omitted_accepted')
                continue
            rd.new('symbol-missing', nd, dict(name=name, defined=(defined or [])[:12]))
        else:
            rd.count('symbols_compared:' + be)
            compare_symbol(rd, name, rel, nd, rec, text)
        if chaotic and any(not d.get('known') for d in rd.devs[before:]):
            deferred += rd.devs[before:]
            del rd.devs[before:]
    # exported set == selected set
    extra = []
    if defined is not None:
        rd.count('selection_sets_compared')
        extra = [n for n in defined if n not in expected]
        if extra and not chaotic:
            low = {n.lower(): n for n in expected}
            if any(x.lower() in low or mapped(x) in expected for x in extra):
                rd.new('name-mapping-differs', None, dict(exported=extra[:6], expected=sorted(expected)[:6], rename=opt.get('rename', True)))
            else:
                rd.new('exports-unselected-symbol', None, dict(extra=extra[:8], selected=sorted(expected)[:12],
                                                               query=opt.get('query'), tags=opt.get('tags')))
    if chaotic and (deferred or extra):
        # a line with unbalanced quotes / left-over words derails bash for other lines too: unexplained deviations
        # on the other symbols are not judged here; they are re-checked strictly without the derailing strings
        rd.offenders |= chaotic
        rd.count('bash_deviations_deferred', len(deferred))
        rd.again = True


def compare_symbol(rd, name, rel, nd, rec, text=''):
    be, opt = rd.be, rd.opt
    k, bits, uns = dt_info(nd['dt'])
    form = sym_form(be, opt, rel)
    isnone = nd['value'] is None
    exp_shape = nd['shape']
    exp_flat = flatten(nd['value'])
    obs_shape, obs = rec['shape'], rec['values']
    xline = next((l for l in text.split('\n') if re.search(r'(?<![\w.])' + re.escape(name) + r'(?![\w.])', l)), '')
    info = dict(name=name, dtype=nd['dt'], exported_line=xline.strip()[:200], expected=brief(nd['value']),
                read_type=rec['type'], read_shape=obs_shape, read_back=brief(obs))

    # ---- macro-ness (C / C++)
    if be in ('c', 'cpp'):
        if form == 'define' and not rec['macro']:
            rd.new('define-option-not-a-macro', nd, info); return
        if form != 'define' and rec['macro']:
            rd.new('unexpected-macro', nd, info); return
        if form == 'define' and isnone:
            if rec['extra'].get('expansion') != '':
                rd.new('none-macro-not-empty', nd, info)
            return

    # ---- data formats / DIP: unit + category
    if be in DATAFMT:
        want_unit = nd['unit'] if (opt.get('units', True) and k in ('int', 'float')) else None
        if be == 'toml' and isnone:
            if rec['extra'].get('value_missing') or rec['values'] in ([], [None]):
                if rec['unit'] not in (None, want_unit):
                    rd.new('unit-differs', nd, dict(unit=rec['unit'], expected_unit=want_unit, **info))
                return
        if (rec['unit'] or None) != (want_unit or None) or bool(rec['extra'].get('unit_form')) != bool(want_unit):
            rd.new('unit-differs', nd, dict(unit=rec['unit'], expected_unit=want_unit, units_option=opt.get('units', True), **info)); return
        if isnone:
            if obs != [None] or obs_shape is not None:
                rd.new('none-not-null', nd, info)
            return
        if rec['cat'] != k:
            rd.new('declared-type-differs', nd, info); return
    elif be == 'dip':
        if rec['cat'] != k:
            rd.new('declared-type-differs', nd, info); return
        if isnone:
            if rec['extra'].get('is_none'):
                return
            if k == 'bool' and obs == [False] or k == 'str' and obs == ['None']:
                rd.known('export-none-as-value', nd, info); return
            rd.new('none-not-none', nd, info); return
        if k in ('int', 'float'):
            if rec['bits'] != bits or (k == 'int' and rec['signed'] == uns):
                rd.new('declared-width-or-sign-differs', nd, info); return
            if (rec['unit'] or None) != (nd['unit'] or None):
                rd.new('unit-differs', nd, dict(unit=rec['unit'], expected_unit=nd['unit'], **info)); return
        if exp_shape and obs_shape is None:
            if k == 'bool' and obs == [True]:
                rd.known('export-array-collapsed', nd, info); return
            if k == 'str' and obs == [str(nd['value'])]:
                rd.known('export-array-collapsed', nd, info); return
    elif be == 'bash':
        attrs = rec['extra'].get('attrs', '')
        want = '' if not exp_shape else ('a' if len(exp_shape) == 1 else 'A')
        if ('a' in attrs) != (want == 'a') or ('A' in attrs) != (want == 'A'):
            rd.new('array-kind-differs', nd, info); return
        if ('x' in attrs) != bool(opt.get('export', True)):
            rd.new('export-attribute-differs', nd, dict(attrs=attrs, export_option=opt.get('export', True), **info)); return
        if isnone:
            if obs != [''] or obs_shape is not None:
                rd.new('none-not-empty', nd, info)
            return
    else:
        # ---- compiled languages: declared type
        if isnone:
            if k == 'bool' and obs == [0] and rec['cat'] == 'bool':
                rd.count('none_bool_false_accepted'); return
            if k == 'str' and rec['cat'] == 'str' and obs_shape is None and len(obs) == 1 and isinstance(obs[0], str) and obs[0].rstrip(' ') == 'None':
                rd.known('none-str-emitted-as-text-None', nd, info); return
            if k == 'str' and obs == [None]:
                return                                   # a null pointer would be a faithful none
            rd.new('none-read-back-as-value', nd, info); return
        if form != 'define':
            if rec['cat'] != k:
                rd.new('declared-type-differs', nd, info); return
            if k in ('int', 'float'):
                wbits = 64 if (be == 'rust' and bits == 128) else bits
                if rec['bits'] != wbits:
                    rd.new('declared-width-differs', nd, dict(read_bits=rec['bits'], expected_bits=wbits, **info)); return
            if k == 'int' and be != 'fortran' and rec['signed'] == uns:
                rd.new('declared-signedness-differs', nd, info); return
            if be == 'cpp' and rec['extra'].get('is_same'):
                rd.count('cpp_is_same_true')
            if be == 'fortran' and k == 'str' and any(l != len(e) for l, e in zip(rec['extra'].get('len', []), exp_flat)):
                rd.count('fortran_char_len_padded')

    # ---- shape, element order and values (with the twins of the recorded defects)
    cbits = bits
    if be == 'rust' and bits == 128:
        cbits = 64
    if form == 'define' and k == 'float':
        cbits = bits if bits == 32 else 64
    if (obs_shape or None) == (exp_shape or None) and values_equal(k, cbits, obs, exp_flat, be):
        return
    for keys, tshape, tflat, tbits in twins(be, opt, nd, exp_shape, exp_flat, cbits):
        if (obs_shape or None) == (tshape or None) and values_equal(k, tbits, obs, tflat, be):
            for key in keys:
                rd.known(key, nd, info)
            return
    if (obs_shape or None) != (exp_shape or None):
        rd.new('shape-differs', nd, info)
    elif sorted(map(repr, obs)) == sorted(map(repr, exp_flat)) or (k != 'str' and len(obs) == len(exp_flat) and
                                                                    any(values_equal(k, cbits, list(p), exp_flat, be) for p in
                                                                        itertools.islice(itertools.permutations(obs), 0, 720))):
        rd.new('element-order-differs', nd, info)
    else:
        rd.new('value-differs', nd, info)


def twins(be, opt, nd, exp_shape, exp_flat, cbits):
    """candidate defective read-backs: [(keys, shape, flat, float-bits to compare at)]"""
    k, bits, uns = dt_info(nd['dt'])
    out = []
    if be == 'fortran':
        vt = []       # value transforms
        if k == 'float' and bits in (64, 128):
            vt.append(('real8-default-kind-literal', [f32(v) for v in exp_flat], 64))
        if k == 'str' and has_dquote(nd):
            tw = [fortran_literal_twin(s) for s in exp_flat]
            if all(t is not None for t in tw):
                vt.append(('unescaped-double-quote', tw, cbits))
        base = [((), exp_flat, cbits)] + [((key,), fl, b) for key, fl, b in vt]
        for keys, fl, b in base:
            if keys:
                out.append((list(keys), exp_shape, fl, b))
            if exp_shape and len(exp_shape) >= 2:
                out.append((list(keys) + ['reshape-column-major'], exp_shape, forder(fl, exp_shape), b))
    elif be in ('c', 'cpp'):
        if k == 'str' and has_dquote(nd):
            tw = [c_literal_twin(s) for s in exp_flat]
            if all(t is not None for t in tw):
                out.append((['unescaped-double-quote'], exp_shape, tw, cbits))
    elif be == 'bash':
        if bash_feature(nd):
            tw = bash_twin(nd, opt.get('export', True))
            if tw not in (None, 'unset'):
                out.append((bash_keys(nd), tw[0], tw[1], cbits))
    return out


# ================================================================================ case driver

def case_classes(be, opt, sel):
    cl = {'be:' + be}
    cl.add('rename:' + ('on' if opt.get('rename', True) else 'off'))
    if be in DATAFMT:
        cl.add('units:' + ('on' if opt.get('units', True) else 'off'))
    q, t = opt.get('query'), opt.get('tags')
    if q is not None and q != '*':
        cl.add('select:query')
        cl.add('select:query-' + ('group' if q.endswith('.*') else 'leaf'))
    if t:
        cl.add('select:tags')
    if q is None and not t:
        cl.add('select:none')
    if opt.get('define'):
        cl.add('opt:define')
    if opt.get('const'):
        cl.add('opt:const')
    if be == 'bash':
        cl.add('bash-export:' + ('on' if opt.get('export', True) else 'off'))
    olabel = ','.join(sorted(c for c in cl if not c.startswith('be:')))
    nontrivial = bool(t) or (q is not None and q != '*')
    for rel, nd in sel:
        k, bits, uns = dt_info(nd['dt'])
        rank = len(nd['shape']) if nd['shape'] else 0
        cl.add('dtype:' + nd['dt'])
        cl.add('rank:%d' % rank)
        cl.add('x:%s:%s:r%d' % (be, nd['dt'], rank))
        if '.' in rel:
            cl.add('path:dotted')
        if nd['unit']:
            cl.add('has:unit')
        if nd['value'] is None:
            cl.add('value:none'); nontrivial = True
            continue
        flat = flatten(nd['value'])
        if rank:
            nontrivial = True
        if k == 'str':
            if any(' ' in s for s in flat):
                cl.add('str:blank')
            if any('"' in s for s in flat):
                cl.add('str:dquote'); nontrivial = True
            if any("'" in s for s in flat):
                cl.add('str:squote'); nontrivial = True
            if any(s in LOOKALIKE for s in flat):
                cl.add('str:lookalike')
            if any(s in PUNCT or any(c in s for c in '!&;*~|%?<>=$`\\(){}^@') for s in flat):
                cl.add('str:punctuation'); nontrivial = True
            if rank and any(any(c in s for c in '[]{},;') for s in flat):
                cl.add('str-array-element-with-array-notation-characters'); nontrivial = True
        if k == 'int':
            lo, hi = INT_RANGE[(bits, uns)]
            if any(v in (lo, hi, lo + 1, hi - 1) or abs(v) >= 2 ** 31 - 1 for v in flat):
                cl.add('int:boundary'); nontrivial = True
        if k == 'float' and any(len(repr(abs(v)).replace('.', '').replace('-', '').split('e')[0].strip('0')) >= 16 for v in flat):
            cl.add('float:17digits'); nontrivial = True
    cl.add('x:%s:%s' % (be, olabel))
    return cl, nontrivial


def run_case(case, ctx):
    be, opt, nodes = case['be'], case['opt'], case['env']
    try:
        return _run_case(be, opt, nodes, ctx)
    finally:
        leak = ctx['hyg'].check_restore()
        if leak:
            ctx['leaks'] = ctx.get('leaks', 0) + 1


def _run_case(be, opt, nodes, ctx):
    R = ctx['R']
    devs, mon, sample = [], {}, None
    sel0 = select_model(nodes, opt.get('query'), opt.get('tags'))
    classes, nontrivial = case_classes(be, opt, sel0)
    cur = list(nodes)
    rounds = 0
    try:
        while True:
            rounds += 1
            rd = run_round(ctx, be, opt, cur, rounds == 1)
            for k2, v in rd.mon.items():
                mon[k2] = mon.get(k2, 0) + v
            if rd.skip:
                if rounds == 1:
                    return outcome(skip=rd.skip, monitors=mon)
                devs.append(dev(be + ':reduced-environment-not-checkable', dict(reason=rd.skip, sample=rd.sample)))
                break
            if sample is None or (rounds > 1 and not rd.again):
                if rd.sample:
                    rd.sample['round'] = rounds
                    sample = rd.sample if sample is None else dict(first_round=dict(status=sample.get('status'), exported=sample.get('exported', '')[:300]),
                                                                   **rd.sample)
            devs += rd.devs
            if not rd.again or not rd.offenders:
                break
            if rounds >= 5:
                devs.append(dev(be + ':still-unreadable-after-removing-blamed-symbols', dict(offenders=sorted(rd.offenders))))
                break
            cur = [nd for nd in cur if nd['path'] not in rd.offenders]
            mon['reruns_without_blamed_symbols'] = mon.get('reruns_without_blamed_symbols', 0) + 1
            if not cur:
                break
    except R.HarnessProblem:
        raise
    # one deviation per (mechanism, known key): keep the first witness
    seen, uniq = set(), []
    for d in devs:
        key = (d['mech'], d.get('known'))
        if key not in seen:
            seen.add(key)
            uniq.append(d)
    fp = hashlib.sha1(json.dumps([be, opt, nodes], sort_keys=True).encode()).hexdigest()
    mon['rounds'] = rounds
    return outcome(classes=sorted(classes), nontrivial=nontrivial, fp=fp, dev=uniq, monitors=mon, sample=sample)


def teardown(ctx):
    return dict(monitors={'table_leaks_restored': ctx.get('leaks', 0)})


# ================================================================================ pinned witnesses

def _n(path, dt, value, shape=None, unit=None, tags=None):
    return dict(path=path, dt=dt, shape=shape, value=value, unit=unit, tags=tags)


def pinned(ctx):
    keep = _n('keep', 'int', 7)
    W = []

    def add(be, key, nodes, opt=None):
        o = dict(rename=True) if be in MAPPED else dict()
        o.update(opt or {})
        W.append(('C19-%s-%s' % (be, key), dict(env=nodes + [keep], be=be, opt=o, envno=-1)))

    add('fortran', 'reshape-column-major', [_n('mat', 'int', [[1, 2, 3], [4, 5, 6]], [2, 3])])
    add('fortran', 'real8-default-kind-literal', [_n('h', 'float', 0.1)])
    add('fortran', 'int-literal-above-default-kind', [_n('num_groups', 'uint64', 2399495729)])
    add('fortran', 'unsigned-above-signed-range', [_n('u', 'uint16', 65535)])
    add('fortran', 'char-array-unequal-length', [_n('names', 'str', ['ab', 'c'], [2])])
    add('fortran', 'unescaped-double-quote', [_n('title', 'str', 'Conf "test" it')])
    for be in ('c', 'cpp', 'rust', 'fortran'):
        add(be, 'none-emitted-as-bare-None', [_n('stars', 'int', None)])
        add(be, 'none-str-emitted-as-text-None', [_n('label', 'str', None)])
    for be in ('c', 'cpp', 'rust'):
        add(be, 'unescaped-double-quote', [_n('title', 'str', 'Conf "test" it')])
    add('bash', 'unescaped-double-quote', [_n('title', 'str', 'Conf "test" it')], dict(export=True))
    add('bash', 'string-array-double-quoted', [_n('names', 'str', ['a b', 'c'], [2])], dict(export=True))
    add('dip', 'export-array-typeerror', [_n('primes', 'int', [3, 5, 7], [3])])
    add('dip', 'export-array-collapsed', [_n('flags', 'bool', [True, False], [2])])
    add('dip', 'export-none-typeerror', [_n('stars', 'int', None)])
    add('dip', 'export-none-as-value', [_n('radiation', 'bool', None)])
    return W
