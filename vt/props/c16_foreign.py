"""Runs the workload of ANOTHER DIP check (C13, C14, C17, C18) in this process with the C16 post-condition attached to the
real DIP.parse (record mode) and prints what the post-condition saw as JSON.  Started as a subprocess by c16.run_foreign():

    python -m vt.props.c16_foreign <PID> <seed> <ncases>

The foreign check's own verdicts are ignored here (that check reports them itself); only the constraint post-condition
"every node of every returned environment satisfies the constraints stored on it" is evaluated."""
import sys, json, random, importlib


def main(pid, seed, n):
    from vt.refmodel import dip_ref_c16 as R
    R.attach_parse_contract('record')
    mod = importlib.import_module('vt.props.' + pid.lower())
    ctx = mod.setup()
    rng = random.Random(seed)
    ran = errors = 0
    for case in mod.cases(rng, 'quick', 1, 16, ctx):       # shard 1: no pinned/documented extras, plain generated cases
        if ran >= n:
            break
        try:
            mod.run_case(case, ctx)
        except Exception:
            errors += 1
        ran += 1
    nev, devs = R.drain_parse_deviations()
    print(json.dumps(dict(pid=pid, seed=seed, cases=ran, harness_errors=errors, evaluations=nev,
                          deviations=[dict(node=str(d.get('node')), kind=d.get('kind'), detail=repr(d.get('detail'))[:300], known=d.get('known')) for d in devs])))


if __name__ == '__main__':
    main(sys.argv[1], int(sys.argv[2]), int(sys.argv[3]))
