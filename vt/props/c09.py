"""C09 — Temporary custom units never outlive their scope.

Event log from wrappers around the real UnitEnvironment.__init__/close and DIP.parse, each event carrying a digest of
(UNIT_STANDARD keys in order + rows, UNIT_PREFIXES, UNIT_TYPES); an offline trace checker demands that the digest at the end
of every scope – normal exit, exception in the body, or failed construction – equals the digest at its opening, that nesting
is LIFO and that at the end of a history the tables equal the initial tables.  Usability inside / outside the scope is
checked directly.
"""
import json, os
from vt.core import outcome, dev
from vt.util import close
from vt.monitors import tables

ID = 'C09'
LEVEL = 'exploration'
RULE = ('histories of 1-10 steps: unit environments opened with valid units (dict form, Quantity form, prefixes, custom '
        'conversion type), registration failing after k>=0 successes (duplicate of a standard symbol, duplicate of an outer scope, '
        'prefixed clash found only by the final uniqueness check, malformed entry), bodies that raise, nested and repeated scopes, '
        'and DIP parses with $unit (valid, clashing with a table constant as 2nd unit, followed by an unrelated error, used in an '
        'expression, added through add_unit); non-trivial = a failing or nested scope or a DIP parse with custom units; '
        'distinct by event-type sequence + failure positions')
SHARDS = {'quick': 16, 'thorough': 16}
MIN_NONTRIVIAL = {'quick': 600, 'thorough': 15000}
REQUIRED_CLASSES = ['entry-with-explicit-name:long', 'entry-with-explicit-name:builtin-symbol', 'scope-valid', 'scope-nested', 'scope-repeated', 'scope-body-raises', 'fail:duplicate-standard', 'fail:duplicate-outer',
                    'fail:prefixed-clash', 'fail:malformed', 'fail:malformed-entry-with-new-conversion-type', 'fail:entry-admits-an-unknown-prefix', 'custom-type-unit-used-inside-scope', 'fail-after-successes', 'form:dict', 'form:quantity', 'form:prefixes', 'form:builtin-type', 'nested-scopes-share-a-conversion-class', 'overlapping-lifetimes', 'overlapping-lifetimes:class-brought-by-first', 'overlapping-lifetimes:class-brought-by-second',
                    'form:custom-type', 'dip:valid', 'dip:clash-second-unit', 'dip:unrelated-error', 'dip:expression', 'dip:add_unit',
                    'dip:nested-in-scope', 'dip:units-from-source']
REQUIRED_MONITORS = ['closed_environment_released_inside_next_scope', 'scope_events', 'scope_end_digest_compares', 'failed_open_digest_compares', 'parse_digest_compares',
                     'usable_inside_checks', 'unusable_outside_checks', 'end_of_history_compares']
ASSUMPTIONS = ['only input-driven failures are verdicts (no asynchronous exceptions injected at arbitrary lines)',
               'wrappers are attached to the imported real classes; nothing is edited in the repository']
KEY_CTOR = 'C09-failed-registration-leaks-units'

NAMES = ['foo', 'blip', 'zork', 'qux', 'wob', 'kip', 'vex', 'hud']
_counter = [0]


def setup():
    from scinumtools.units import unit_environment as UE
    from scinumtools.units import Quantity
    from scinumtools.units.unit_types import UnitType
    from scinumtools.dip import DIP
    log = []

    class CustomUnitType(UnitType):
        # an ACTIVE conversion class: every conversion that involves one of its units doubles the base value - a rule no
        # built-in type has, so that "usable inside the scope" can be observed for units registered with a class of their own
        process = []          # symbols of the units currently registered with this class (set by the harness)

        def _istype(self):
            if any(u in self.process for u in self.baseunits1.units + self.baseunits2.units):
                self.conversion = ('_convert_double',)
                return True
            return False

        def _convert_double(self, value):
            return 2 * value

    class CustomUnitType2(UnitType):
        def _istype(self):
            return False

    orig_init, orig_close = UE.UnitEnvironment.__init__, UE.UnitEnvironment.close
    orig_parse = DIP.parse

    def init(self, units):
        sid = id(self)
        try:
            syms = list(units.keys())
        except Exception:
            syms = None
        log.append(('open-attempt', sid, syms, tables.digest()))
        try:
            orig_init(self, units)
        except BaseException as e:
            log.append(('open-failed', sid, type(e).__name__ + ': ' + str(e)[:80], tables.digest()))
            raise
        log.append(('opened', sid, None, tables.digest()))

    def close_(self):
        try:
            return orig_close(self)
        finally:
            log.append(('closed', id(self), None, tables.digest()))

    def parse(self, *a, **k):
        log.append(('parse-begin', id(self), None, tables.digest()))
        try:
            r = orig_parse(self, *a, **k)
        except BaseException as e:
            log.append(('parse-raised', id(self), type(e).__name__ + ': ' + str(e)[:80], tables.digest()))
            raise
        log.append(('parse-end', id(self), None, tables.digest()))
        return r
    UE.UnitEnvironment.__init__ = init
    UE.UnitEnvironment.close = close_
    DIP.parse = parse
    from scinumtools.units.unit_types import StandardUnitType
    return dict(UE=UE.UnitEnvironment, Q=Quantity, DIP=DIP, log=log, CT=CustomUnitType, CT2=CustomUnitType2, STD=StandardUnitType, hyg=tables.Hygiene(), keep=[])


# ------------------------------------------------------------------ generation

def gen_units(rng, names, fail=None):
    """list of unit definitions [sym, form, magnitude, prefixes, custom_type]"""
    out = []
    for s in names:
        form = rng.choice(['dict', 'dict', 'quantity', 'prefixes', 'custom-type', 'custom-type', 'builtin-type'])
        out.append(dict(sym=s, form=form, mag=rng.choice([2.0, 0.5, 3.0, 12.5, 1e3]), pre=['k', 'M'] if form == 'prefixes' else None,
                        name=rng.choice([None, None, 'long', 'builtin-symbol', 'same', 'other-custom-symbol']), explicit_defaults=rng.random() < 0.2))
    if fail:
        kind, pos = fail
        pos = min(pos, len(out))
        bad = {'duplicate-standard': dict(sym=rng.choice(['m', 'kg', 'J', 'erg', '[c]', 'Pa']), form='dict', mag=1.0, pre=None),
               'prefixed-clash': dict(sym=rng.choice(['am', 'kPa', 'mm', 'GeV']), form='dict', mag=1.0, pre=None),
               'malformed': dict(sym='bad', form=rng.choice(['no-dimensions', 'no-magnitude', 'custom-type-no-dimensions', 'custom-type-no-magnitude', 'unknown-prefix-in-list', 'unknown-prefix-in-list']), mag=1.0, pre=None),
               'duplicate-outer': dict(sym='__outer__', form='dict', mag=1.0, pre=None)}[kind]
        out.insert(pos, bad)
    return out


def gen_scope(rng, depth, avail, outer, outer_ct=False):
    k = rng.randint(1, 3)
    names = [n for n in avail if n not in outer]
    rng.shuffle(names)
    names = names[:k]
    fail = None
    if rng.random() < 0.4:
        kinds = ['duplicate-standard', 'prefixed-clash', 'malformed'] + (['duplicate-outer'] if outer else [])
        fail = [rng.choice(kinds), rng.randint(0, k)]
    units = gen_units(rng, names, fail)
    shares = False
    if outer_ct and rng.random() < 0.6:
        # a unit of this (nested) scope uses the conversion class that an enclosing scope has registered already
        for u in units:
            if u['form'] in ('dict', 'quantity', 'prefixes', 'builtin-type', 'custom-type'):
                u['form'], u['pre'] = 'custom-type', None
                shares = True
                break
    if fail and fail[0] == 'duplicate-outer':
        for u in units:
            if u['sym'] == '__outer__':
                u['sym'] = rng.choice(sorted(outer))
    body = []
    if not fail:
        inner_outer = outer | set(names)
        for _ in range(rng.choice([0, 1, 1, 2])):
            r = rng.random()
            if r < 0.45 and depth < 3:
                body.append(gen_scope(rng, depth + 1, avail, inner_outer, outer_ct or any(u['form'] == 'custom-type' for u in units)))
            elif r < 0.7:
                body.append(gen_dip(rng, inner_outer))
            else:
                body.append(dict(t='use'))
    return dict(t='scope', units=units, fail=fail, body=body, body_raises=(not fail and rng.random() < 0.25), how=rng.choice(['with', 'with', 'manual']), shares_class=shares)


def gen_dip(rng, outer):
    kind = rng.choice(['valid', 'valid', 'clash-second-unit', 'unrelated-error', 'expression', 'add_unit', 'clash-third-unit', 'units-from-source'])
    free = [n for n in NAMES if n not in outer] + ['yam', 'zed']
    a, b = rng.sample(free, 2)
    v1, v2 = rng.choice([2, 3, 0.5]), rng.choice([4, 10])
    if kind == 'valid':
        text = '$unit %s = %s m\n$unit %s = %s s\nlen float = 3 [%s]\ndur float = 2 [%s]\nlen = 7 m\n' % (a, v1, b, v2, a, b)
    elif kind == 'clash-second-unit':
        text = '$unit %s = %s m\n$unit c = 2 m\nlen float = 3 m\n' % (a, v1)
    elif kind == 'clash-third-unit':
        text = '$unit %s = %s m\n$unit %s = %s s\n$unit c = 2 m\nlen float = 3 [%s]\n' % (a, v1, b, v2, a)
    elif kind == 'unrelated-error':
        text = '$unit %s = %s m\nlen float = 3 [%s]\n%s\n' % (a, v1, a, rng.choice(['bad float = {?missing}', 'x int = 3\nx = abc', 'len = 3 s', '@end']))
    elif kind == 'expression':
        text = '$unit %s = %s m\nlen float = 3 [%s]\nsum float = ("{?len} + 2 m") m\n' % (a, v1, a)
    elif kind == 'units-from-source':
        # units defined in a second file and requested through a source (only the table invariant is demanded of this path)
        text = '$source src = @FILE@\n$unit {src?%s}\nlen float = 3 m\n' % rng.choice(['*', '[%s]' % a])
        return dict(t='dip', kind=kind, text=text, add_unit=None, in_scope=bool(outer),
                    remote='$unit %s = %s m\n$unit %s = %s s\nq float = 1 [%s]\n' % (a, v1, b, v2, a))
    else:
        text = 'len float = 3 [%s]\n$unit %s = %s s\ndur float = 1 [%s]\n' % (a, b, v2, b)
    return dict(t='dip', kind=kind, text=text, add_unit=[a, v1, 'm'] if kind == 'add_unit' else None, in_scope=bool(outer))


def cases(rng, tier, shard, nshards, ctx):
    n = 1600 if tier == 'quick' else 40000
    for _ in range(n // nshards):
        hist = []
        for _ in range(rng.randint(1, 4)):
            r = rng.random()
            if r < 0.08:
                na, nb = rng.sample(NAMES, 2)
                # (both units with the SAME class is left out: the class belongs to the scope that registered it first, and with lifetimes that are not
                #  nested it goes when that scope goes - the statement speaks of nested scopes only)
                fa, fb = rng.choice([('custom-type', 'dict'), ('dict', 'custom-type'), ('dict', 'quantity'), ('prefixes', 'custom-type'), ('custom-type', 'quantity')])
                hist.append(dict(t='overlap', a=dict(sym=na, form=fa, mag=rng.choice([2.0, 0.5, 12.5]), pre=['k', 'M'] if fa == 'prefixes' else None),
                                 b=dict(sym=nb, form=fb, mag=rng.choice([3.0, 1e3]), pre=None)))
            elif r < 0.6:
                hist.append(gen_scope(rng, 1, NAMES, set()))
            else:
                hist.append(gen_dip(rng, set()))
        if rng.random() < 0.3 and hist and hist[0]['t'] == 'scope':
            hist.append(json.loads(json.dumps(hist[0])))      # repeated scope with the same symbols
            hist[-1]['repeated'] = True
        yield dict(hist=hist)


# ------------------------------------------------------------------ execution

class BodyError(Exception):
    pass


def unit_dict(ctx, u):
    L = [1, 0, 0, 0, 0, 0, 0, 0]
    if u['form'] == 'quantity':
        return ctx['Q'](u['mag'], 'm')
    if u['form'] == 'no-dimensions':
        return {'magnitude': u['mag']}
    if u['form'] == 'no-magnitude':
        return {'dimensions': L}
    if u['form'] == 'custom-type-no-dimensions':      # the malformed entry itself introduces a new conversion type
        return {'magnitude': u['mag'], 'definition': ctx['CT2']}
    if u['form'] == 'custom-type-no-magnitude':
        return {'dimensions': L, 'definition': ctx['CT2']}
    d = {'magnitude': u['mag'], 'dimensions': list(L)}
    if u['form'] == 'unknown-prefix-in-list':         # complete entry whose list of admitted prefixes names a prefix that does not exist
        d['prefixes'] = ['k', 'X']
        return d
    if u['form'] == 'prefixes':
        d['prefixes'] = list(u['pre'])
    if u['form'] == 'custom-type':
        d['definition'] = ctx['CT']
    if u['form'] == 'builtin-type':
        d['definition'] = ctx['STD']         # a conversion class that is registered already: the standard linear one
    # the optional settings of an entry written out: a NAME that is not the symbol (a long name, the symbol of a built-in unit,
    # the symbol of another custom unit of the history), defaults given explicitly
    nm = u.get('name')
    if nm:
        d['name'] = {'long': 'unit called ' + u['sym'], 'builtin-symbol': ['bar', 'm', 'Cel', 'dB'][len(u['sym']) % 4], 'same': u['sym'],
                     'other-custom-symbol': 'xa'}[nm]
    if u.get('explicit_defaults'):
        d.setdefault('definition', None)
        d.setdefault('prefixes', False)
    return d


def run_overlap(it, ctx, st):
    """two scopes whose lifetimes overlap WITHOUT being nested (opened A, B - closed A, B), outside any other scope.  Not a
    nesting, so the per-scope trace rule does not apply (its events are taken out of the log); demanded here: after A ends its
    units are gone and B's still work, after B ends the tables are what they were before A"""
    UE, Q, log = ctx['UE'], ctx['Q'], ctx['log']
    n0 = len(log)
    d0 = tables.digest()
    ua, ub = it['a'], it['b']
    st['classes'].add('overlapping-lifetimes')
    st['classes'].add('overlapping-lifetimes:class-brought-by-' + ('first' if ua['form'] == 'custom-type' else 'second' if ub['form'] == 'custom-type' else 'none'))
    st['nontrivial'] = True
    A = B = None
    try:
        A = UE({ua['sym']: unit_dict(ctx, ua)})
        B = UE({ub['sym']: unit_dict(ctx, ub)})
        check_usable(ctx, st, [ua, ub])
        A.close(); A = None
        check_unusable(ctx, st, [ua['sym']])
        check_usable(ctx, st, [ub])
        B.close(); B = None
        check_unusable(ctx, st, [ub['sym']])
    except Exception as e:
        st['devs'].append(dev('overlapping-scopes-raise', dict(a=ua, b=ub, exc=repr(e)[:160])))
    finally:
        for env in (B, A):
            if env is not None:
                try:
                    env.close()
                except Exception:
                    pass
    st['mon']['overlap_digest_compares'] = st['mon'].get('overlap_digest_compares', 0) + 1
    d1 = tables.digest()
    if d1 != d0:
        st['devs'].append(dev('tables-differ-after-two-overlapping-scopes-ended', dict(diff=tables.diff(d0, d1), a=ua, b=ub)))
    del log[n0:]


def run_items(items, ctx, st, active):
    for it in items:
        if it['t'] == 'overlap':
            if not active:
                run_overlap(it, ctx, st)
        elif it['t'] == 'scope':
            run_scope(it, ctx, st, active)
        elif it['t'] == 'dip':
            run_dip(it, ctx, st, active)
        elif it['t'] == 'use':
            check_usable(ctx, st, active)


def check_usable(ctx, st, active):
    Q = ctx['Q']
    ctx['CT'].process = [u['sym'] for u in active if u['form'] == 'custom-type']
    for u in active:
        if u['form'] == 'custom-type':
            # registered with a conversion class of its own: that class converts it (also into a unit of another dimension,
            # which no built-in class would do), and it is the class that governs conversions of its unit
            st['mon']['custom_type_usable_checks'] = st['mon'].get('custom_type_usable_checks', 0) + 1
            st['classes'].add('custom-type-unit-used-inside-scope')
            try:
                v = float(Q(3, u['sym']).value('s'))
                if not close(v, 2 * 3 * u['mag'], 1e-12):
                    st['devs'].append(dev('custom-conversion-class-gives-wrong-result', dict(unit=u, observed=v, expected=6 * u['mag'])))
                w = float(Q(3, u['sym']).value('m'))
                if not close(w, 2 * 3 * u['mag'], 1e-12):
                    st['devs'].append(dev('custom-conversion-class-not-used-for-its-unit', dict(unit=u, observed=w, expected=6 * u['mag'])))
            except Exception as e:
                st['devs'].append(dev('unit-with-custom-conversion-class-not-usable-inside-scope', dict(unit=u, exc=repr(e)[:120])))
            continue
        st['mon']['usable_inside_checks'] += 1
        try:
            v = float(Q(1, u['sym']).value('m'))
            ok = close(v, u['mag'], 1e-12)
            if ok and u['form'] == 'prefixes':
                ok = close(float(Q(1, 'k' + u['sym']).value('m')), 1e3 * u['mag'], 1e-12)
            if not ok:
                st['devs'].append(dev('registered-unit-has-wrong-meaning', dict(unit=u, observed=v)))
        except Exception as e:
            st['devs'].append(dev('registered-unit-not-usable-inside-scope', dict(unit=u, exc=repr(e)[:120])))


def check_unusable(ctx, st, syms):
    Q = ctx['Q']
    for s in syms:
        st['mon']['unusable_outside_checks'] += 1
        try:
            Q(1, s)
            st['devs'].append(dev('unit-usable-after-its-scope-ended', dict(symbol=s)))
        except Exception:
            pass


def run_scope(sc, ctx, st, active):
    UE = ctx['UE']
    units = {}
    for u in sc['units']:
        units[u['sym']] = unit_dict(ctx, u)
    st['classes'].add('scope-nested' if active else 'scope-valid' if not sc['fail'] else 'scope-failing')
    if sc.get('repeated'):
        st['classes'].add('scope-repeated')
    for u in sc['units']:
        if u['form'] in ('dict', 'quantity', 'prefixes', 'custom-type', 'builtin-type'):
            st['classes'].add('form:' + u['form'])
            if u.get('name') and u['form'] in ('dict', 'prefixes', 'custom-type', 'builtin-type'):
                st['classes'].add('entry-with-explicit-name:' + u['name'])
    if sc.get('shares_class') and active:
        st['classes'].add('nested-scopes-share-a-conversion-class')
    if sc['fail']:
        st['classes'].add('fail:' + sc['fail'][0])
        if sc['fail'][1] > 0:
            st['classes'].add('fail-after-successes')
        if any(u['form'].startswith('custom-type-no') for u in sc['units']):
            st['classes'].add('fail:malformed-entry-with-new-conversion-type')
        if any(u['form'] == 'unknown-prefix-in-list' for u in sc['units']):
            st['classes'].add('fail:entry-admits-an-unknown-prefix')
        st['nontrivial'] = True
    if active:
        st['nontrivial'] = True
    own = [u for u in sc['units']]
    try:
        env = UE(units)
    except Exception as e:
        if not sc['fail']:
            st['devs'].append(dev('valid-registration-raised', dict(units=sc['units'], exc=repr(e)[:150])))
        new = [u['sym'] for u in own if u['sym'] not in ('m', 'kg', 'J', 'erg', '[c]', 'Pa') and u['sym'] not in [a['sym'] for a in active]]
        check_unusable(ctx, st, [s for s in new if s not in ('am', 'kPa', 'mm', 'GeV')])
        return
    if sc['fail']:
        st['devs'].append(dev('invalid-registration-accepted', dict(units=sc['units'], fail=sc['fail'])))
    # the last environment object that was closed is released only NOW, with the new scope open - what `env = UnitEnvironment(..)`
    # does when one variable is re-used for repeated explicit scopes (an object that is closed must be inert)
    if ctx.get('prev_env') is not None:
        ctx['prev_env'] = None
        import gc
        gc.collect()
        st['mon']['closed_environment_released_inside_next_scope'] = st['mon'].get('closed_environment_released_inside_next_scope', 0) + 1
    inner = active + own
    try:
        check_usable(ctx, st, inner)
        run_items(sc['body'], ctx, st, inner)
        if sc['body_raises']:
            st['classes'].add('scope-body-raises')
            if sc['how'] == 'with':
                try:
                    with env:
                        raise BodyError()
                except BodyError:
                    pass
                env = None
    finally:
        if env is not None:
            if sc['how'] == 'with':
                with env:
                    pass
            else:
                env.close()
            ctx['prev_env'] = env
    check_unusable(ctx, st, [u['sym'] for u in own])


def run_dip(it, ctx, st, active):
    DIP = ctx['DIP']
    _counter[0] += 1
    st['classes'].add('dip:' + it['kind'].replace('clash-third-unit', 'clash-second-unit'))
    if active:
        st['classes'].add('dip:nested-in-scope')
    st['nontrivial'] = True
    p = DIP(name='c09_%d' % _counter[0])
    ctx['keep'].append(p)
    if len(ctx['keep']) > 50:
        del ctx['keep'][:25]
    if it['add_unit']:
        p.add_unit(*it['add_unit'])
    tmpd = None
    text = it['text']
    if it.get('remote'):
        import tempfile
        tmpd = tempfile.mkdtemp(prefix='vt_c09_')
        with open(os.path.join(tmpd, 'u.dip'), 'w') as f:
            f.write(it['remote'])
        text = text.replace('@FILE@', os.path.join(tmpd, 'u.dip'))
    p.add_string(text)
    try:
        env = p.parse()
        try:
            env.data()
        except Exception:
            pass
        if it['kind'] in ('clash-second-unit', 'clash-third-unit'):
            pass    # whether the clash is rejected belongs to C14/C16, not to this property
    except Exception:
        pass
    finally_rm = tmpd
    import re
    check_unusable(ctx, st, ['[%s]' % n for n in re.findall(r'\$unit (\w+)', it['text'] + (it.get('remote') or '')) if n != 'c'] +
                   (['[%s]' % it['add_unit'][0]] if it['add_unit'] else []))
    if finally_rm:
        import shutil
        shutil.rmtree(finally_rm, ignore_errors=True)


def check_trace(log, st, start_digest):
    """offline checker over the recorded event log"""
    stack = []         # (sid, digest at open attempt)
    pending = {}
    parse_stack = []
    for ev, sid, info, dg in log:
        st['mon']['scope_events'] += 1
        if ev == 'open-attempt':
            pending[sid] = dg
        elif ev == 'open-failed':
            st['mon']['failed_open_digest_compares'] += 1
            d0 = pending.pop(sid, None)
            if d0 is not None and dg != d0:
                st['devs'].append(dev('failed-registration-leaves-units-registered', dict(error=info, diff=tables.diff(d0, dg)), known=KEY_CTOR))
        elif ev == 'opened':
            stack.append((sid, pending.pop(sid, None)))
        elif ev == 'closed':
            if not stack or stack[-1][0] != sid:
                idx = [i for i, (s, _) in enumerate(stack) if s == sid]
                if not idx:
                    continue      # close() of a scope whose construction failed (rollback path) or double close
                st['devs'].append(dev('scopes-not-closed-in-lifo-order', dict()))
                d0 = stack.pop(idx[-1])[1]
            else:
                d0 = stack.pop()[1]
            st['mon']['scope_end_digest_compares'] += 1
            if d0 is not None and dg != d0:
                st['devs'].append(dev('tables-differ-after-scope-end', dict(diff=tables.diff(d0, dg))))
        elif ev == 'parse-begin':
            parse_stack.append((sid, dg, len(stack)))
        elif ev in ('parse-end', 'parse-raised'):
            if parse_stack:
                _, d0, depth = parse_stack.pop()
                st['mon']['parse_digest_compares'] += 1
                if dg != d0:
                    st['devs'].append(dev('tables-differ-after-dip-parse' + ('-that-raised' if ev == 'parse-raised' else ''),
                                          dict(error=info, diff=tables.diff(d0, dg)),
                                          known=KEY_CTOR if leak_explained_by_failed_open(log, d0, dg) else None))
                if len(stack) != depth:
                    st['devs'].append(dev('dip-parse-leaves-a-unit-scope-open', dict(open_scopes=len(stack) - depth)))
                    del stack[depth:]
    if stack:
        st['devs'].append(dev('scope-never-closed', dict(n=len(stack))))


def leak_explained_by_failed_open(log, d0, d1):
    """the tables changed over a parse; known iff some open-failed event inside already shows exactly that leak"""
    keys_added = set(tables.diff(d0, d1).get('unit_keys_added', []))
    if not keys_added or set(tables.diff(d0, d1)) - {'unit_keys_added', 'unit_keys_removed'}:
        return False
    leaked = set()
    pend = {}
    for ev, sid, info, dg in log:
        if ev == 'open-attempt':
            pend[sid] = dg
        elif ev == 'open-failed' and sid in pend:
            leaked |= set(tables.diff(pend[sid], dg).get('unit_keys_added', []))
    return keys_added <= leaked


def run_case(case, ctx):
    log = ctx['log']
    del log[:]
    start = tables.digest()
    st = dict(devs=[], classes=set(), nontrivial=False,
              mon=dict(scope_events=0, scope_end_digest_compares=0, failed_open_digest_compares=0, parse_digest_compares=0,
                       usable_inside_checks=0, unusable_outside_checks=0, end_of_history_compares=0))
    harness_exc = None
    try:
        run_items(case['hist'], ctx, st, [])
    except Exception as e:
        harness_exc = e
    check_trace(list(log), st, start)
    st['mon']['end_of_history_compares'] += 1
    end = tables.digest()
    if end != start:
        d = tables.diff(start, end)
        st['devs'].append(dev('tables-differ-at-end-of-history', dict(diff=d),
                              known=KEY_CTOR if any(x['known'] == KEY_CTOR for x in st['devs']) else None))
    ctx['hyg'].check_restore()
    if harness_exc is not None:
        raise harness_exc
    # consequences of a leak that the known mechanism already explains in this history carry the same key
    if any(d['known'] == KEY_CTOR for d in st['devs']):
        for d in st['devs']:
            if d['known'] is None and d['mech'] in ('tables-differ-after-scope-end', 'unit-usable-after-its-scope-ended', 'valid-registration-raised',
                                                    'tables-differ-at-end-of-history', 'tables-differ-after-dip-parse', 'tables-differ-after-dip-parse-that-raised',
                                                    'registered-unit-has-wrong-meaning'):
                d['known'] = KEY_CTOR
    # dedupe
    seen, dd = set(), []
    for d in st['devs']:
        if (d['mech'], d['known']) not in seen:
            seen.add((d['mech'], d['known']))
            dd.append(d)
    evs = [e[0] for e in log]
    fp = json.dumps([evs, [(i.get('fail'), i.get('kind')) for i in case['hist']]])
    return outcome(classes=sorted(st['classes']), nontrivial=st['nontrivial'], fp=fp, dev=dd, monitors=st['mon'],
                   sample=dict(history=summar(case['hist']), events=evs[:24]))


def summar(items):
    out = []
    for it in items:
        if it['t'] == 'scope':
            out.append(dict(scope=[u['sym'] + ':' + u['form'] for u in it['units']], fail=it['fail'], body=summar(it['body']), body_raises=it['body_raises']))
        elif it['t'] == 'dip':
            out.append(dict(dip=it['kind'], text=it['text']))
        else:
            out.append('use')
    return out


def pinned(ctx):
    mk = lambda s, form='dict': dict(sym=s, form=form, mag=2.0, pre=None)
    return [
        (KEY_CTOR, dict(hist=[dict(t='scope', units=[mk('foo'), mk('m')], fail=['duplicate-standard', 1], body=[], body_raises=False, how='with')])),
        (KEY_CTOR, dict(hist=[dict(t='scope', units=[mk('foo'), mk('am')], fail=['prefixed-clash', 1], body=[], body_raises=False, how='with')])),
        (KEY_CTOR, dict(hist=[dict(t='scope', units=[mk('foo'), mk('bad', 'no-dimensions')], fail=['malformed', 1], body=[], body_raises=False, how='with')])),
        (KEY_CTOR, dict(hist=[dict(t='dip', kind='clash-second-unit', text='$unit foo = 1 m\n$unit c = 2 m\nlen float = 3 m\n', add_unit=None, in_scope=False),
                              dict(t='dip', kind='valid', text='$unit foo = 2 m\nlen float = 3 [foo]\n', add_unit=None, in_scope=False)])),
    ]
