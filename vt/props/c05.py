"""C05 — Temperature and logarithmic conversions follow their formulas and invert."""
import math
from vt.core import outcome, dev
from vt.util import close
from vt.refmodel import templog_ref as R

ID = 'C05'
LEVEL = 'exploration'
RULE = ('all ordered pairs of {K (every prefix), Cel, degF, degR}; every documented log/linear pair (B,Np <-> PR,AR; '
        'B <-> Np; each dB-family unit <-> its standard unit with every prefix on the linear side; dBm/dBmW/dBW and '
        'dBV/dBuV offsets; fraction form dBm/Hz <-> W/Hz) in both directions with admissible prefixes on the level side; '
        'identity u->u for every unit of both families; level sums and differences; N magnitudes per pair from the '
        'physically meaningful range; non-trivial = u != v, identity of an offset/log unit, or a level sum; '
        'distinct by (u, v, magnitude bucket)')
SHARDS = {'quick': 16, 'thorough': 16}
MIN_NONTRIVIAL = {'quick': 3000, 'thorough': 50000}
REQUIRED_CLASSES = ['target-given-as-unit-object', 'magnitude-with-uncertainty', 'array-magnitude', 'temperature', 'temperature-prefixed-kelvin', 'temperature-identity', 'level-to-linear', 'linear-to-level',
                    'ratio', 'bel-neper', 'level-offset', 'log-identity', 'level-sum', 'level-difference', 'fraction-form',
                    'power-like', 'amplitude-like', 'neper']
REQUIRED_MONITORS = ['repeated_value_query_compares', 'forward_compares', 'inverse_compares', 'identity_compares', 'sum_compares']
ASSUMPTIONS = ['reference formulas are written from the definitions (vt/refmodel/templog_ref.py), SI prefixes hard-coded',
               'rtol 1e-9 plus an absolute term 1e-9*max(|T|,273.15) K for affine maps and 1e-9 bel for levels',
               'B<->Np is compared with ln(10)/2 (the value the two documented definitions imply: B = log10 PR, Np = ln(PR)/2) to 1e-9, like every other pair',
               'cross-family level conversions the docs do not list, Np+Np, and fraction forms whose denominator carries '
               'a factor on the level side (dBm/kHz) are not demanded']
EXHAUSTIVE_SUBSPACES = {'quick': ['all ordered temperature unit pairs incl. every prefixed kelvin', 'all documented log/linear unit pairs x admissible prefixes'],
                        'thorough': ['all ordered temperature unit pairs incl. every prefixed kelvin', 'all documented log/linear unit pairs x admissible prefixes']}
KEY_IDENT = 'C05-identity-conversion-missing'
KEY_NPCONST = 'C05-bel-neper-constant-imprecise'
OLD_NP_PER_B = 1.151277918      # the constant the library shipped (buggy twin of the repaired finding)

PREF = [p for p in R.SI_PREFIX if p]
TEMPS = [('', 'K'), ('', 'Cel'), ('', 'degF'), ('', 'degR')] + [(p, 'K') for p in PREF]
LIN_PREF = ['', 'k', 'm', 'u', 'M', 'n', 'G', 'p', 'da', 'h', 'd', 'c', 'T', 'f', 'a', 'P', 'E', 'Z', 'Y', 'z', 'y']


def setup():
    from scinumtools.units import Quantity
    from vt.monitors.tables import Hygiene
    return dict(Q=Quantity, hyg=Hygiene())


def pairs():
    """all unit pairs (deterministic order)"""
    out = []
    for a in TEMPS:
        for b in TEMPS:
            if a[1] == 'K' and b[1] == 'K' and a[0] and b[0]:
                continue    # prefixed K -> prefixed K is plain linear conversion (C04)
            out.append(dict(t='temp', src=list(a), dst=list(b)))
    for sym, (k, lin, ref) in R.LEVELS.items():
        for lp in ('', 'd'):
            for p in LIN_PREF:
                if lin == 'W/m2':
                    lt = p + 'W/m2'
                else:
                    lt = p + lin
                out.append(dict(t='lvl', sym=sym, lp=lp, lin=lt, linp=p, dir='to-linear'))
                out.append(dict(t='lvl', sym=sym, lp=lp, lin=lt, linp=p, dir='to-level'))
    for rsym in R.RATIOS:
        for lsym, lps in (('B', ('', 'd')), ('Np', ('', 'c', 'd'))):
            for lp in lps:
                out.append(dict(t='ratio', rsym=rsym, lsym=lsym, lp=lp, dir='to-ratio'))
                out.append(dict(t='ratio', rsym=rsym, lsym=lsym, lp=lp, dir='to-level'))
    for bp in ('', 'd'):
        for np_ in ('', 'c', 'd'):
            out.append(dict(t='bnp', bp=bp, np=np_, dir='b-to-np'))
            out.append(dict(t='bnp', bp=bp, np=np_, dir='np-to-b'))
    for (a, b), off in R.LEVEL_OFFSETS.items():
        for pa in ('', 'd'):
            for pb in ('', 'd'):
                out.append(dict(t='offset', a=a, b=b, pa=pa, pb=pb))
    ident = [('', 'Cel'), ('', 'degF'), ('', 'degR'), ('', 'K'), ('m', 'K'), ('', 'Np'), ('c', 'Np'), ('d', 'Np'), ('', 'B'), ('d', 'B'),
             ('', 'PR'), ('', 'AR')]
    for sym in R.LEVELS:
        ident += [('', sym), ('d', sym)]
    for p, u in ident:
        out.append(dict(t='ident', p=p, u=u))
    for sym in list(R.LEVELS) + ['B']:
        for lp in ('', 'd'):
            out.append(dict(t='sum', sym=sym, lp=lp, sign=1))
            out.append(dict(t='sum', sym=sym, lp=lp, sign=-1))
    for lsym in ('Bm', 'BmW'):
        for den in ('Hz', 's'):
            for p in ('', 'm', 'k', 'u'):
                for dp in ('', 'k', 'M'):
                    dd = dp + den if den == 'Hz' else den
                    out.append(dict(t='frac', lsym=lsym, den=den, lin=p + 'W/' + dd, linp=p, denp=dp if den == 'Hz' else '', dir='to-linear'))
    return out


def cases(rng, tier, shard, nshards, ctx):
    n = 40 if tier == 'quick' else 1200
    i = 0
    for pr in pairs():
        for k in range(n):
            i += 1
            if i % nshards != shard:
                continue
            c = dict(pr)
            c['r'] = [rng.random(), rng.random(), rng.random()]
            c['k'] = k
            yield c


def run_case(case, ctx):
    out = _run(case, ctx)
    if ctx['hyg'].check_restore():
        out['monitors']['table_leaks_restored'] = 1
    return out


def ident_known(u1, u2, exc):
    return (u1 == u2 and u1 in ('Cel', 'degF', 'Np') and 'Conversion method is not implemented' in str(exc))


def _run(case, ctx):
    Q = ctx['Q']
    t = case['t']
    r = case['r']
    devs, mon, classes = [], {}, []

    as_array = case['k'] % 4 == 1        # every fourth magnitude of a pair goes through a NumPy array magnitude
    obj_target = case['k'] % 3 == 1      # every third in-place conversion names its target by a unit OBJECT (Unit(v) / Quantity(1, v)), not a string

    def tgt(v):
        if not obj_target:
            return v
        classes.append('target-given-as-unit-object') if 'target-given-as-unit-object' not in classes else None
        mon['unit_object_targets'] = mon.get('unit_object_targets', 0) + 1
        from scinumtools.units import Unit
        return Unit(v) if case['k'] % 2 else Q(1.0, v)
    uncertain = case['k'] % 4 == 3       # every fourth one carries a measurement uncertainty: the VALUE still follows the formula

    def conv(x, u, v, how='to'):
        if as_array:
            # the scalar sits in the middle of an array; the neighbours must not influence it and must stay finite
            classes.append('array-magnitude') if 'array-magnitude' not in classes else None
            q = Q([x, x, x], u)
            if how == 'to':
                q.to(tgt(v))
                vals = q.magnitude.value
            else:
                vals = q.value(v)
                # asking a second time is the same conversion of the same quantity: same answer, and the quantity still
                # reports what it was given
                again = [float(z) for z in q.value(v)]
                mon['repeated_value_query_compares'] = mon.get('repeated_value_query_compares', 0) + 1
                if not all(a == b or (a != a and b != b) or close(a, b, 1e-12, 0.0) for a, b in zip(again, [float(z) for z in vals])):
                    devs.append(dev('repeated-value-query-gives-another-result', dict(u=u, v=v, x=x, first=[float(z) for z in vals], second=again)))
                kept = [float(z) for z in q.magnitude.value]
                if not all(close(z, x, 1e-12, 0.0) or z == x for z in kept) or q.units() != Q(1.0, u).units():
                    devs.append(dev('value-query-changes-the-array-quantity', dict(u=u, v=v, x=x, now=repr(q)[:120])))
            vals = [float(z) for z in vals]
            if not (vals[0] == vals[1] == vals[2]) and not all(z != z for z in vals):
                devs.append(dev('array-elements-converted-differently', dict(u=u, v=v, x=x, observed=vals)))
            return vals[1], q
        if uncertain:
            classes.append('magnitude-with-uncertainty') if 'magnitude-with-uncertainty' not in classes else None
            mon['uncertain_magnitude_conversions'] = mon.get('uncertain_magnitude_conversions', 0) + 1
            if case['k'] % 8 == 3 or x == 0:
                q = Q(x, u, abse=abs(x) * 0.2 + 0.5)
            else:
                q = Q(x, u, rele=10)
        else:
            q = Q(x, u)
        if how == 'to':
            q.to(tgt(v))
            return float(q.magnitude.value), q
        return float(q.value(v)), q

    def check(obs, exp, what, counter, rtol=1e-9, atol=0.0, info=None):
        mon[counter] = mon.get(counter, 0) + 1
        if not close(obs, exp, rtol, atol):
            devs.append(dev(what, dict(info or {}, observed=obs, expected=exp)))

    def guarded(fn, u1sym, u2sym, what, info):
        """run fn; an exception is a deviation (known when it is the missing-identity mechanism)"""
        try:
            return fn()
        except Exception as e:
            devs.append(dev(what + '-raised', dict(info, exc='%s: %s' % (type(e).__name__, str(e)[:120])),
                            known=KEY_IDENT if ident_known(u1sym, u2sym, e) else None))
            return None

    if t == 'temp':
        (sp, su), (dp, du) = case['src'], case['dst']
        classes.append('temperature')
        if sp or dp:
            classes.append('temperature-prefixed-kelvin')
        K = [0.0, 273.15, 10 ** (r[0] * 6 - 2), r[0] * 600, 255.3722222222222][case['k'] % 5] if case['k'] < 5 else 10 ** (r[0] * 9 - 3)
        x = R.from_kelvin(K, sp, su)
        ut, vt = sp + su, dp + du
        exp = R.from_kelvin(R.to_kelvin(x, sp, su), dp, du)
        atol_d = 1e-9 * max(abs(K), 273.15) / R.temp_step(dp, du)
        atol_s = 1e-9 * max(abs(K), 273.15) / R.temp_step(sp, su)
        info = dict(u=ut, v=vt, x=x, kelvin=K)
        same = (ut == vt)
        if same:
            classes.append('temperature-identity')
        for how in ('to', 'value'):
            res = guarded(lambda: conv(x, ut, vt, how), su, du, 'temperature-conversion', info)
            if res is not None:
                check(res[0], exp, 'temperature-identity' if same else 'temperature-formula', 'identity_compares' if same else 'forward_compares', 1e-9, atol_d, dict(info, how=how))
                if how == 'to' and res[1].units() != vt:
                    devs.append(dev('temperature-target-units', dict(info, units=res[1].units())))
        back = guarded(lambda: float(Q(x, ut).to(vt).to(ut).magnitude.value), su, du, 'temperature-roundtrip', info)
        if back is not None:
            check(back, x, 'temperature-roundtrip', 'inverse_compares', 1e-9, atol_s, info)
        return outcome(classes=classes, nontrivial=(not same) or su in ('Cel', 'degF'), fp='temp %s %s %d' % (ut, vt, int(math.log10(K + 1e-3))),
                       dev=devs, monitors=mon, sample=dict(case='Quantity(%r,%r).to(%r)' % (x, ut, vt), expected=exp))

    if t in ('lvl', 'frac'):
        sym = case['sym'] if t == 'lvl' else case['lsym']
        k, lin, ref = R.LEVELS[sym]
        classes.append('power-like' if k == 1 else 'amplitude-like')
        lp = case.get('lp', 'd')
        lvl_text = lp + sym + (('/' + case['den']) if t == 'frac' else '')
        lin_text = case['lin']
        lin_scale = R.SI_PREFIX[case['linp']] / (R.SI_PREFIX[case.get('denp', '')] if t == 'frac' else 1.0)
        if t == 'frac':
            classes.append('fraction-form')
        bels = (r[0] * 40 - 20)          # -200 .. 200 dB
        if case['k'] % 7 == 0:
            bels = [0.0, 1.0, -3.0][case['k'] // 7 % 3]
        lvl_val = bels / R.SI_PREFIX[lp]
        lin_si = R.linear_from_level(bels, sym)
        lin_val = lin_si / lin_scale
        atol_l = 1e-9 / R.SI_PREFIX[lp]
        info = dict(level_unit=lvl_text, linear_unit=lin_text, bels=bels)
        if case['dir'] == 'to-linear':
            classes.append('level-to-linear')
            for how in ('to', 'value'):
                res = guarded(lambda: conv(lvl_val, lvl_text, lin_text, how), sym, lin, 'level-to-linear', info)
                if res is not None:
                    check(res[0], lin_val, 'level-to-linear-formula', 'forward_compares', 1e-9, 0.0, dict(info, x=lvl_val, how=how))
            back = guarded(lambda: float(Q(lvl_val, lvl_text).to(lin_text).to(lvl_text).magnitude.value), sym, lin, 'level-roundtrip', info)
            if back is not None:
                check(back, lvl_val, 'level-linear-level-roundtrip', 'inverse_compares', 1e-9, atol_l, info)
            smp = dict(case='Quantity(%r,%r).to(%r)' % (lvl_val, lvl_text, lin_text), expected=lin_val)
        else:
            classes.append('linear-to-level')
            for how in ('to', 'value'):
                res = guarded(lambda: conv(lin_val, lin_text, lvl_text, how), lin, sym, 'linear-to-level', info)
                if res is not None:
                    check(res[0], lvl_val, 'linear-to-level-formula', 'forward_compares', 1e-9, atol_l, dict(info, x=lin_val, how=how))
            back = guarded(lambda: float(Q(lin_val, lin_text).to(lvl_text).to(lin_text).magnitude.value), lin, sym, 'linear-roundtrip', info)
            if back is not None:
                check(back, lin_val, 'linear-level-linear-roundtrip', 'inverse_compares', 1e-9, 0.0, info)
            smp = dict(case='Quantity(%r,%r).to(%r)' % (lin_val, lin_text, lvl_text), expected=lvl_val)
        return outcome(classes=classes, nontrivial=True, fp='%s %s %s %s %d' % (t, lvl_text, lin_text, case['dir'], int(bels)), dev=devs, monitors=mon, sample=smp)

    if t == 'ratio':
        rsym, lsym, lp = case['rsym'], case['lsym'], case['lp']
        classes += ['ratio', 'power-like' if rsym == 'PR' else 'amplitude-like']
        if lsym == 'Np':
            classes.append('neper')
        lt = lp + lsym
        bels = r[0] * 24 - 12
        ratio = R.ratio_from_bels(bels, rsym)
        lvl = (bels if lsym == 'B' else R.nepers_from_ratio(ratio, rsym)) / R.SI_PREFIX[lp]
        atol_l = 1e-9 / R.SI_PREFIX[lp]
        info = dict(level_unit=lt, ratio_unit=rsym, ratio=ratio)
        if case['dir'] == 'to-ratio':
            for how in ('to', 'value'):
                res = guarded(lambda: conv(lvl, lt, rsym, how), lsym, rsym, 'level-to-ratio', info)
                if res is not None:
                    check(res[0], ratio, 'level-to-ratio-formula', 'forward_compares', 1e-9, 0.0, dict(info, x=lvl, how=how))
            back = guarded(lambda: float(Q(lvl, lt).to(rsym).to(lt).magnitude.value), lsym, rsym, 'ratio-roundtrip', info)
            if back is not None:
                check(back, lvl, 'level-ratio-level-roundtrip', 'inverse_compares', 1e-9, atol_l, info)
            smp = dict(case='Quantity(%r,%r).to(%r)' % (lvl, lt, rsym), expected=ratio)
        else:
            for how in ('to', 'value'):
                res = guarded(lambda: conv(ratio, rsym, lt, how), rsym, lsym, 'ratio-to-level', info)
                if res is not None:
                    check(res[0], lvl, 'ratio-to-level-formula', 'forward_compares', 1e-9, atol_l, dict(info, x=ratio, how=how))
            back = guarded(lambda: float(Q(ratio, rsym).to(lt).to(rsym).magnitude.value), rsym, lsym, 'ratio-roundtrip', info)
            if back is not None:
                check(back, ratio, 'ratio-level-ratio-roundtrip', 'inverse_compares', 1e-9, 0.0, info)
            smp = dict(case='Quantity(%r,%r).to(%r)' % (ratio, rsym, lt), expected=lvl)
        return outcome(classes=classes, nontrivial=True, fp='ratio %s %s %s %d' % (lt, rsym, case['dir'], int(bels * 2)), dev=devs, monitors=mon, sample=smp)

    if t == 'bnp':
        classes += ['bel-neper', 'neper']
        bt, nt = case['bp'] + 'B', case['np'] + 'Np'
        bels = r[0] * 40 - 20
        if case['dir'] == 'b-to-np':
            x, ut, vt = bels / R.SI_PREFIX[case['bp']], bt, nt
            exp = bels * R.NP_PER_B / R.SI_PREFIX[case['np']]
            s1, s2 = 'B', 'Np'
        else:
            x, ut, vt = bels / R.SI_PREFIX[case['np']], nt, bt
            exp = bels / R.NP_PER_B / R.SI_PREFIX[case['bp']]
            s1, s2 = 'Np', 'B'
        info = dict(u=ut, v=vt, x=x)
        res = guarded(lambda: conv(x, ut, vt, 'to'), s1, s2, 'bel-neper', info)
        if res is not None:
            mon['forward_compares'] = mon.get('forward_compares', 0) + 1
            if not close(res[0], exp, 1e-9, 1e-9):
                twin = exp * (OLD_NP_PER_B / R.NP_PER_B if case['dir'] == 'b-to-np' else R.NP_PER_B / OLD_NP_PER_B)
                devs.append(dev('bel-neper-ratio', dict(info, observed=res[0], expected=exp),
                                known=KEY_NPCONST if close(res[0], twin, 1e-9, 1e-9) else None))
        back = guarded(lambda: float(Q(x, ut).to(vt).to(ut).magnitude.value), s1, s2, 'bel-neper-roundtrip', info)
        if back is not None:
            check(back, x, 'bel-neper-roundtrip', 'inverse_compares', 1e-9, 1e-9, info)
        return outcome(classes=classes, nontrivial=True, fp='bnp %s %s %d' % (ut, vt, int(bels)), dev=devs, monitors=mon,
                       sample=dict(case='Quantity(%r,%r).to(%r)' % (x, ut, vt), expected=exp))

    if t == 'offset':
        classes.append('level-offset')
        a, b, pa, pb = case['a'], case['b'], case['pa'], case['pb']
        classes.append('power-like' if R.LEVELS[a][0] == 1 else 'amplitude-like')
        bels = r[0] * 40 - 20
        x = bels / R.SI_PREFIX[pa]
        exp = (bels + R.LEVEL_OFFSETS[(a, b)]) / R.SI_PREFIX[pb]
        ut, vt = pa + a, pb + b
        info = dict(u=ut, v=vt, x=x)
        for how in ('to', 'value'):
            res = guarded(lambda: conv(x, ut, vt, how), a, b, 'level-offset', info)
            if res is not None:
                check(res[0], exp, 'level-offset-formula', 'forward_compares', 1e-9, 1e-9 / R.SI_PREFIX[pb], dict(info, how=how))
        back = guarded(lambda: float(Q(x, ut).to(vt).to(ut).magnitude.value), a, b, 'level-offset-roundtrip', info)
        if back is not None:
            check(back, x, 'level-offset-roundtrip', 'inverse_compares', 1e-9, 1e-9 / R.SI_PREFIX[pa], info)
        return outcome(classes=classes, nontrivial=True, fp='offset %s %s %d' % (ut, vt, int(bels)), dev=devs, monitors=mon,
                       sample=dict(case='Quantity(%r,%r).to(%r)' % (x, ut, vt), expected=exp))

    if t == 'ident':
        p, u = case['p'], case['u']
        ut = p + u
        if u in ('K', 'Cel', 'degF', 'degR'):
            classes.append('temperature-identity')
            x = R.from_kelvin(10 ** (r[0] * 5 - 1), p, u)
        else:
            classes.append('log-identity')
            if u == 'Np':
                classes.append('neper')
            x = (r[0] * 40 - 20) / R.SI_PREFIX[p] if u not in ('PR', 'AR') else 10 ** (r[0] * 24 - 12)
        info = dict(u=ut, x=x)
        for how in ('to', 'value'):
            res = guarded(lambda: conv(x, ut, ut, how), u, u, 'identity', info)
            if res is not None:
                check(res[0], x, 'identity-conversion-changes-value', 'identity_compares', 1e-12, 1e-12 * max(1.0, abs(x)), dict(info, how=how))
        return outcome(classes=classes, nontrivial=u not in ('K', 'degR', 'PR', 'AR'), fp='ident %s %d' % (ut, case['k'] % 8), dev=devs, monitors=mon,
                       sample=dict(case='Quantity(%r,%r).to(%r)' % (x, ut, ut), expected=x))

    if t == 'sum':
        sym, lp, sign = case['sym'], case['lp'], case['sign']
        classes.append('level-sum' if sign > 0 else 'level-difference')
        ut = lp + sym
        a = r[0] * 20 - 10
        b = r[1] * 20 - 10
        if sign < 0:
            a, b = max(a, b), min(a, b)
            if a - b < 1e-3:
                a += 0.5
        exp = R.power_sum_bels(a, b, sign) / R.SI_PREFIX[lp]
        xa, xb = a / R.SI_PREFIX[lp], b / R.SI_PREFIX[lp]
        info = dict(u=ut, a=xa, b=xb, sign=sign)

        hist = {}

        def go():
            # the same two quantities are used twice: the documented power sum holds every time it is formed, not only the first
            qa, qb = Q(xa, ut), Q(xb, ut)
            res = (qa + qb) if sign > 0 else (qa - qb)
            again = (qa + qb) if sign > 0 else (qa - qb)
            hist['second'] = float(again.magnitude.value)
            hist['operands'] = (float(qa.magnitude.value), qa.units(), float(qb.magnitude.value), qb.units())
            return float(res.magnitude.value), res.units()
        res = guarded(go, sym, sym, 'level-sum', info)
        if res is not None:
            check(res[0], exp, 'level-power-sum', 'sum_compares', 1e-9, 1e-9 / R.SI_PREFIX[lp], info)
            if res[1] != ut:
                devs.append(dev('level-sum-units', dict(info, units=res[1])))
            check(hist['second'], exp, 'level-power-sum-formed-a-second-time', 'sum_compares', 1e-9, 1e-9 / R.SI_PREFIX[lp], info)
            oa, ua_, ob, ub_ = hist['operands']
            if not (close(oa, xa, 1e-12, 0.0) and close(ob, xb, 1e-12, 0.0) and ua_ == ut and ub_ == ut):
                devs.append(dev('level-sum-changes-an-operand', dict(info, operands_after=hist['operands'])))
        return outcome(classes=classes, nontrivial=True, fp='sum %s %d %d %d' % (ut, sign, int(a), int(b)), dev=devs, monitors=mon,
                       sample=dict(case='Quantity(%r,%r) %s Quantity(%r,%r)' % (xa, ut, '+' if sign > 0 else '-', xb, ut), expected=exp))
    raise ValueError(t)


def pinned(ctx):
    z = [0.5, 0.5, 0.5]
    return [(KEY_IDENT, dict(t='ident', p='', u='Cel', r=z, k=1)),
            (KEY_IDENT, dict(t='ident', p='', u='degF', r=z, k=1)),
            (KEY_IDENT, dict(t='ident', p='', u='Np', r=z, k=1))]
