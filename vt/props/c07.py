"""C07 — Operations on quantities never alter their operands.

Monitors: (1) icontract post-conditions on the real Quantity methods ("every quantity alive at entry keeps its
fingerprint", for in-place methods "... except self"), evaluated on every call the workload causes, also nested and
indirect ones; (2) twin differential: after the operation each operand must behave like a freshly built twin under a
probe sequence; (3) aliasing: in-place steps on the result must not change an operand and vice versa;
(4) the repository's own unit/material tests re-run with the contracts active in record-only mode.
"""
import os, sys, json, subprocess, tempfile
from decimal import Decimal
from vt.core import outcome, dev, HERE
from vt.monitors import contracts as C

ID = 'C07'
LEVEL = 'exploration'
RULE = ('operators (+ - * / ** neg ==, reflected with plain numbers), value(unit)/units(), slicing, NumPy ufuncs and handled '
        'functions applied to operand pairs of every kind (same unit, other unit of the same dimension, reciprocal, dimensionless, '
        'logarithmic, temperature, Decimal, arrays, with/without uncertainty) followed by 0-3 in-place steps (to, rebase, abse, rele, '
        'write through value()) on operands or result; non-trivial = a second Quantity operand or a follow-up in-place step; '
        'distinct by (operation, operand kinds and units, follow-up steps)')
SHARDS = {'quick': 16, 'thorough': 16}
MIN_NONTRIVIAL = {'quick': 2500, 'thorough': 60000}
REQUIRED_CLASSES = ['op:constructor-with-quantity-as-unit', 'write-into-handed-out-array', 'kind:same-dimension-units-in-one-expression', 'reflected-numpy', 'neutral-element-operand', 'op:+', 'op:-', 'op:*', 'op:/', 'op:==', 'op:pow', 'op:neg', 'op:getitem', 'op:value', 'op:ufunc', 'op:func', 'op:builtin-sum', 'both-operands-one-object', 'followup:toq', 'op:value-with-dtype', 'op:value-level-in-linear-unit', 'op:pow-fraction-object',
                    'reflected', 'kind:same-unit', 'kind:other-unit', 'kind:reciprocal', 'kind:nodim', 'kind:log', 'kind:temp',
                    'kind:decimal', 'kind:array', 'kind:uncertain', 'followup:to', 'followup:rebase', 'followup:abse', 'followup:rele',
                    'followup:write', 'followup-on-result', 'followup-on-operand', 'twin-probe', 'repo-tests-under-contracts']
REQUIRED_MONITORS = ['contract:Quantity.__add__', 'contract:Quantity.__sub__', 'contract:Quantity.__mul__', 'contract:Quantity.__truediv__',
                     'contract:Quantity.__pow__', 'contract:Quantity.__neg__', 'contract:Quantity.__eq__', 'contract:Quantity.__getitem__',
                     'contract:Quantity.__array_ufunc__', 'contract:Quantity.value', 'contract:Quantity.to', 'contract:Quantity.rebase',
                     'contract:Quantity.abse', 'contract:Quantity.rele', 'contract:HANDLED.linspace', 'contract:HANDLED.logspace',
                     'contract:Quantity.__radd__', 'contract:Quantity.__rsub__', 'contract:Quantity.__rmul__', 'contract:Quantity.__rtruediv__',
                     'twin_probes', 'aliasing_compares', 'result_identity_checks', 'repo_tests_contract_evaluations']
ASSUMPTIONS = ['fingerprint = type+bytes of value, error, units text, unit exponents, type+value of the cached unit factor',
               'an operation may raise; then the operands must still be unchanged',
               'contracts are record-only (they never abort the observed call)']

KEY_SUM = 'C07-sum-converts-right-operand'
KEY_EQ = 'C07-eq-converts-right-operand'
KEY_LOGSUM = 'C07-level-sum-overwrites-operands'
KEY_TRIG = 'C07-trig-converts-operand'
KEY_ARC = 'C07-inverse-trig-converts-operand'
KEY_LINSPACE = 'C07-linspace-converts-argument'
KEY_DECIMAL = 'C07-decimal-partner-promotes-operand'

FAM = {
    'length': ['m', 'km', 'cm', 'in', 'au', 'mm'],
    'time': ['s', 'ms', 'min', 'h'],
    'energy': ['J', 'erg', 'eV', 'kg*m2/s2', 'kJ'],
    'speed': ['m/s', 'km/h', 'mph'],
    'angle': ['rad', 'deg', "'"],
    'freq': ['Hz', 's-1', 'kHz'],
    'nodim': [None, '%', None],
    # compounds that hold two units of the same dimension (rebase() merges them)
    'area': ['m2', 'cm*m', 'cm2', 'km*mm', 'in*ft'],
    'energy-squared': ['J2', 'erg*J', 'kJ*eV'],
    'speed-mixed': ['km*m/s/mm', 'm/s', 'cm*ms-1'],
}
RECIP = {'time': 'freq', 'freq': 'time'}
LOGS = ['dBm', 'dBW', 'dB', 'dBV', 'Bm', 'dBSPL']
TEMPS = ['K', 'Cel', 'degF', 'degR', 'mK']
LOG_LINEAR = {'dBm': ['mW', 'W', 'Np'], 'dBW': ['W', 'kW'], 'dB': ['PR', 'AR', 'Np', 'B'], 'dBV': ['V', 'mV'], 'Bm': ['mW', 'dBm'], 'dBSPL': ['Pa']}
UFUNCS = ['sqrt', 'cbrt', 'power', 'sin', 'cos', 'tan', 'arcsin', 'arccos', 'arctan', 'isnan', 'absolute', 'negative', 'square']
FUNCS = ['linspace', 'logspace', 'abs', 'round', 'floor', 'ceil', 'sum', 'absolute']


def setup():
    import numpy as np
    C.install_quantity_contracts()
    from scinumtools.units import Quantity
    from vt.monitors.tables import Hygiene
    return dict(Q=Quantity, np=np, hyg=Hygiene(), counts0=dict(C.COUNTS))


# ------------------------------------------------------------------ generation

def gen_value(rng, arr, positive=False):
    def one():
        v = rng.choice([rng.uniform(0.1, 50), rng.uniform(0.1, 5), float(rng.randint(1, 9))])
        return v if positive or rng.random() < 0.75 else -v
    return [one() for _ in range(3)] if arr else one()


def gen_operand(rng, fam, unit=None, arr=False, allow_dec=True):
    u = unit if unit is not None or fam == 'nodim' and unit is None and False else unit
    spec = dict(v=gen_value(rng, arr, positive=fam in ('log', 'temp')), u=u, abse=None, dec=False)
    if rng.random() < 0.25 and not arr or (arr and rng.random() < 0.25):
        spec['abse'] = round(rng.uniform(0.01, 0.5), 3)
    return spec


def cases(rng, tier, shard, nshards, ctx):
    if shard == 0:
        yield dict(t='repo-tests', tests=['tests/units'] if tier == 'quick' else ['tests/units', 'tests/materials', 'tests/dip/test_expressions.py', 'tests/dip/test_finalizing.py'])
    n = 7000 if tier == 'quick' else 220000
    for _ in range(n // nshards):
        arr = rng.random() < 0.3
        r = rng.random()
        # ---- operand kinds
        if r < 0.5:
            fam = rng.choice(list(FAM))
            ua = rng.choice(FAM[fam])
            rr = rng.random()
            if rr < 0.25:
                ub, kind = ua, 'same-unit'
            elif rr < 0.7:
                ub, kind = rng.choice(FAM[fam]), 'other-unit'
            elif rr < 0.85 and fam in RECIP:
                ub, kind = rng.choice(FAM[RECIP[fam]]), 'reciprocal'
            else:
                f2 = rng.choice(list(FAM))
                ub, kind = rng.choice(FAM[f2]), 'other-dimension'
            if fam == 'nodim':
                kind = 'nodim'
        elif r < 0.65:
            fam, kind = 'log', 'log'
            ua = rng.choice(LOGS)
            ub = ua if rng.random() < 0.7 else rng.choice(LOGS)
        elif r < 0.78:
            fam, kind = 'temp', 'temp'
            ua, ub = rng.choice(TEMPS), rng.choice(TEMPS)
        else:
            fam = rng.choice(['length', 'time', 'energy'])
            kind = 'decimal'
            ua, ub = rng.choice(FAM[fam]), rng.choice(FAM[fam])
            arr = False
        a = gen_operand(rng, fam, ua, arr)
        b = gen_operand(rng, fam, ub, arr and rng.random() < 0.6)
        if kind == 'decimal':
            which = rng.choice(['a', 'b', 'both'])
            if which in ('a', 'both'):
                a['dec'] = True; a['abse'] = None
            if which in ('b', 'both'):
                b['dec'] = True; b['abse'] = None
        if rng.random() < 0.12:
            # neutral-element second operand: 1 (dimensionless) for * and /, 0 in the same unit for + and -
            if rng.random() < 0.5:
                b = dict(v=[1.0, 1.0, 1.0] if isinstance(b['v'], list) else 1.0, u=None, abse=None, dec=False)
            else:
                b = dict(v=0.0, u=b['u'], abse=None, dec=False)
        # ---- operation
        o = rng.random()
        if o < 0.42:
            op = dict(k='bin', op=rng.choice(['+', '-', '+', '-', '*', '/']), side=rng.choice(['QQ', 'QQ', 'QQ', 'Qn', 'nQ', 'nQ']), num=rng.choice([2.0, 0.5, 3, -1.5, 1, 1.0, 0, 0.0]), numtype=rng.choice(['py', 'np.float64', 'ndarray']))
        elif o < 0.52:
            op = dict(k='eq', side=rng.choice(['QQ', 'QQ', 'Qn']), num=rng.choice([2.0, 1]))
        elif o < 0.58:
            op = dict(k='pow', e=rng.choice([2, -1, 3, [1, 2], 0.5, [3, 2], 0, 1]), fraction_object=rng.random() < 0.5)
        elif o < 0.597:
            op = dict(k='pysum', n=rng.choice([1, 1, 2]))
        elif o < 0.605:
            # a quantity used as the UNIT of a new one: Quantity(3, other) = 3 x other
            op = dict(k='ctorq', num=rng.choice([3.0, 1.0, 0.5, 2]), arr=rng.random() < 0.3)
        elif o < 0.62:
            op = dict(k='neg')
        elif o < 0.67:
            op = dict(k='getitem', i=rng.choice([0, 1, [0, 2], [1, 3]]))
            a['v'] = gen_value(rng, True)
        elif o < 0.75:
            fams = FAM.get(fam) or ([ua, ub])
            op = dict(k='value', u=rng.choice([x for x in fams if x] + [ub or ua or 'm'] + LOG_LINEAR.get(ua, [])), dtype=rng.choice([None, None, 'float', 'int']))
        elif o < 0.78:
            op = dict(k='units')
        elif o < 0.89:
            f = rng.choice(UFUNCS)
            if f in ('sin', 'cos', 'tan') and rng.random() < 0.8:
                a['u'] = rng.choice(FAM['angle'] + [None]); a['dec'] = False
            if f in ('arcsin', 'arccos', 'arctan'):
                # the argument of an inverse angle function is a pure number, written plainly or in a dimensionless unit
                a['u'] = rng.choice([None, '%', 'ppth', '%'])
                sc = {None: 1.0, '%': 100.0, 'ppth': 1000.0}[a['u']]
                a['v'] = [0.1 * sc, 0.5 * sc, -0.3 * sc] if arr else 0.4 * sc
                a['dec'] = False
            op = dict(k='ufunc', f=f, arg=rng.choice([2, 0.5, 3]))
        else:
            f = rng.choice(FUNCS)
            op = dict(k='func', f=f, n=rng.choice([3, 5]), first=rng.choice(['a', 'a', 'b', 'num']))
            if f in ('linspace', 'logspace'):
                a['v'] = gen_value(rng, False, True); b['v'] = gen_value(rng, False, True)
                a['dec'] = b['dec'] = False
                if f == 'logspace':
                    a['v'] = min(a['v'], 5.0); b['v'] = min(b['v'], 5.0)
        # ---- follow-ups
        fus = []
        for _ in range(rng.choice([0, 1, 1, 2, 3])):
            tgt = rng.choice(['res', 'res', 'a', 'b'])
            s = rng.random()
            units = (FAM.get(fam) or LOGS + TEMPS)
            if s < 0.08:
                # conversion into a Quantity used as unit (1 = 2.5 x the unit); the target quantity is one more live object
                step = ['toq', rng.choice([x for x in units if x] or ['m']), rng.choice([2.5, 0.5, 10.0])]
            elif s < 0.4:
                step = ['to', rng.choice([x for x in units if x] + LOG_LINEAR.get(ua, []) or ['m'])]
            elif s < 0.55:
                step = ['rebase']
            elif s < 0.7:
                step = ['abse', round(rng.uniform(0.01, 1), 3)]
            elif s < 0.85:
                step = ['rele', rng.choice([1, 5, 10])]
            else:
                step = ['write', 0, 99.5]
            fus.append([tgt, step])
        yield dict(t='op', a=a, b=b, kind=kind, op=op, fus=fus, self=rng.random() < 0.08)


# ------------------------------------------------------------------ execution

def build(ctx, spec):
    Q = ctx['Q']
    v = spec['v']
    if spec.get('dec'):
        v = Decimal(repr(v if not isinstance(v, list) else v[0]))
    kw = {}
    if spec.get('abse') is not None:
        kw['abse'] = spec['abse']
    return Q(v, spec['u'], **kw) if spec['u'] is not None else Q(v, **kw)


def probe(ctx, q, spec, alt):
    """observable behaviour of q under a fixed probe sequence"""
    out = []
    for name, fn in (('value', lambda: q.value()), ('units', lambda: q.units()), ('abse', lambda: q.abse()),
                     ('value-alt', lambda: q.value(alt) if alt else q.value()),
                     ('mul2', lambda: (q * 2).value()), ('add-fresh', lambda: (q + build(ctx, spec)).value()),
                     ('str', lambda: str(q))):
        try:
            r = fn()
            if hasattr(r, 'tolist'):
                r = r.tolist()
            out.append((name, repr(r)))
        except Exception as e:
            out.append((name, 'raises ' + type(e).__name__))
    return out


def classify_alteration(case, which, before, after, ctx):
    """known-finding key for an altered operand, by mechanism shape; None = new"""
    op = case['op']
    a, b = case['a'], case['b']
    anydec = a.get('dec') or b.get('dec')
    tv_before, tv_after = before[0][0], after[0][0]
    if anydec and (tv_after == 'Decimal' and tv_before != 'Decimal' or after[4][0] == 'Decimal' and before[4][0] != 'Decimal'):
        return KEY_DECIMAL
    if op['k'] == 'bin' and op['op'] in '+-':
        if case['kind'] == 'log':
            return KEY_LOGSUM
        second = 'b' if op['side'] in ('QQ',) else ('a' if op['side'] == 'nQ' else None)
        if which == second:
            return KEY_SUM
        return None
    if op['k'] == 'eq' and which == 'b':
        return KEY_EQ
    if op['k'] == 'ufunc' and op['f'] in ('sin', 'cos', 'tan') and which == 'a' and after[2] == 'rad':
        return KEY_TRIG
    if op['k'] == 'ufunc' and op['f'] in ('arcsin', 'arccos', 'arctan') and which == 'a' and before[2] is not None and after[2] is None:
        return KEY_ARC
    if op['k'] == 'func' and op['f'] in ('linspace', 'logspace'):
        return KEY_LINSPACE
    return None


def run_case(case, ctx):
    if case['t'] == 'repo-tests':
        return run_repo_tests(case, ctx)
    out = _run(case, ctx)
    if ctx['hyg'].check_restore():
        out['monitors']['table_leaks_restored'] = 1
    return out


def _run(case, ctx):
    np = ctx['np']
    a_spec, b_spec, op = case['a'], case['b'], case['op']
    classes = ['kind:' + case['kind']]
    if isinstance(a_spec['v'], list) or isinstance(b_spec['v'], list):
        classes.append('kind:array')
    if any(u in ('cm*m', 'km*mm', 'in*ft', 'erg*J', 'kJ*eV', 'km*m/s/mm', 'cm*ms-1') for u in (a_spec['u'], b_spec['u'])):
        classes.append('kind:same-dimension-units-in-one-expression')
    if a_spec.get('abse') is not None or b_spec.get('abse') is not None:
        classes.append('kind:uncertain')
    if (b_spec['v'] in (0.0, 1.0) or b_spec['v'] == [1.0, 1.0, 1.0]) or (op['k'] == 'bin' and op['side'] != 'QQ' and op['num'] in (0, 1)):
        classes.append('neutral-element-operand')
    devs, mon = [], {}
    selfop = bool(case.get('self')) and op['k'] in ('bin', 'eq') and op.get('side') == 'QQ'
    if selfop:
        b_spec = dict(a_spec)
        classes.append('both-operands-one-object')
    try:
        A, B = build(ctx, a_spec), build(ctx, b_spec)
        if selfop:
            B = A               # x + x, x * x, x == x: ONE object on both sides; it must read afterwards as it did before
        A2, B2 = build(ctx, a_spec), build(ctx, b_spec)       # twins, never take part
    except Exception as e:
        return outcome(skip='operand-not-constructible:' + type(e).__name__)
    C.take_records()
    counts_before = dict(C.COUNTS)
    fa, fb = C.fingerprint(A), C.fingerprint(B)
    uses_b = False
    k = op['k']
    res = None
    exc = None
    try:
        if k == 'bin':
            classes.append('op:' + op['op'])
            import operator
            f = {'+': operator.add, '-': operator.sub, '*': operator.mul, '/': operator.truediv}[op['op']]
            if op['side'] == 'QQ':
                uses_b = True
                res = f(A, B)
            elif op['side'] == 'Qn':
                res = f(A, op['num'])
            else:
                classes.append('reflected')
                num = op['num']
                if op.get('numtype') == 'np.float64':
                    num = np.float64(num); classes.append('reflected-numpy')
                elif op.get('numtype') == 'ndarray':
                    num = np.array([num, num * 2.0]) if not isinstance(a_spec['v'], list) else np.array([num, 1.0, 3.0]); classes.append('reflected-numpy')
                res = f(num, A)
        elif k == 'eq':
            classes.append('op:==')
            if op['side'] == 'QQ':
                uses_b = True
                res = (A == B)
            else:
                res = (A == op['num'])
        elif k == 'pow':
            classes.append('op:pow')
            e = op['e']
            if isinstance(e, list) and op.get('fraction_object'):
                from scinumtools.units import Fraction
                classes.append('op:pow-fraction-object')
                res = A ** Fraction(e[0], e[1])
            else:
                res = A ** (tuple(e) if isinstance(e, list) else e)
        elif k == 'neg':
            classes.append('op:neg')
            res = -A
        elif k == 'getitem':
            classes.append('op:getitem')
            i = op['i']
            res = A[slice(i[0], i[1])] if isinstance(i, list) else A[i]
        elif k == 'value':
            classes.append('op:value')
            if op.get('dtype'):
                classes.append('op:value-with-dtype')
                res = A.value(op['u'], dtype={'float': float, 'int': int}[op['dtype']])
            else:
                res = A.value(op['u'])
            if op['u'] in LOG_LINEAR.get(a_spec['u'], []):
                classes.append('op:value-level-in-linear-unit')
        elif k == 'units':
            classes.append('op:value')
            res = A.units()
        elif k == 'ufunc':
            classes.append('op:ufunc')
            f = getattr(np, op['f'])
            res = f(A, op['arg']) if op['f'] == 'power' else f(A)
        elif k == 'func':
            classes.append('op:func')
            f = getattr(np, op['f'])
            if op['f'] in ('linspace', 'logspace'):
                uses_b = op['first'] != 'num'
                if op['first'] == 'a':
                    res = f(A, B, op['n'])
                elif op['first'] == 'b':
                    res = f(B, A, op['n'])
                else:
                    res = f(1.0, A, op['n'])
            else:
                res = f(A)
        elif k == 'ctorq':
            classes.append('op:constructor-with-quantity-as-unit')
            uses_b = True
            res = ctx['Q']([op['num'], op['num'] * 2] if op.get('arr') else op['num'], B)
        elif k == 'pysum':
            classes.append('op:builtin-sum')
            uses_b = op['n'] == 2
            res = sum([A, B] if op['n'] == 2 else [A])
    except Exception as e_:
        exc = e_
    records = C.take_records()
    for m in C.COUNTS:
        d = C.COUNTS[m] - counts_before.get(m, 0)
        if d:
            mon['contract:' + m] = d
    # ---- (1) operands unchanged (harness view), cross-checked with the contract records
    changed = []
    for which, q, f0 in (('a', A, fa), ('b', B, fb)):
        f1 = C.fingerprint(q)
        if f1 != f0:
            changed.append(which)
            key = classify_alteration(case, which, f0, f1, ctx)
            devs.append(dev('%s-alters-%s-operand' % (opname(op), 'first' if which == 'a' else 'second'),
                            dict(op=op, a=a_spec, b=b_spec, before=C.describe(f0), after=C.describe(f1), raised=safe_repr(exc) if exc else None), known=key))
    rec_objs = {r['obj'] for r in records if r['contract'] == 'operands-unchanged'}
    for which, q in (('a', A), ('b', B)):
        if which in changed and id(q) not in rec_objs and exc is None:      # (post-conditions are not evaluated when the call raises)
            devs.append(dev('operand-altered-but-no-contract-fired', dict(op=op, which=which)))
    for r in records:
        if r['obj'] not in (id(A), id(B)):
            devs.append(dev('contract:%s:%s-other-live-quantity-changed' % (r['method'], r['contract']), dict(op=op, record=r)))
    # ---- (1b) the result is a new object: a result that IS an operand shares all of its state with it
    mon['result_identity_checks'] = 1
    for which, q in (('a', A), ('b', B)):
        if res is q:
            devs.append(dev('%s-returns-the-%s-operand-itself' % (opname(op), 'first' if which == 'a' else 'second'),
                            dict(op=op, a=a_spec, b=b_spec)))
    # ---- (1c) numbers handed out as a NumPy array belong to the caller: editing them in place (v -= v.mean(), v[mask] = 0)
    #      leaves the operands what they were
    if isinstance(res, np.ndarray) and res.ndim >= 1 and res.size and not changed:
        mon['handed_out_array_write_checks'] = 1
        classes.append('write-into-handed-out-array')
        try:
            if res.flags.writeable:
                res[...] = res * 0 + (7 if res.dtype.kind in 'iu' else 7.5)
        except Exception:
            pass
        for which, q, f0 in (('a', A, fa), ('b', B, fb)):
            f1 = C.fingerprint(q)
            if f1 != f0:
                changed.append(which)
                devs.append(dev('writing-into-the-array-returned-by-%s-alters-the-%s-operand' % (opname(op), 'first' if which == 'a' else 'second'),
                                dict(op=op, a=a_spec, b=b_spec, before=C.describe(f0), after=C.describe(f1))))
        C.take_records()
    # ---- (2) twin differential
    if not changed:
        alt = None
        for fam_units in list(FAM.values()) + [LOGS, TEMPS]:
            if a_spec['u'] in fam_units:
                alt = ([x for x in fam_units if x and x != a_spec['u']] or [None])[0]
        pa, pa2 = probe(ctx, A, a_spec, alt), probe(ctx, A2, a_spec, alt)
        mon['twin_probes'] = 1
        classes.append('twin-probe')
        if pa != pa2:
            diff = [(x, y) for x, y in zip(pa, pa2) if x != y]
            devs.append(dev('%s-operand-behaves-differently-afterwards' % opname(op), dict(op=op, a=a_spec, b=b_spec, diff=diff[:3])))
        if uses_b:
            pb, pb2 = probe(ctx, B, b_spec, None), probe(ctx, B2, b_spec, None)
            mon['twin_probes'] += 1
            if pb != pb2:
                diff = [(x, y) for x, y in zip(pb, pb2) if x != y]
                devs.append(dev('%s-second-operand-behaves-differently-afterwards' % opname(op), dict(op=op, a=a_spec, b=b_spec, diff=diff[:3])))
        C.take_records()
    # ---- (3) aliasing under in-place follow-ups
    Qc = ctx['Q']
    live = {'a': A, 'b': B}
    if isinstance(res, Qc):
        live['res'] = res
    for tgt, step in case['fus']:
        if tgt not in live:
            continue
        q = live[tgt]
        classes.append('followup:' + step[0])
        classes.append('followup-on-result' if tgt == 'res' else 'followup-on-operand')
        before = {n: C.fingerprint(o) for n, o in live.items() if o is not q}
        C.take_records()
        try:
            if step[0] == 'to':
                q.to(step[1])
            elif step[0] == 'toq':
                target = Qc(step[2], step[1])
                live_t = C.fingerprint(target)
                q.to(target)
                mon['to_quantity_target_compares'] = mon.get('to_quantity_target_compares', 0) + 1
                if C.fingerprint(target) != live_t:
                    devs.append(dev('in-place-to-changes-the-target-quantity', dict(op=op, step=step, before=C.describe(live_t), after=C.describe(C.fingerprint(target)))))
            elif step[0] == 'rebase':
                q.rebase()
            elif step[0] == 'abse':
                q.abse(step[1])
            elif step[0] == 'rele':
                q.rele(step[1])
            elif step[0] == 'write':
                v = q.value()
                if hasattr(v, '__setitem__') and getattr(v, 'ndim', 0) >= 1:
                    v[step[1]] = step[2]
        except Exception:
            pass
        mon['aliasing_compares'] = mon.get('aliasing_compares', 0) + len(before)
        for n, f0 in before.items():
            f1 = C.fingerprint(live[n])
            if f1 != f0:
                anydec = a_spec.get('dec') or b_spec.get('dec')
                devs.append(dev('in-place-%s-on-%s-changes-%s' % (step[0], 'result' if tgt == 'res' else 'an-operand',
                                                                  'result' if n == 'res' else 'another-operand'),
                                dict(op=op, a=a_spec, b=b_spec, step=step, target=tgt, changed=n,
                                     before=C.describe(f0), after=C.describe(f1)),
                                known=KEY_DECIMAL if anydec and only_factor_became_decimal(f0, f1) else None))
        for r in C.take_records():
            if r['contract'] == 'only-self-changes':
                names = [n for n, o in live.items() if id(o) == r['obj']]
                if not names:
                    devs.append(dev('contract:%s:other-live-quantity-changed' % r['method'], dict(step=step, record=r)))
    for m in C.COUNTS:
        d = C.COUNTS[m] - counts_before.get(m, 0)
        if d:
            mon['contract:' + m] = d
    nontriv = uses_b or bool(case['fus'])
    fp = json.dumps([a_spec['u'], b_spec['u'], bool(a_spec.get('dec')), bool(b_spec.get('dec')), isinstance(a_spec['v'], list),
                     a_spec.get('abse') is not None, op, case['fus']], sort_keys=True, default=str)
    return outcome(classes=classes, nontrivial=nontriv, fp=fp, dev=devs, monitors=mon,
                   sample=dict(a=a_spec, b=b_spec, op=op, followups=case['fus'], result=safe_repr(res) if exc is None else 'raised ' + safe_repr(exc),
                               operands_after=[safe_repr(A), safe_repr(B)]))


def safe_repr(q):
    try:
        return repr(q)[:60]
    except Exception as e:
        return 'unprintable (%s)' % type(e).__name__


def only_factor_became_decimal(f0, f1):
    return f0[:4] == f1[:4] and f0[4][0] != 'Decimal' and f1[4][0] == 'Decimal'


def opname(op):
    if op['k'] == 'bin':
        return {'+': 'add', '-': 'sub', '*': 'mul', '/': 'div'}[op['op']] + ('' if op['side'] != 'nQ' else '-reflected')
    if op['k'] in ('ufunc', 'func'):
        return 'np.' + op['f']
    return op['k']


# ------------------------------------------------------------------ repo tests under contracts

def run_repo_tests(case, ctx):
    repo = os.environ.get('VERIF_REPO', '/repo')
    d = tempfile.mkdtemp(prefix='vt_c07_')
    out = os.path.join(d, 'records.json')
    env = dict(os.environ, VERIF_CONTRACTS='quantity', VERIF_CONTRACT_OUT=out)
    try:
        p = subprocess.run([sys.executable, '-m', 'pytest', '-q', '-p', 'no:cacheprovider', '-p', 'vt.monitors.pytest_plugin', '-x'] + case['tests'],
                           cwd=repo, env=env, capture_output=True, text=True, timeout=1500)
        if not os.path.exists(out):
            raise RuntimeError('repo tests under contracts produced no record file: ' + p.stdout[-500:] + p.stderr[-500:])
        data = json.load(open(out))
    finally:
        import shutil
        shutil.rmtree(d, ignore_errors=True)
    devs = []
    if data['exitstatus'] != 0:
        devs.append(dev('repo-tests-fail-under-record-only-contracts', dict(tail=p.stdout[-600:])))
    seen = set()
    for r in data['records']:
        key = (r['method'], r['contract'])
        if key in seen:
            continue
        seen.add(key)
        known = None
        if r['contract'] == 'operands-unchanged':
            known = {'Quantity.__add__': KEY_SUM, 'Quantity.__sub__': KEY_SUM, 'Quantity.__radd__': KEY_SUM, 'Quantity.__rsub__': KEY_SUM,
                     'Quantity.__eq__': KEY_EQ, 'HANDLED.linspace': KEY_LINSPACE, 'HANDLED.logspace': KEY_LINSPACE}.get(r['method'])
            if r['method'] == 'Quantity.__array_ufunc__' and r['after'].get('units') == 'rad':
                known = KEY_TRIG
            if r['method'] == 'Quantity.__array_ufunc__' and r['before'].get('units') is not None and r['after'].get('units') is None:
                known = KEY_ARC
            if r['method'] in ('Quantity.__add__', 'Quantity.__sub__') and str(r['before'].get('units', '')).find('B') >= 0 and r['before'].get('units') == r['after'].get('units'):
                known = KEY_LOGSUM
            if r['after'].get('unit_factor', [''])[0] == 'Decimal' or r['after'].get('value', [''])[0] == 'Decimal' and r['before'].get('value', [''])[0] != 'Decimal':
                known = KEY_DECIMAL
        devs.append(dev('repo-tests:%s:%s' % (r['method'], r['contract']), dict(record=r), known=known))
    total = sum(v for k, v in data['counts'].items())
    return outcome(classes=['repo-tests-under-contracts'], nontrivial=True, fp='repo-tests ' + ' '.join(case['tests']), dev=devs,
                   monitors={'repo_tests_contract_evaluations': total},
                   sample=dict(tests=case['tests'], contract_evaluations=data['counts'], records=len(data['records'])))


def pinned(ctx):
    z = dict(abse=None, dec=False)
    return [
        (KEY_SUM, dict(t='op', a=dict(v=1.0, u='m', **z), b=dict(v=50.0, u='cm', **z), kind='other-unit', op=dict(k='bin', op='+', side='QQ', num=2.0), fus=[])),
        (KEY_EQ, dict(t='op', a=dict(v=1.0, u='m', **z), b=dict(v=100.0, u='cm', **z), kind='other-unit', op=dict(k='eq', side='QQ', num=1), fus=[])),
        (KEY_LOGSUM, dict(t='op', a=dict(v=20.0, u='dBm', **z), b=dict(v=10.0, u='dBm', **z), kind='log', op=dict(k='bin', op='+', side='QQ', num=2.0), fus=[])),
        (KEY_TRIG, dict(t='op', a=dict(v=30.0, u='deg', **z), b=dict(v=1.0, u='deg', **z), kind='same-unit', op=dict(k='ufunc', f='sin', arg=2), fus=[])),
        (KEY_ARC, dict(t='op', a=dict(v=25.0, u='%', **z), b=dict(v=1.0, u='%', **z), kind='same-unit', op=dict(k='ufunc', f='arcsin', arg=2), fus=[])),
        (KEY_LINSPACE, dict(t='op', a=dict(v=1.0, u='m', **z), b=dict(v=300.0, u='cm', **z), kind='other-unit', op=dict(k='func', f='linspace', n=3, first='a'), fus=[])),
        (KEY_DECIMAL, dict(t='op', a=dict(v=1.5, u='m', abse=None, dec=True), b=dict(v=50.0, u='cm', **z), kind='decimal', op=dict(k='bin', op='*', side='QQ', num=2.0), fus=[['b', ['to', 'mm']]])),
    ]
