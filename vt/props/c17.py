"""C17 — References deliver the referenced node's current value and unit.

Generated programs (vt/refmodel/dip_ref_c17.py) define a tree of nodes locally, in a second file (temp dir) or in a
base environment, then inject / import from it with slices, units and later modifications.  The real parser only sees
the rendered text.  Expected nodes come from the reference interpreter; recorded defects are recognised by running the
same interpreter with the mechanism of the defect switched on ("buggy twin") and demanding an exact match.
"""
import os, re, json, tempfile, shutil, itertools, copy
from vt.core import outcome, dev
from vt.util import close, exc_sig, plain
from vt.refmodel import dip_ref_c17 as R
from vt.refmodel.dip_ref_c18 import render_unit

ID = 'C17'
LEVEL = 'exploration'
RULE = ('random programs: a hierarchy of float/int/str/bool scalars and arrays (names with common prefixes, options, '
        'conditions, constants, $units) defined locally, in a second file bound by $source, or in a base environment; '
        'then 4-10 actions (modification, injection in a definition or a modification with optional slice and own '
        'unit, import of {?path.*} / {?path} / {?*} in block, inline or root form) and optionally one statement that '
        'must fail (injection selecting zero / several nodes, violating modification of an imported constrained node) '
        'or add nothing (import selecting nothing); the program without that statement must be accepted. '
        'Non-trivial = at least one injection or import whose source was modified before, or with a slice, or from a '
        'remote / base source, or followed by a modification of source or host; distinct by rendered texts')
SHARDS = {'quick': 16, 'thorough': 16}
MIN_NONTRIVIAL = {'quick': 700, 'thorough': 25000}
NCASES = {'quick': 1400, 'thorough': 44000}
TIME_CAP = {'quick': 300, 'thorough': 3600}

REQUIRED_CLASSES = ['sourced-file-custom-unit:registered-through-the-api', 'sourced-file-defines-a-custom-unit', 'sourced-file-custom-unit:host-main-text', 'sourced-file-custom-unit:host-base-environment', 'staged-base', 'staged-base:units-only', 'staged-base:nodes', 'staged-base:nodes-and-units', 'alias:compare-then-reference', 'alias:import-then-option', 'alias:form-case', 'alias:form-bool-node', 'alias:form-condition', 'alias:ref-inject', 'alias:ref-import', 'alias:modify-source', 'source-local', 'source-remote', 'source-base',
                    'slice-index', 'slice-range', 'slice-string', 'slice-1d', 'slice-2d', 'slice-in-modification',
                    'host-own-unit', 'host-adopts-unit', 'injection-in-definition', 'injection-in-modification',
                    'injection-converted-into-definition-unit', 'injected-float', 'injected-int', 'injected-str',
                    'injected-bool', 'injected-array',
                    'source-modified-before-injection', 'source-modified-after-injection', 'host-modified-after-injection',
                    'import-all', 'import-children', 'import-single', 'import-remote', 'import-local', 'import-base',
                    'import-form-block', 'import-form-inline', 'import-form-root',
                    'import-with-options', 'import-with-condition', 'import-of-constant', 'imported-copy-modified-later',
                    'import-of-modified-node', 'import-of-injection-defined-node',
                    'injection-zero-matches', 'injection-several-matches', 'empty-import',
                    'violating-modification-of-import:options', 'violating-modification-of-import:condition',
                    'violating-modification-of-import:constant',
                    'base-immutability-checked', 'remote-immutability-checked', 'custom-unit-defined',
                    'prefix-sibling-present']
REQUIRED_MONITORS = ['remote_file_rewritten_at_the_same_path', 'alias_programs_compared', 'programs_compared', 'must_fail_checked', 'base_snapshots_compared', 'remote_snapshots_compared',
                     'imported_constraints_compared', 'step_guard_runs']
ASSUMPTIONS = [
    'unit factors: hand-written exact SI table (see dip_ref_c18) plus the $units of the generated text',
    'never generated: zero / empty values and modifications (C14 territory), float->int hosts, int nodes whose unit '
    'conversion is not the identity, slices a:b with a==b, negative slice bounds, imports whose re-rooted names collide '
    'with existing nodes, hosts whose dimension differs from the injected unit on modification',
    'the order of nodes in the environment is not compared; numeric values rtol 1e-9; units compared as text',
    'constraint inheritance is checked twice: attributes of the copy equal those of the real original, and a later '
    'violating modification of the copy must make parse() raise while the same program without it is accepted',
    'a must-fail statement counts as rejected on any Exception; the same program without it must parse and match',
    'step budget: max(5e6, 200 x largest PY_START|JUMP count of an accepted call in this worker)',
]
EXHAUSTIVE_SUBSPACES = {'quick': [], 'thorough': []}

INTERESTING = {'source-modified-before-injection', 'source-modified-after-injection', 'host-modified-after-injection',
               'slice', 'source-remote', 'source-base', 'import-remote', 'imported-copy-modified-later',
               'import-of-modified-node', 'injection-converted-into-definition-unit'}


def setup():
    import scinumtools                                   # noqa
    from scinumtools.dip import DIP
    from scinumtools.dip.settings import Format
    from vt.monitors.tables import Hygiene
    return dict(DIP=DIP, Format=Format, hyg=Hygiene(), guard=R.StepGuard(), n=0, keep=[])


def teardown(ctx):
    g = ctx['guard']
    g.close()
    if ctx.get('remote_dir'):
        shutil.rmtree(ctx['remote_dir'], ignore_errors=True)
    return {'monitors': {}, 'max_steps_accepted_call': {'max': g.max_ok}, 'step_budget_floor': {'events': g.floor}}


def cases(rng, tier, shard, nshards, ctx):
    from vt.props import c17_alias
    for i in range(NCASES[tier] // nshards):
        yield dict(prog=R.Gen(rng).program())
        if i % 4 == 0 and not os.environ.get('VERIF_C17_NOALIAS'):
            yield dict(alias=c17_alias.gen(rng))
            from vt.props import c17_base
            yield dict(stbase=c17_base.gen(rng))
            yield dict(stbase=c17_base.gen_srcunit(rng))


# ----------------------------------------------------------------------------- observing the real code

def unique(ctx, tag):
    ctx['n'] += 1
    return 'c17%s%d' % (tag, ctx['n'])


def real_parse(ctx, text, base=None, tag='m', file=None):
    """-> ('ok', env) | ('exc', e) | ('budget', None)"""
    def go():
        p = ctx['DIP'](base, name=unique(ctx, tag)) if base is not None else ctx['DIP'](name=unique(ctx, tag))
        ctx['keep'].append(p)
        if file:
            p.add_file(file)
        else:
            p.add_string(text)
        return p.parse()
    kind, res, steps = ctx['guard'].run(go)
    return kind, res


def obs_nodes(nodelist):
    out = []
    for n in nodelist:
        # a well-formed node holds a Type object; anything else (None, a bare str, ...) is an unreadable entry
        typed = n.value is not None and hasattr(n.value, 'value')
        val = plain(n.value.value) if typed else None
        unit = getattr(n.value, 'unit', None) if typed else None
        opts = []
        for o in (getattr(n, 'options', None) or []):
            opts.append((plain(o.value.value), getattr(o.value, 'unit', None)))
        out.append(dict(name=n.name, kw=n.keyword, value=val, unit=unit, opts=opts, typed=typed,
                        cond=getattr(n, 'condition', None), const=bool(getattr(n, 'constant', False))))
    return out


def observe(ctx, envobj):
    nodes = obs_nodes(envobj.nodes.nodes)
    try:
        data = envobj.data(format=ctx['Format'].TUPLE)
        readable = True
    except Exception as e:
        data, readable = exc_sig(e), False
    return dict(nodes=nodes, readable=readable, data=data)


def snapshot(ctx, envobj):
    """everything C17 calls 'that environment's nodes and units' (+ nodes of its remote sources)"""
    snap = dict(nodes=obs_nodes(envobj.nodes.nodes), units=copy.deepcopy(dict(envobj.units.units)), sources={})
    for name, s in envobj.sources.items():
        if getattr(s, 'nodes', None) is not None:
            snap['sources'][name] = obs_nodes(s.nodes.nodes)
    return repr(snap)


def same_value(a, b):
    if isinstance(a, list) or isinstance(b, list):
        return (isinstance(a, list) and isinstance(b, list) and len(a) == len(b)
                and all(same_value(x, y) for x, y in zip(a, b)))
    if isinstance(a, bool) or isinstance(b, bool):
        return isinstance(a, bool) and isinstance(b, bool) and a == b
    if isinstance(a, str) or isinstance(b, str):
        return a == b
    if a is None or b is None:
        return a is b
    return close(a, b, 1e-9)


def raising_node_code(e):
    """source line of the innermost DIP node object on the traceback (= which node failed to cast)"""
    tb, found = e.__traceback__, None
    while tb is not None:
        code = getattr(tb.tb_frame.f_locals.get('self'), 'code', None)
        if isinstance(code, str) and code.split():
            found = code
        tb = tb.tb_next
    return found


def numify(x):
    if isinstance(x, list):
        return [numify(y) for y in x]
    if isinstance(x, bool) or isinstance(x, str):
        return x
    try:
        return float(x)
    except Exception:
        return x


def diff_nodes(real_nodes, menv):
    """-> list of (mechanism, detail) differences between observed nodes (without unreadable import entries) and model"""
    out = []
    real = {}
    for n in real_nodes:
        if n['name'] in real:
            out.append(('duplicate-node-name', n['name']))
        real[n['name']] = n
    for p, m in menv.nodes.items():
        r = real.get(p)
        tag = {'def': 'defined', 'inj': 'injected', 'imp': 'imported'}.get(m.origin, 'node')
        if r is None:
            out.append(('import-missed-node' if m.origin == 'imp' else tag + '-node-missing', p))
            continue
        if r['kw'] != m.type:
            out.append((tag + '-node-type-differs', dict(node=p, expected=m.type, observed=r['kw'])))
        if not same_value(r['value'], m.value):
            what = tag + ('-value-differs-after-modification' if m.nmod else '-value-differs')
            out.append((what, dict(node=p, expected=m.value, observed=r['value'])))
        if (r['unit'] or None) != render_unit(m.unit):
            out.append((tag + '-unit-differs', dict(node=p, expected=render_unit(m.unit), observed=r['unit'])))
    for p in real:
        if p not in menv.nodes:
            out.append(('unexpected-node', p))
    return out


def split_unreadable(obs):
    good, bad = [], []
    for n in obs['nodes']:
        (bad if (n['value'] is None or not n.get('typed', True) or n['kw'] == 'import') else good).append(n)
    return good, bad


def matches(obs, model, soft=False):
    """does the observed outcome equal what this model run predicts?  obs = ('ok', observation) | ('exc', e)"""
    if model['kind'] == 'fail':
        if obs[0] != 'exc':
            return False
        f = model['fail']
        if f.flag is None and not f.sigs:
            return True
        if f.sigs is None:
            return True
        sig = type(obs[1]).__name__ + ': ' + ' '.join(str(a) for a in obs[1].args[:1])
        if not any(s in sig for s in f.sigs):
            return False
        if f.who and 'has invalid dimension' in sig and ("'%s'" % f.who) not in sig:
            return False
        code = raising_node_code(obs[1])
        if f.who and code and code.split()[0] not in (f.who, f.who.split('.')[-1]):
            return False
        if f.line and code and code.strip() != f.line.strip():
            return False
        if f.payload is not None and len(obs[1].args) >= 3 and obs[1].args[0] == 'Could not convert raw value to type:':
            line = obs[1].args[1]
            if f.who and isinstance(line, str) and line.split() and line.split()[0] != f.who.split('.')[-1]:
                return False
            seen = obs[1].args[2]
            try:
                seen = json.loads(seen) if isinstance(seen, str) else plain(seen)
            except Exception:
                return True
            return same_value(numify(seen), numify(f.payload))
        return True
    if obs[0] != 'ok':
        return False
    good, bad = split_unreadable(obs[1])
    if len(bad) != model['env'].unreadable:
        return False
    if model['env'].unreadable and not all(n['kw'] == 'import' for n in bad):
        return False
    if obs[1]['readable'] != (not bad):
        return False
    return not diff_nodes(good, model['env'])


def judge(prog, obs, with_extra, devs, label):
    """compare one observed parse outcome with the reference; append deviations; returns the correct-model run"""
    exp = R.run_model(prog, frozenset(), with_extra)
    extra = prog.get('extra') if with_extra else None
    soft = bool(extra and extra['expect'] == 'fail-or-noop')
    if obs[0] == 'budget':
        devs.append(dev('no-result-within-step-budget', dict(variant=label)))
        return exp
    if extra and extra['expect'] == 'fail' and exp['kind'] != 'fail':
        raise RuntimeError('generator: must-fail statement accepted by the reference model: %r' % (extra,))
    if exp['kind'] == 'fail' and not extra:
        raise RuntimeError('generator: program rejected by the reference model: %s' % exp['fail'].reason)
    if exp['kind'] == 'fail':
        if obs[0] == 'exc':
            return exp
    elif matches(obs, exp) or (soft and obs[0] == 'exc'):
        return exp
    # ---- deviation: is it exactly what a set of recorded defects produces?
    for k in range(1, len(R.ALL_FLAGS) + 1):
        for S in itertools.combinations(flag_order(), k):
            tw = R.run_model(prog, frozenset(S), with_extra)
            if matches(obs, tw):
                for key in sorted({R.key_of(f) for f in S}):
                    devs.append(dev('explained-by-recorded-defect', dict(variant=label, keys=list(S),
                                                                         observed=describe(obs)), known=key))
                return exp
    # ---- new violation: name it after the first difference
    if exp['kind'] == 'fail':
        devs.append(dev('must-fail-accepted:' + extra['kind'], dict(variant=label, stmt=extra['stmt'], observed=describe(obs))))
    elif obs[0] == 'exc':
        head = str(obs[1].args[0])[:90] if obs[1].args and isinstance(obs[1].args[0], str) else type(obs[1]).__name__
        head = ' '.join(re.sub(r'[0-9]+', 'N', re.sub(r"'[^']*'?|<[^>]*>?", '', head)).split())[:48]
        devs.append(dev('valid-program-rejected: ' + head.strip().rstrip(':'), dict(variant=label, exc=exc_sig(obs[1]))))
    else:
        good, bad = split_unreadable(obs[1])
        if bad or not obs[1]['readable']:
            devs.append(dev('environment-data-unreadable', dict(variant=label, entries=[n['name'] for n in bad], data=obs[1]['data'])))
        for mech, detail in diff_nodes(good, exp['env'])[:3]:
            devs.append(dev(mech, dict(variant=label, detail=detail)))
    return exp


_FLAG_ORDER = []


def flag_order():
    """twins of still-open findings are tried before twins of findings that were repaired in /repo: when two single
    mechanisms would both reproduce an observation, a repaired one must not be blamed"""
    if not _FLAG_ORDER:
        fixed = set()
        try:
            from vt.core import HERE
            for e in json.load(open(os.path.join(HERE, 'known_findings.json')))['findings']:
                if e.get('status') == 'fixed':
                    fixed.add(e['key'])
        except Exception:
            pass
        _FLAG_ORDER.extend(sorted(R.ALL_FLAGS, key=lambda f: (R.key_of(f) in fixed, R.ALL_FLAGS.index(f))))
    return _FLAG_ORDER


def describe(obs):
    if obs[0] == 'exc':
        return exc_sig(obs[1])
    if obs[0] == 'ok':
        return dict(readable=obs[1]['readable'], nodes={n['name']: (n['value'], n['unit']) for n in obs[1]['nodes']})
    return obs[0]


def to_obs(ctx, kind, res):
    if kind == 'ok':
        return ('ok', observe(ctx, res))
    return (kind, res)


# ----------------------------------------------------------------------------- one case

def run_case(case, ctx):
    ctx['keep'] = []
    tmp = None
    if 'alias' in case or 'stbase' in case:
        from vt.props import c17_alias, c17_base
        try:
            out = c17_alias.run(case, ctx, real_parse) if 'alias' in case else (c17_base.run_srcunit if case['stbase'].get('stage') == 'srcunit' else c17_base.run)(case['stbase'], ctx, real_parse)
        finally:
            ctx['keep'] = []
            leak = ctx['hyg'].check_restore()
        out['monitors']['table_leaks_restored'] = 1 if leak else 0
        out['monitors']['step_guard_runs'] = ctx['guard'].take_runs()
        return out
    try:
        prog = case['prog']
        files = {}
        if prog.get('remote') is not None:
            # ONE path per worker, rewritten for every program: a remote file edited between two parses of one process is the
            # same name and path with another content (anything remembered about it from an earlier parse is stale)
            if not ctx.get('remote_dir') or not os.path.isdir(ctx['remote_dir']):
                ctx['remote_dir'] = tempfile.mkdtemp(prefix='c17_')
            path = os.path.join(ctx['remote_dir'], 'r.dip')
            with open(path, 'w') as f:
                f.write(R.render(prog['remote']))
            files['r'] = path
            ctx['remote_rewrites'] = ctx.get('remote_rewrites', 0) + 1
        out = _run(case, ctx, files)
    finally:
        ctx['keep'] = []
        if tmp:
            shutil.rmtree(tmp, ignore_errors=True)
        leak = ctx['hyg'].check_restore()
    out['monitors']['table_leaks_restored'] = 1 if leak else 0
    out['monitors']['step_guard_runs'] = ctx['guard'].take_runs()
    if files.get('r'):
        out['monitors']['remote_file_rewritten_at_the_same_path'] = 1
    return out


def _run(case, ctx, files):
    prog = case['prog']
    devs = []
    mon = dict(programs_compared=0, must_fail_checked=0, base_snapshots_compared=0, remote_snapshots_compared=0,
               imported_constraints_compared=0)
    classes = set()
    shown = {k: v.replace(os.path.dirname(files['r']), '<tmp>') if files else v for k, v in
             dict(base=R.render(prog['base'], files) if prog.get('base') is not None else None,
                  remote=R.render(prog['remote']) if prog.get('remote') is not None else None,
                  main=R.render(prog['main'], files)).items() if v is not None}
    sample = dict(texts=shown)
    extra = prog.get('extra')
    if extra:
        sample['extra_statement'] = ' / '.join(R.render([extra['stmt']], files).strip().split('\n'))
        sample['extra_expectation'] = extra['expect']

    # ---- remote file on its own (what the source looks like "before")
    remote_before = None
    if prog.get('remote') is not None:
        kind, renv = real_parse(ctx, None, tag='r', file=files['r'])
        robs = to_obs(ctx, kind, renv)
        judge(dict(base=None, remote=None, main=prog['remote'], extra=None), robs, False, devs, 'remote file alone')
        if kind == 'ok':
            remote_before = repr(obs_nodes(renv.nodes.nodes))
    # ---- base environment
    base_env = None
    if prog.get('base') is not None:
        kind, base_env = real_parse(ctx, R.render(prog['base'], files), tag='b')
        bobs = to_obs(ctx, kind, base_env)
        judge(dict(base=None, remote=prog.get('remote'), main=prog['base'], extra=None), bobs, False, devs, 'base text')
        if kind != 'ok':
            # nothing can be parsed on top; the deviation (if any) has been recorded
            m = R.run_model(prog, frozenset(), False)
            return outcome(classes=sorted(m['classes'] | {'base-text-rejected'}), nontrivial=False, fp=repr(shown),
                           dev=devs, monitors=mon, sample=sample)
        snap0 = snapshot(ctx, base_env)

    # ---- V0: the program without the extra statement must be accepted and match
    main_text = R.render(prog['main'], files)
    kind, env0 = real_parse(ctx, main_text, base=base_env, tag='m')
    obs0 = to_obs(ctx, kind, env0)
    exp0 = judge(prog, obs0, False, devs, 'program')
    mon['programs_compared'] += 1
    classes |= exp0['classes']
    if exp0['kind'] == 'ok':
        sample['expected'] = {p: (n.value, render_unit(n.unit)) for p, n in exp0['env'].nodes.items()}
    sample['observed'] = describe(obs0)
    names = [p.split('.') for p in (exp0['env'].nodes if exp0['env'] else {})]
    tops = {x[0] for x in names}
    if any(a != b and b.startswith(a) for a in tops for b in tops):
        classes.add('prefix-sibling-present')

    # ---- constraints of imported copies equal those of the real originals
    if kind == 'ok' and exp0['kind'] == 'ok':
        check_import_constraints(prog, env0, exp0, devs, mon, classes, base_env)

    # ---- immutability of the base environment and of the remote source
    if base_env is not None:
        mon['base_snapshots_compared'] += 1
        classes.add('base-immutability-checked')
        if snapshot(ctx, base_env) != snap0:
            devs.append(dev('base-environment-changed', dict(before=snap0[:600], after=snapshot(ctx, base_env)[:600])))
    if remote_before is not None and kind == 'ok':
        src = env0.sources.sources.get('r')
        if src is not None and getattr(src, 'nodes', None) is not None:
            mon['remote_snapshots_compared'] += 1
            classes.add('remote-immutability-checked')
            after = repr(obs_nodes(src.nodes.nodes))
            if after != remote_before:
                devs.append(dev('remote-source-changed', dict(before=remote_before[:600], after=after[:600])))

    # ---- V1: with the extra statement
    if extra:
        stmts = prog['main'] + [extra['stmt']] + list(extra.get('tail', []))
        kind1, env1 = real_parse(ctx, R.render(stmts, files), base=base_env, tag='x')
        obs1 = to_obs(ctx, kind1, env1)
        judge(prog, obs1, True, devs, 'program + ' + extra['kind'])
        mon['must_fail_checked'] += 1
        classes.add(extra['kind'])
        sample['observed_with_extra'] = describe(obs1)
        if kind1 == 'exc' and extra['kind'] == 'empty-import':
            classes.add('empty-import-rejected')
        if base_env is not None and snapshot(ctx, base_env) != snap0:
            devs.append(dev('base-environment-changed', dict(variant='with extra statement')))
    return outcome(classes=sorted(classes), nontrivial=bool(classes & INTERESTING), fp=repr(shown) + repr(extra and extra['stmt']),
                   dev=devs, monitors=mon, sample=sample)


def check_import_constraints(prog, envobj, exp, devs, mon, classes, base_env):
    """'each with unchanged ... attached constraints': the copy's options / condition / constant flag are those of
    the real original node (local or in the remote source) at the end of the parse"""
    real = {n['name']: n for n in obs_nodes(envobj.nodes.nodes)}
    rsrc = {}
    s = envobj.sources.sources.get('r')
    if s is not None and getattr(s, 'nodes', None) is not None:
        rsrc = {n['name']: n for n in obs_nodes(s.nodes.nodes)}
    model_nodes = exp['env'].nodes
    for st in prog['main']:
        if st['k'] != 'imp':
            continue
        space = rsrc if st.get('src') else real
        q = st['query']
        for orig in list(space):
            if q == '*':
                rel = orig
            elif q.endswith('.*'):
                if not orig.startswith(q[:-1]):
                    continue
                rel = orig[len(q) - 1:]
            elif orig == q:
                rel = orig.split('.')[-1]
            else:
                continue
            new = (st['into'] + '.' + rel) if st['into'] else rel
            if new not in real or new not in model_nodes or model_nodes[new].origin != 'imp':
                continue
            if not st.get('src') and orig.startswith(st['into'] + '.'):
                continue
            a, b = space[orig], real[new]
            mon['imported_constraints_compared'] += 1
            if (repr(a['opts']), a['cond'], a['const']) != (repr(b['opts']), b['cond'], b['const']):
                devs.append(dev('imported-constraints-differ', dict(original=orig, copy=new,
                                                                    original_constraints=(a['opts'], a['cond'], a['const']),
                                                                    copy_constraints=(b['opts'], b['cond'], b['const']))))


# ----------------------------------------------------------------------------- pinned witnesses

def _def(name, typ, text=None, unit=None, items=None, dim=None, **kw):
    d = dict(k='def', name=name, path=name, indent=0, type=typ, dim=dim, unit=unit)
    if items is not None:
        d['items'] = items
    else:
        d['text'] = text
    d.update(kw)
    return d


def pinned(ctx):
    cm = [('cm', 1)]
    return [
        (R.F_STALE, dict(prog=dict(base=None, remote=None, extra=None, main=[
            _def('a', 'float', '1', cm), dict(k='mod', path='a', type='float', text='2', unit=None),
            dict(k='inj', mode='def', indent=0, name='b', path='b', type='float', dim=None, src=None, query='a', slice=None, unit=None)]))),
        (R.F_EMPTY, dict(prog=dict(base=None, remote=None, main=[dict(k='group', name='g', indent=0),
                                                                  dict(k='def', name='a', path='g.a', indent=2, type='int', dim=None, text='1', unit=None)],
                                   extra=dict(stmt=dict(k='imp', src=None, query='x.*', into='h', form='block'),
                                              expect='fail-or-noop', kind='empty-import')))),
        (R.F_STRSLICE, dict(prog=dict(base=None, remote=None, extra=None, main=[
            _def('person', 'str', 'Will Smith'),
            dict(k='inj', mode='def', indent=0, name='surname', path='surname', type='str', dim=None, src=None, query='person',
                 slice=[[5, None]], unit=None)]))),
        (R.F_REINJECT, dict(prog=dict(base=None, extra=None, remote=[
            _def('a', 'float', '3', [('m', 1)]),
            dict(k='inj', mode='def', indent=0, name='b', path='b', type='float', dim=None, src=None, query='a', slice=None, unit=cm)],
            main=[dict(k='source', name='r'), dict(k='imp', src='r', query='b', into='h', form='inline')]))),
        (R.F_UNITDEF, dict(prog=dict(base=None, remote=None, extra=None, main=[
            dict(k='unit', name='uk', text='3', unit=[('kg', 1)]), _def('c', 'float', '1', [('kg', 1)]),
            dict(k='mod', path='c', type='float', text='1', unit=[('[uk]', 1)])]))),
        (R.F_RESIDUE, dict(prog=dict(base=None, remote=None, extra=None, main=[
            _def('m', 'float', items=[['1', '2'], ['3', '4']], dim=[2, 2], unit=cm),
            dict(k='inj', mode='def', indent=0, name='h', path='h', type='float', dim=None, src=None, query='m',
                 slice=[[1, 1], [0, 0]], unit=None),
            dict(k='imp', src=None, query='h', into='i1', form='inline')]))),
        (R.F_MODSLICE, dict(prog=dict(base=None, remote=None, extra=None, main=[
            _def('arr', 'float', items=['1', '2', '3'], dim=[3], unit=cm), _def('b', 'float', '9', cm),
            dict(k='inj', mode='mod', path='b', type='float', src=None, query='arr', slice=[[1, 1]], unit=None)]))),
    ]
