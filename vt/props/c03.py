"""C03 — A unit expression means the product of its table entries.

Reference-model oracle (vt.refmodel.units_ref): the generator builds a structured unit expression,
the model computes factor / dimension vector / unit map from the published tables, the real code
only sees the rendered text.  Rejection oracle: an atom string with no decomposition
prefix+symbol (prefix admissible) must raise.
"""
import math
from fractions import Fraction as Fr
from vt.core import outcome, dev
from vt.util import close
from vt.refmodel import units_ref as U

ID = 'C03'
LEVEL = 'exploration'
RULE = ('all (prefix or none) x table-symbol strings with an exponent form, all #system symbols, generated products/'
        'quotients/parenthesised groups of 1-6 atoms with numeric factors, and hostile strings (unknown symbol, '
        'inadmissible prefix, foreign characters in front of a valid atom, also inside compounds); non-trivial = prefixed '
        'atom, non-unit exponent, >=2 factors or a rejection case; distinct by rendered text')
SHARDS = {'quick': 16, 'thorough': 16}
MIN_NONTRIVIAL = {'quick': 8000, 'thorough': 100000}
REQUIRED_CLASSES = ['atom-valid', 'atom-invalid-prefix', 'atom-prefixed', 'atom-two-letter-prefix', 'system-symbol',
                    'compound', 'compound-parenthesised', 'compound-numeric-factor', 'compound-fractional-exponent',
                    'compound-cancelling', 'reject-unknown-symbol', 'reject-non-unit-under-zero-exponent', 'reject-pseudo-number', 'reject-foreign-chars', 'reject-inside-compound',
                    'roundtrip']
REQUIRED_MONITORS = ['factor_compares', 'dimension_compares', 'roundtrip_compares', 'rejections_demanded']
ASSUMPTIONS = ['units_ref reads UNIT_PREFIXES/UNIT_STANDARD/QUANTITY_UNITS once at worker start; the tables themselves are trusted',
               'canonical text spelling is not checked, only that it re-parses to the same units',
               'factors outside 1e+-290 (sum of |log10| of atom factors > 280) are skipped and counted']
EXHAUSTIVE_SUBSPACES = {'quick': ['every (prefix|none) x symbol string once (exponent form rotating)', 'every #system symbol'],
                        'thorough': ['every (prefix|none) x symbol string x 7 exponent forms', 'every #system symbol x 3 exponent forms']}

EXPS = [(1, 1), (2, 1), (-1, 1), (-3, 1), (1, 2), (-3, 2), (2, 4)]
NUMS = ['2', '2.5', '10', '1e3', '1e-3', '1.5e+2', '.5', '0.125', '3.', '7e0', '-2']
KEY_ONECHAR = 'C03-only-one-char-before-symbol-read'


def setup():
    from scinumtools.units import BaseUnits, Quantity
    T = U.Tables()
    # the harness asserts that no atom string is ambiguous for the shipped tables
    amb = []
    for u in T.units:
        for p in [''] + list(T.prefixes):
            if len(T.decompositions(p + u)) > 1:
                amb.append(p + u)
    if amb:
        raise RuntimeError('ambiguous table strings: %r' % amb[:5])
    return dict(T=T, BaseUnits=BaseUnits, Quantity=Quantity, syms=list(T.units), pre=list(T.prefixes), sys=list(T.system))


# ------------------------------------------------------------------ generation

def gen_atom(rng, ctx, maxn=4):
    T = ctx['T']
    if rng.random() < 0.06:
        u = rng.choice(ctx['sys'])
        p = ''
    else:
        u = rng.choice(ctx['syms'])
        adm = T.admissible(u)
        p = rng.choice(adm) if adm and rng.random() < 0.55 else ''
    r = rng.random()
    if r < 0.45:
        n, d = 1, 1
    elif r < 0.8:
        n, d = rng.choice([2, 3, -1, -2, -3, 4, -4]), 1
    else:
        d = rng.choice([2, 3, 4])
        n = rng.choice([1, -1, 3, -3, 2, 5])
    return ['a', p, u, n, d]


def gen_expr(rng, ctx, natoms):
    items = []
    for _ in range(natoms):
        if rng.random() < 0.12:
            items.append(['n', rng.choice(NUMS)])
        else:
            items.append(gen_atom(rng, ctx))
    if all(i[0] == 'n' for i in items):
        items[0] = gen_atom(rng, ctx)
    # sometimes force cancellation
    if natoms >= 2 and rng.random() < 0.15:
        a = [x for x in items if x[0] == 'a']
        items.append(['a', a[0][1], a[0][2], a[0][3], a[0][4]])

    def build(xs):
        if len(xs) == 1:
            return xs[0]
        if rng.random() < 0.3 and len(xs) >= 3:
            k = rng.randint(1, len(xs) - 2)
            right = build(xs[k:])
            left = build(xs[:k])
            return [rng.choice('*/'), left, ['p', right] if rng.random() < 0.8 else right]
        left = build(xs[:-1])
        return [rng.choice('*/'), left, xs[-1]]
    return build(items)


def cases(rng, tier, shard, nshards, ctx):
    T = ctx['T']
    i = 0
    nforms = 1 if tier == 'quick' else len(EXPS)
    for u in ctx['syms']:
        for p in [''] + ctx['pre']:
            for k in range(nforms):
                i += 1
                if i % nshards == shard:
                    n, d = EXPS[(i + k) % len(EXPS)] if tier == 'quick' else EXPS[k]
                    yield dict(t='atom', p=p, u=u, n=n, d=d)
    for u in ctx['sys']:
        for k in range(1 if tier == 'quick' else 3):
            i += 1
            if i % nshards == shard:
                n, d = EXPS[(i + k) % 4]
                yield dict(t='sys', u=u, n=n, d=d)
    ncomp, nrej = (12000, 6000) if tier == 'quick' else (300000, 120000)
    for _ in range(ncomp // nshards):
        yield dict(t='comp', x=gen_expr(rng, ctx, rng.randint(1, 6)))
    junk = ['x', 'zz', 'q', 'μ', 'k', 'kg ', '2', 'da', 'E', '_', 'k#', 'mm', 'Z', 'xy ', '?']
    for _ in range(nrej // nshards):
        r = rng.random()
        if r < 0.03:
            # an atom that is no unit (unknown symbol, junk before a symbol, a prefix the unit does not admit) under the exponent ZERO,
            # alone or inside a compound: x**0 = 1 does not make "x" a unit
            bad = rng.choice(['foo', 'qq', 'blah', 'xm', '2m', 'kCel', 'mCel', 'mpc', 'cpc', 'kdeg', 'Kelvin', 'ug_', 'k#SLEN'])
            yield dict(t='rej', kind='zero-exponent', bad=bad, exp=rng.choice(['0', '-0', '0:2', '0:1', '00']),
                       form=rng.choice(['%s', '%s', 'kg*%s/s', 'J/(mol*%s)', '%s*m', 'm/%s', '(%s)']), x=None)
        elif r < 0.04:
            # a "number" in a spelling the unit grammar does not have (words, underscores, capital E, plus sign, other digits)
            yield dict(t='rej', kind='pseudo-number', tok=rng.choice(PSEUDO_NUMBERS), form=rng.choice(['%s', '%s*m', 'm/%s', 'km*%s/s', '%s*kg*m2/s2', '(%s*m)/s']), x=None)
        elif r < 0.25:
            # unknown symbol
            s = ''.join(rng.choice('abcdefghijklmnopqrstuvwxyzABCDEFGHIJKLMNOPQRSTUVWXYZ') for _ in range(rng.randint(1, 5)))
            yield dict(t='rej', kind='unknown', atom=s, x=None)
        elif r < 0.7:
            a = gen_atom(rng, ctx)
            yield dict(t='rej', kind='junk', junk=rng.choice(junk), a=a, x=None)
        else:
            x = gen_expr(rng, ctx, rng.randint(2, 5))
            yield dict(t='rej', kind='junk-in-compound', junk=rng.choice(junk), x=x, pos=rng.randrange(8))


# ------------------------------------------------------------------ oracles

def parse_real(ctx, text):
    """observations of the real code for one text"""
    obs = {}
    try:
        bu = ctx['BaseUnits'](text)
        obs['bu'] = dict(mag=float(bu.magnitude), dims=U.dims_from_real(bu.dimensions), um=U.unitmap_from_real(bu), expr=bu.expression)
    except Exception as e:
        obs['bu_exc'] = '%s: %s' % (type(e).__name__, str(e)[:120])
    try:
        q = ctx['Quantity'](1, text)
        obs['q'] = dict(total=float(q.magnitude.value) * float(q.baseunits.magnitude), dims=U.dims_from_real(q.baseunits.dimensions))
    except Exception as e:
        obs['q_exc'] = '%s: %s' % (type(e).__name__, str(e)[:120])
    return obs


def onechar_twin(ctx, s):
    """Meaning the known defect assigns to the atom text s (exponent already stripped):
    only the single character in front of the longest matching symbol is looked at.
    returns ('ok', p, u) | ('raise',)"""
    T = ctx['T']
    st = ' ' + s
    if st.startswith(' #'):
        return ('sys',)
    bases = [u for u in T.units if st.endswith(u)]
    if not bases:
        return ('raise',)
    base = max(bases, key=len)
    c = st[-len(base) - 1]
    pk = [p for p in T.prefixes if c.endswith(p)]
    if pk:
        p = max(pk, key=len)
        if p not in T.admissible(base):
            return ('raise',)
        return ('ok', p, base)
    if len(c) > 1:
        return ('raise',)
    # a single non-prefix character: the real code's `len(string)>1` test is false for one character
    return ('ok', '', base)


def check_meaning(ctx, text, exp, devs, mon, what):
    """exp = (unit_factor, numeric_factor, dims, unitmap)"""
    obs = parse_real(ctx, text)
    uf, nf, dims, um = exp
    if 'bu_exc' in obs or 'q_exc' in obs:
        devs.append(dev(what + '-valid-expression-rejected', dict(text=text, obs=obs)))
        return obs
    mon['factor_compares'] = mon.get('factor_compares', 0) + 2
    mon['dimension_compares'] = mon.get('dimension_compares', 0) + 2
    if not close(obs['bu']['mag'], uf, 1e-10):
        devs.append(dev(what + '-unit-factor', dict(text=text, observed=obs['bu']['mag'], expected=uf)))
    if obs['bu']['dims'] != dims:
        devs.append(dev(what + '-dimensions', dict(text=text, observed=U.fmt_dims(obs['bu']['dims']), expected=U.fmt_dims(dims))))
    if obs['bu']['um'] != U.nonzero(um):
        devs.append(dev(what + '-unit-exponents', dict(text=text, observed={''.join(k): str(v) for k, v in obs['bu']['um'].items()},
                                                         expected={''.join(k): str(v) for k, v in U.nonzero(um).items()})))
    if not close(obs['q']['total'], uf * nf, 1e-10):
        devs.append(dev(what + '-quantity-total-factor', dict(text=text, observed=obs['q']['total'], expected=uf * nf)))
    if obs['q']['dims'] != dims:
        devs.append(dev(what + '-quantity-dimensions', dict(text=text, observed=U.fmt_dims(obs['q']['dims']), expected=U.fmt_dims(dims))))
    # round trip
    expr = obs['bu']['expr']
    if expr is not None:
        mon['roundtrip_compares'] = mon.get('roundtrip_compares', 0) + 1
        try:
            bu2 = ctx['BaseUnits'](expr)
            if U.unitmap_from_real(bu2) != obs['bu']['um'] or U.dims_from_real(bu2.dimensions) != obs['bu']['dims'] \
                    or not close(float(bu2.magnitude), obs['bu']['mag'], 1e-12):
                devs.append(dev(what + '-roundtrip-differs', dict(text=text, rendered=expr)))
        except Exception as e:
            devs.append(dev(what + '-roundtrip-rejected', dict(text=text, rendered=expr, exc=repr(e)[:150])))
    return obs


def logsize(ctx, x):
    T = ctx['T']
    if x[0] == 'a':
        f, _ = T.atom(x[1], x[2], x[3], x[4])
        return abs(math.log10(f)) if f > 0 else 999
    if x[0] == 'n':
        v = abs(float(x[1]))
        return abs(math.log10(v)) if v > 0 else 999
    if x[0] == 'p':
        return logsize(ctx, x[1])
    return logsize(ctx, x[1]) + logsize(ctx, x[2])


def flat_atoms(x, out):
    if x[0] in 'an':
        out.append(x)
    elif x[0] == 'p':
        flat_atoms(x[1], out)
    else:
        flat_atoms(x[1], out); flat_atoms(x[2], out)
    return out


def run_case(case, ctx):
    T = ctx['T']
    devs, mon, classes = [], {}, []
    t = case['t']
    if t in ('atom', 'sys'):
        p, u, n, d = case.get('p', ''), case['u'], case['n'], case['d']
        s = p + u
        text = s + U.render_exp(n, d)
        if t == 'sys':
            classes.append('system-symbol')
            try:
                f, dims = T.atom('', u, n, d)
            except (OverflowError, ZeroDivisionError):
                return outcome(skip='overflow')
            exp = (f, 1.0, dims, {('', u): Fr(n, d)})
            check_meaning(ctx, text, exp, devs, mon, 'system')
            classes.append('roundtrip')
            return outcome(classes=classes, nontrivial=(n, d) != (1, 1), fp=text, dev=devs, monitors=mon,
                           sample=dict(text=text, expected_factor=f, dims=U.fmt_dims(dims)))
        D = T.decompositions(s)
        if len(D) == 1:
            pp, uu = D[0]
            classes.append('atom-valid')
            if pp:
                classes.append('atom-prefixed')
            if len(pp) == 2:
                classes.append('atom-two-letter-prefix')
            try:
                f, dims = T.atom(pp, uu, n, d)
            except (OverflowError, ZeroDivisionError):
                return outcome(skip='overflow')
            if not U.finite_ok(f):
                return outcome(skip='overflow')
            exp = (f, 1.0, dims, {(pp, uu): Fr(n, d)})
            d0 = len(devs)
            obs = check_meaning(ctx, text, exp, devs, mon, 'atom')
            classes.append('roundtrip')
            if len(devs) > d0:
                classify_onechar(ctx, s, n, d, obs, devs, d0, text, valid=True)
            return outcome(classes=classes, nontrivial=bool(pp) or (n, d) != (1, 1), fp=text, dev=devs, monitors=mon,
                           sample=dict(text=text, expected_factor=f, dims=U.fmt_dims(dims)))
        # no decomposition -> must be rejected
        classes.append('atom-invalid-prefix')
        return must_reject(ctx, text, s, n, d, classes, mon, 'inadmissible-prefix')
    if t == 'comp':
        x = case['x']
        classes.append('compound')
        atoms = flat_atoms(x, [])
        text = U.render(x)
        if '(' in text:
            classes.append('compound-parenthesised')
        if any(a[0] == 'n' for a in atoms):
            classes.append('compound-numeric-factor')
        if any(a[0] == 'a' and a[4] != 1 for a in atoms):
            classes.append('compound-fractional-exponent')
        try:
            if logsize(ctx, x) > 280:
                return outcome(skip='overflow')
            exp = T.meaning(x)
        except (OverflowError, ZeroDivisionError):
            return outcome(skip='overflow')
        if not U.finite_ok(exp[0], exp[1]) or exp[1] == 0:
            return outcome(skip='overflow')
        if any(v == 0 for v in exp[3].values()):
            classes.append('compound-cancelling')
        check_meaning(ctx, text, exp, devs, mon, 'compound')
        classes.append('roundtrip')
        # a compound containing a two-letter-prefix atom deviates through the known mechanism
        if devs and any(a[0] == 'a' and len(a[1]) == 2 for a in atoms):
            if all(d['mech'].startswith('compound-') for d in devs):
                ok = compound_onechar_explains(ctx, x, text)
                if ok:
                    devs = [dev('compound-two-letter-prefix-misread', dict(text=text), known=KEY_ONECHAR)]
        return outcome(classes=classes, nontrivial=len(atoms) >= 2 or any(a[0] == 'a' and (a[1] or (a[3], a[4]) != (1, 1)) for a in atoms),
                       fp=text, dev=devs, monitors=mon,
                       sample=dict(text=text, expected_unit_factor=exp[0], numeric_factor=exp[1], dims=U.fmt_dims(exp[2])))
    if t == 'rej':
        kind = case['kind']
        if kind == 'unknown':
            s = case['atom']
            if T.decompositions(s):
                return outcome(skip='random-string-is-a-unit')
            classes.append('reject-unknown-symbol')
            return must_reject(ctx, s, s, 1, 1, classes, mon, 'unknown-symbol')
        if kind == 'zero-exponent':
            if T.decompositions(case['bad']):
                return outcome(skip='atom-is-a-unit')
            text = case['form'] % (case['bad'] + case['exp'])
            classes.append('reject-non-unit-under-zero-exponent')
            return must_reject(ctx, text, case['bad'], 0, 1, classes, mon, 'non-unit-under-zero-exponent')
        if kind == 'pseudo-number':
            text = case['form'] % case['tok']
            classes.append('reject-pseudo-number')
            return must_reject(ctx, text, case['tok'], 1, 1, classes, mon, 'number-in-a-spelling-outside-the-grammar')
        if kind == 'junk':
            a = case['a']
            if a[2].startswith('#') and not case['junk'].strip():
                return outcome(skip='blank-junk')
            s = case['junk'] + a[1] + a[2]
            if T.decompositions(s) or s.strip() != s and T.decompositions(s.strip()):
                return outcome(skip='junk-forms-a-valid-atom')
            if is_number_like(s + U.render_exp(a[3], a[4])):
                return outcome(skip='junk-forms-a-number')
            classes.append('reject-foreign-chars')
            return must_reject(ctx, s + U.render_exp(a[3], a[4]), s, a[3], a[4], classes, mon, 'foreign-characters')
        if kind == 'junk-in-compound':
            x = case['x']
            atoms = [a for a in flat_atoms(x, []) if a[0] == 'a']
            a = atoms[case['pos'] % len(atoms)]
            s = case['junk'] + a[1] + a[2]
            if T.decompositions(s) or T.decompositions(s.strip()) or a[2].startswith('#') and not case['junk'].strip():
                return outcome(skip='junk-forms-a-valid-atom')
            if is_number_like(s + U.render_exp(a[3], a[4])):
                return outcome(skip='junk-forms-a-number')
            # render with the junked atom
            marker = ['a', case['junk'] + a[1], a[2], a[3], a[4]]
            x2 = replace_atom(x, a, marker)
            text = U.render(x2)
            classes.append('reject-inside-compound')
            return must_reject(ctx, text, s, a[3], a[4], classes, mon, 'foreign-characters-in-compound')
    raise ValueError(case)


PSEUDO_NUMBERS = ['inf', 'nan', 'infinity', '-inf', 'Inf', 'NaN', '-nan', '1_0', '1_000', '1E3', '2.5E-3', '+5', '+1e3', '\u0661\u0662', '\uff15', '0x10', '1e', '1e+',
                  '--2', '1.2.3', '1d3', '1,5', 'e5', '1e3.5']


def is_number_like(s):
    import re
    return re.match(r'^[-]?([0-9.]+)(e([0-9+-]+)|)$', s) is not None


def replace_atom(x, old, new):
    if x is old:
        return new
    if x[0] in 'an':
        return x
    if x[0] == 'p':
        return ['p', replace_atom(x[1], old, new)]
    return [x[0], replace_atom(x[1], old, new), replace_atom(x[2], old, new)]


def must_reject(ctx, text, s, n, d, classes, mon, what):
    mon['rejections_demanded'] = 1
    obs = parse_real(ctx, text)
    devs = []
    accepted = [k for k in ('bu', 'q') if k in obs]
    if accepted:
        tw = onechar_twin(ctx, s) if '*' not in text and '/' not in text else None
        known = None
        if tw is not None and tw[0] == 'ok':
            # the defect predicts exactly this meaning
            try:
                f, dims = ctx['T'].atom(tw[1], tw[2], n, d)
                if 'bu' in obs and close(obs['bu']['mag'], f, 1e-10) and obs['bu']['dims'] == dims:
                    known = KEY_ONECHAR
            except Exception:
                pass
        elif tw is None:
            known = KEY_ONECHAR if compound_junk_explained(ctx, text) else None
        devs.append(dev(what + '-accepted', dict(text=text, observed={k: (obs[k].get('mag', obs[k].get('total'))) for k in accepted}), known=known))
    return outcome(classes=classes, nontrivial=True, fp='REJ ' + text, dev=devs, monitors=mon,
                   sample=dict(text=text, expected='error', observed=obs.get('bu_exc') or 'accepted'))


def classify_onechar(ctx, s, n, d, obs, devs, d0, text, valid):
    """valid atom deviates: known iff the one-character twin predicts exactly the observation"""
    tw = onechar_twin(ctx, s)
    T = ctx['T']
    if tw[0] == 'raise' and ('bu_exc' in obs or 'q_exc' in obs):
        del devs[d0:]
        devs.append(dev('two-letter-prefix-rejected', dict(text=text, obs=str(obs)[:200]), known=KEY_ONECHAR))
    elif tw[0] == 'ok' and 'bu' in obs:
        try:
            f, dims = T.atom(tw[1], tw[2], n, d)
        except Exception:
            return
        if close(obs['bu']['mag'], f, 1e-10) and obs['bu']['dims'] == dims and obs['bu']['um'] == {(tw[1], tw[2]): Fr(n, d)}:
            del devs[d0:]
            devs.append(dev('two-letter-prefix-misread', dict(text=text, observed_factor=obs['bu']['mag'], read_as=tw[1] + tw[2]), known=KEY_ONECHAR))


def twin_expr(ctx, x):
    """expression with every atom replaced by what the one-character defect reads; None if the twin raises"""
    if x[0] == 'a':
        if x[2].startswith('#'):
            return x
        tw = onechar_twin(ctx, x[1] + x[2])
        if tw[0] != 'ok':
            return None
        return ['a', tw[1], tw[2], x[3], x[4]]
    if x[0] == 'n':
        return x
    if x[0] == 'p':
        r = twin_expr(ctx, x[1])
        return None if r is None else ['p', r]
    a, b = twin_expr(ctx, x[1]), twin_expr(ctx, x[2])
    return None if a is None or b is None else [x[0], a, b]


def compound_onechar_explains(ctx, x, text):
    """all deviations of a compound are explained iff the real code reads exactly the twin expression (or raises where the twin raises)"""
    tx = twin_expr(ctx, x)
    obs = parse_real(ctx, text)
    if tx is None:
        return 'bu_exc' in obs
    if 'bu' not in obs:
        return False
    try:
        uf, nf, dims, um = ctx['T'].meaning(tx)
    except Exception:
        return False
    return close(obs['bu']['mag'], uf, 1e-10) and obs['bu']['dims'] == dims and obs['bu']['um'] == U.nonzero(um) \
        and 'q' in obs and close(obs['q']['total'], uf * nf, 1e-10)


def compound_junk_explained(ctx, text):
    """A junked compound was accepted: known iff every atom text, read by the one-character twin, yields exactly the observation."""
    import re
    T = ctx['T']
    # split the rendered text into atoms/operators without using the repo parser
    toks = re.split(r'([*/()])', text)
    expr = []
    for tk in toks:
        if tk in ('*', '/', '(', ')') or tk == '':
            expr.append(tk)
            continue
        if is_number_like(tk):
            expr.append(('n', float(tk)))
            continue
        m = re.search(r'[0-9:+-]+$', tk)
        e = Fr(1)
        body = tk
        if m:
            body = tk[:-len(m.group())]
            g = m.group()
            try:
                e = Fr(int(g.split(':')[0]), int(g.split(':')[1])) if ':' in g else Fr(int(g))
            except Exception:
                return False
        if body.startswith('#'):
            if body not in T.system:
                return False
            expr.append(('a', '', body, e))
            continue
        tw = onechar_twin(ctx, body)
        if tw[0] != 'ok':
            return False
        expr.append(('a', tw[1], tw[2], e))
    # evaluate the token list (left fold with parentheses)
    pos = [0]

    def prim():
        tk = expr[pos[0]]
        while tk == '':
            pos[0] += 1
            tk = expr[pos[0]]
        if tk == '(':
            pos[0] += 1
            v = chain()
            while expr[pos[0]] == '':
                pos[0] += 1
            pos[0] += 1     # ')'
            return v
        pos[0] += 1
        if tk[0] == 'n':
            return (tk[1], (Fr(0),) * 8)
        f, dims = T.atom(tk[1], tk[2], tk[3].numerator, tk[3].denominator)
        return (f, dims)

    def chain():
        v = prim()
        while pos[0] < len(expr):
            while pos[0] < len(expr) and expr[pos[0]] == '':
                pos[0] += 1
            if pos[0] >= len(expr) or expr[pos[0]] not in ('*', '/'):
                break
            op = expr[pos[0]]
            pos[0] += 1
            w = prim()
            if op == '*':
                v = (v[0] * w[0], tuple(a + b for a, b in zip(v[1], w[1])))
            else:
                v = (v[0] / w[0], tuple(a - b for a, b in zip(v[1], w[1])))
        return v
    try:
        tot, dims = chain()
    except Exception:
        return False
    obs = parse_real(ctx, text)
    return 'q' in obs and close(obs['q']['total'], tot, 1e-9) and obs['q']['dims'] == dims


def pinned(ctx):
    return [
        (KEY_ONECHAR, dict(t='atom', p='da', u='m', n=1, d=1)),
        (KEY_ONECHAR, dict(t='atom', p='da', u='ar', n=1, d=1)),
        (KEY_ONECHAR, dict(t='rej', kind='junk', junk='x', a=['a', 'k', 'm', 1, 1], x=None)),
        (KEY_ONECHAR, dict(t='rej', kind='junk', junk='k', a=['a', '', '#SLEN', 1, 1], x=None)),
    ]
