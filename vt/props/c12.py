"""C12 - Densities, volume and masses of matter are mutually consistent.

Algebra over obj.mass_density, obj.number_density, obj.mass and data_matter(quantity=False):
    rho = n * M_unit,  M_unit = sum(amount_i * m_i) in grams (amounts as given, m_i as reported by data_components),
    mass = rho * V,  sum(rho_i) = rho,  sum(M_i) = mass,  n_i = amount_i * n,   the given density is reported unchanged;
differential twin: the same physical input written in other compatible units (g/cm3 <-> kg/m3 <-> kg/l ..;
cm-3 <-> m-3 <-> 1/l ..; cm3 <-> l <-> m3 ..) gives the same outputs.
"""
import math
from vt.core import outcome, dev
from vt.util import close, plain
from vt.refmodel import materials_ref as R

ID = 'C12'
LEVEL = 'exploration'
RTOL = 1e-9
RULE = ('random Element (proportion 1 or >1), Substance (random formula tree rendered to text) and Material (1..5 substances, '
        'Norm.NUMBER_FRACTION and Norm.MASS_FRACTION, dict or string form) with a mass density (1e-6..30 g/cm3) or a number '
        'density (1e8..1e25 cm-3), with or without a volume (1e-3..1e9 cm3), both isotope modes; every case is built once in '
        'the base units g/cm3, cm-3, cm3 and twice more with the same physical input in other units.  non-trivial = >=2 '
        'components, or a volume, or a non-base unit twin that differs in unit from the base; distinct by (kind, texts, amounts, '
        'density kind+value, volume, unit choice)')
SHARDS = {'quick': 16, 'thorough': 16}
MIN_NONTRIVIAL = {'quick': 200, 'thorough': 6000}
TIME_CAP = {'quick': 300, 'thorough': 3600}
REQUIRED_CLASSES = ['element', 'element-proportion>1', 'substance', 'material-number-fraction', 'material-mass-fraction',
                    'mass-density-given', 'number-density-given', 'with-volume', 'without-volume', 'natural', 'most-abundant',
                    'unit:kg/m3', 'unit:kg/l', 'unit:m-3', 'unit:1/l', 'unit:l', 'unit:m3', 'dict-form', 'string-form',
                    'reread-after-in-place-conversion', 'composition-changed-by-add:existing', 'composition-changed-by-add:new', 'composition-changed-inside-a-with-block',
                    'operand-of-a-sum-that-is-topped-up:right', 'operand-of-a-sum-that-is-topped-up:left']
REQUIRED_MONITORS = ['mode_twin_tables', 'identity_checks', 'component_rows_checked', 'unit_twins_compared', 'inplace_conversion_rereads', 'add_after_construction_checks', 'table_hygiene_checks']
ASSUMPTIONS = ['component masses m_i are those reported by data_components() / Element.component_mass (their correctness is C10)',
               'the gram value of 1 Da is the unit table magnitude; unit factors of the twins are exact SI relations of the model '
               '(1 kg/m3 = 1e-3 g/cm3, 1 l = 1e3 cm3, ...), checked once per worker against Quantity.value()',
               'formula unit of a Norm.NUMBER_FRACTION material = the proportions as given (docs example 0.2 <H2O> 0.3 <NaCl>); '
               'for Norm.MASS_FRACTION materials only mass = rho*V, the sums, the preserved input density and unit independence '
               'are verdicts',
               'a volume without any density, and both densities at once, are outside the statement and not generated']
EXHAUSTIVE_SUBSPACES = {'quick': [], 'thorough': []}
NRANDOM = {'quick': 640, 'thorough': 20000}

KEY_MF = 'C12-mass-fraction-material-rejects-density'
KEY_EP = 'C12-element-proportion-not-in-formula-unit'
KEY_ND = 'C12-number-density-lost-in-dict-form'

# value in that unit = value in the base unit * factor          (base: g/cm3, cm-3, cm3)
U_RHO = {'g/cm3': 1.0, 'kg/m3': 1e3, 'kg/l': 1.0, 'g/l': 1e3, 'kg/dm3': 1.0, 'mg/cm3': 1e3, 'g/ml': 1.0}
U_N = {'cm-3': 1.0, 'm-3': 1e6, '1/l': 1e3, 'dm-3': 1e3, 'mm-3': 1e-3, '1/m3': 1e6}
U_V = {'cm3': 1.0, 'l': 1e-3, 'm3': 1e-6, 'ml': 1.0, 'dm3': 1e-3, 'mm3': 1e3}


def setup():
    import warnings
    warnings.simplefilter('ignore')
    import scinumtools.materials as M
    from scinumtools.units import Quantity
    from vt.monitors.tables import Hygiene
    T = R.load_tables()
    ctx = dict(M=M, T=T, Q=Quantity, hyg=Hygiene())
    for table, base in ((U_RHO, 'g/cm3'), (U_N, 'cm-3'), (U_V, 'cm3')):
        for u, fac in table.items():
            got = Quantity(fac, u).value(base)
            assert close(got, 1.0, 1e-12), ('unit factor of the model disagrees with the unit system', u, got)
    selftest(ctx)
    return ctx


def expected_matter(amounts, masses_da, kind, value, V, da_g):
    """the statement's algebra: amounts/masses in order -> dict(rho, n, mass, rows)"""
    M_unit = math.fsum(a * m for a, m in zip(amounts, masses_da)) * da_g
    if kind == 'mass':
        rho, n = value, value / M_unit
    else:
        n, rho = value, value * M_unit
    out = dict(rho=rho, n=n, mass=None if V is None else rho * V,
               n_i=[a * n for a in amounts], rho_i=[a * m * da_g * n for a, m in zip(amounts, masses_da)])
    out['M_i'] = None if V is None else [r * V for r in out['rho_i']]
    return out


def selftest(ctx):
    """documented examples: Element B 997 kg/m3 1 l; Substance B{11}N{14}H{1}6 780 kg/m3; Material 0.2 <H2O> 0.3 <NaCl> 0.3 g/cm3 1 l"""
    T = ctx['T']

    def mass(f, nat=True):
        c, i = R.expand(f)
        return R.totals(T, c, i, nat)['mass']
    sp, fm = R.sp, R.fm
    e = expected_matter([1], [mass(fm([sp('B')]))], 'mass', 0.997, 1000.0, T.da_g)
    assert abs(e['n'] / 5.553657e22 - 1) < 1e-6 and abs(e['mass'] - 997) < 1e-9
    ms = [mass(fm([sp('B', A=11)])), mass(fm([sp('N', A=14)])), mass(fm([sp('H', A=1)]))]
    e = expected_matter([1, 1, 6], ms, 'mass', 0.78, None, T.da_g)
    assert abs(e['n'] / 1.5123538e22 - 1) < 1e-6 and abs(e['n_i'][2] / 9.074123e22 - 1) < 1e-6 and abs(e['rho_i'][0] - 0.276479) < 1e-6
    mw, mn = mass(fm([sp('H', n=2), sp('O')])), mass(fm([sp('Na'), sp('Cl')]))
    e = expected_matter([0.2, 0.3], [mw, mn], 'mass', 0.3, 1000.0, T.da_g)
    assert abs(e['n'] / 8.548e21 - 1) < 1e-4 and abs(e['n_i'][0] / 1.709551e21 - 1) < 1e-6 and abs(e['n_i'][1] / 2.564326e21 - 1) < 1e-6
    assert abs(e['rho_i'][0] - 0.051141) < 1e-6 and abs(e['M_i'][1] - 248.858636) < 1e-5 and abs(e['mass'] - 300) < 1e-9


# ------------------------------------------------------------------------------------ cases

def sig(v, n=6):
    return float('%.*g' % (n, v))


def amount_text(rng):
    v = 10 ** rng.uniform(-2, 2)
    r = rng.random()
    if r < 0.2:
        return '%d' % max(1, int(round(v)))
    if r > 0.9:
        # exponent notation without a decimal point in the mantissa (what repr() prints for small floats)
        return rng.choice(['%de%+03d', '%de%d', '%dE%d']) % (rng.randint(1, 9), rng.choice([-2, -1, 1, 2]))
    t = ('%.4f' % v).rstrip('0')
    if t.endswith('.'):
        t += '0'
    return t if float(t) > 0 else '0.01'


def cases(rng, tier, shard, nshards, ctx):
    T = ctx['T']
    n = NRANDOM[tier] // nshards
    for j in range(n):
        natural = rng.random() < 0.5
        r = rng.random()
        if r < 0.2:
            case = dict(kind='element', el=R.gen_species(rng, T), prop=rng.choice([1, 1, 1, 2, 3, 7]))
        elif r < 0.5:
            case = dict(kind='substance', form=rng.choice(['string', 'string', 'dict']),
                        f=R.gen_formula(rng, T, dict(maxdepth=2, maxitems=4, avoid_known=True)))
        else:
            form = rng.choice(['dict', 'string'])
            opts = dict(maxdepth=1, maxitems=3, pgroup=0.25, avoid_known=True, noplus=(form == 'string'))
            comps, seen = [], set()
            ncomp = rng.choice([1, 2, 2, 3, 3, 4, 5])
            while len(comps) < ncomp:
                f = R.gen_formula(rng, T, opts)
                tx = R.render(f)
                if tx not in seen:
                    seen.add(tx)
                    comps.append([f, amount_text(rng)])
            case = dict(kind='material', norm=rng.choice(['number', 'number', 'mass']), form=form, comps=comps)
        case['natural'] = natural
        if rng.random() < 0.5:
            case['dens'] = ['mass', sig(10 ** rng.uniform(-6, 1.5))]
        else:
            case['dens'] = ['number', sig(10 ** rng.uniform(8, 25))]
        case['vol'] = sig(10 ** rng.uniform(-3, 9)) if rng.random() < 0.55 else None
        table = U_RHO if case['dens'][0] == 'mass' else U_N
        first = ['kg/m3', 'kg/l'] if case['dens'][0] == 'mass' else ['m-3', '1/l']
        du = [rng.choice(first), rng.choice(list(table))]
        vu = [rng.choice(['l', 'm3']), rng.choice(list(U_V))]
        case['units'] = [[du[0], vu[0]], [du[1], vu[1]]]
        yield case


# ------------------------------------------------------------------------------------ build / observe

def build(ctx, case, du, vu):
    """construct the object with the case's physical input expressed in units du (density) and vu (volume)"""
    M, Q = ctx['M'], ctx['Q']
    kind, val = case['dens']
    kw = {}
    if kind == 'mass':
        kw['mass_density'] = Q(val * U_RHO[du], du)
    else:
        kw['number_density'] = Q(val * U_N[du], du)
    if case['vol'] is not None:
        kw['volume'] = Q(case['vol'] * U_V[vu], vu)
    natural = case['natural']
    if case['kind'] == 'element':
        return M.Element(R.species_text(case['el']), case['prop'], natural=natural, **kw)
    if case['kind'] == 'substance':
        if case.get('form') == 'dict':
            return M.Substance(dict(R.expand(case['f'])[0]), natural=natural, **kw)
        return M.Substance(R.render(case['f']), natural=natural, **kw)
    NORM = M.Norm.NUMBER_FRACTION if case['norm'] == 'number' else M.Norm.MASS_FRACTION
    texts = [R.render(f) for f, _ in case['comps']]
    if case['form'] == 'dict':
        spec = {t: float(a) for t, (f, a) in zip(texts, case['comps'])}
    else:
        spec = ' '.join('%s <%s>' % (a, t) for t, (f, a) in zip(texts, case['comps']))
    return M.Material(spec, natural=natural, norm_type=NORM, **kw)


def observe(obj, case):
    """everything C12 looks at, as plain floats"""
    o = dict(rho=plain(obj.mass_density.value('g/cm3')), n=plain(obj.number_density.value('cm-3')),
             mass=None if obj.mass is None or case['vol'] is None else plain(obj.mass.value('g')))
    from vt.props import mat_modes
    mat_modes.check(obj, tables=('data_matter', 'data_components', 'data_composite'))   # plain / default Quantity reading modes agree
    dm = obj.data_matter(quantity=False)
    rows, srow = {}, None
    for k, v in dm.items():
        d = {c: plain(x) for c, x in v.data().items()}
        if k == 'sum':
            srow = d
        elif k != 'avg':
            rows[k] = d
    o['rows'], o['sum'] = rows, srow
    if case['kind'] == 'element':
        o['amounts'] = {obj.expr: plain(obj.proportion)}
        o['masses'] = {obj.expr: plain(obj.component_mass.value('Da'))}
    else:
        col = 'count' if case['kind'] == 'substance' else 'fraction'
        dc = obj.data_components(quantity=False)
        o['amounts'] = {k: plain(v.data()[col]) for k, v in dc.items()}
        o['masses'] = {k: plain(v.data()['mass']) for k, v in dc.items()}
    return o


def flat(o):
    """outputs compared between unit twins"""
    out = {'rho': o['rho'], 'n': o['n'], 'mass': o['mass']}
    for k, r in o['rows'].items():
        for c, v in r.items():
            out['row %s.%s' % (k, c)] = v
    if o['sum']:
        for c, v in o['sum'].items():
            out['sum.%s' % c] = v
    return out


def given_amounts(case):
    if case.get('amount_override') is not None:
        return dict(case['amount_override'])
    if case['kind'] == 'element':
        return {R.species_text(case['el']): float(case['prop'])}
    if case['kind'] == 'substance':
        c, _ = R.expand(case['f'])
        return {k: float(v) for k, v in c.items()}
    return {R.render(f): float(a) for f, a in case['comps']}


def check_identities(case, o, T, devs, mon, twin=None):
    """twin: None -> the statement's algebra;  'element-unit-mass' -> buggy twin of KEY_EP (formula unit = one atom).
    Returns list of (mech, detail) instead of appending when twin is set."""
    out = []
    kind, val = case['dens']
    V = case['vol']
    amounts = given_amounts(case)
    mass_mode = case['kind'] == 'material' and case['norm'] == 'mass'
    if set(o['rows']) != set(amounts) or set(o['amounts']) != set(amounts):
        out.append(('components-differ', dict(rows=list(o['rows']), given=list(amounts))))
        return out
    bad = {k: (o['amounts'][k], amounts[k]) for k in amounts if not close(o['amounts'][k], amounts[k], RTOL)}
    if bad:
        out.append(('amount-not-as-given', bad))
        return out
    keys = list(amounts)
    # given density must come back unchanged
    mon['identity_checks'] += 1
    if kind == 'mass' and not close(o['rho'], val, RTOL):
        out.append(('given-mass-density-not-preserved', dict(given_g_cm3=val, reported=o['rho'])))
    if kind == 'number' and not close(o['n'], val, RTOL):
        out.append(('given-number-density-not-preserved', dict(given_cm3=val, reported=o['n'])))
    rho, n = o['rho'], o['n']
    if not mass_mode:
        unit_amounts = [amounts[k] for k in keys]
        if twin == 'element-unit-mass':
            unit_amounts = [1.0]
        M_unit = math.fsum(a * o['masses'][k] for a, k in zip(unit_amounts, keys)) * T.da_g
        mon['identity_checks'] += 1
        if not close(rho, n * M_unit, RTOL):
            out.append(('rho-differs-from-n-times-formula-unit-mass', dict(rho=rho, n=n, M_unit_g=M_unit, n_times_M=n * M_unit)))
        for k in keys:
            mon['component_rows_checked'] += 1
            if not close(o['rows'][k].get('n'), amounts[k] * n, RTOL):
                out.append(('component-number-density-not-amount-times-n', dict(component=k, observed=o['rows'][k].get('n'),
                                                                               expected=amounts[k] * n)))
                break
    # sums
    exp_rho_sum = rho * (amounts[keys[0]] if twin == 'element-unit-mass' else 1.0)
    srho = math.fsum(o['rows'][k].get('rho', float('nan')) for k in keys)
    mon['identity_checks'] += 1
    if not close(srho, exp_rho_sum, RTOL):
        out.append(('component-mass-densities-do-not-add-up-to-rho', dict(sum_rho_i=srho, rho=rho)))
    if o['sum'] is not None and not close(o['sum'].get('rho'), exp_rho_sum, RTOL):
        out.append(('sum-row-rho-differs-from-rho', dict(sum_row=o['sum'].get('rho'), rho=rho)))
    if V is not None:
        mon['identity_checks'] += 2
        if o['mass'] is None or not close(o['mass'], rho * V, RTOL):
            out.append(('mass-differs-from-rho-times-volume', dict(mass=o['mass'], rho=rho, V_cm3=V, expected=rho * V)))
        else:
            exp_m_sum = o['mass'] * (amounts[keys[0]] if twin == 'element-unit-mass' else 1.0)
            sM = math.fsum(o['rows'][k].get('M', float('nan')) for k in keys)
            if not close(sM, exp_m_sum, RTOL):
                out.append(('component-masses-do-not-add-up-to-mass', dict(sum_M_i=sM, mass=o['mass'])))
            if o['sum'] is not None and not close(o['sum'].get('M'), exp_m_sum, RTOL):
                out.append(('sum-row-M-differs-from-mass', dict(sum_row=o['sum'].get('M'), mass=o['mass'])))
    else:
        if any('M' in r or 'N' in r for r in o['rows'].values()):
            out.append(('mass-columns-without-volume', dict(columns=list(o['rows'][keys[0]]))))
    return out


def _finish(ctx, out):
    leak = ctx['hyg'].check_restore()
    out['monitors']['table_hygiene_checks'] = out['monitors'].get('table_hygiene_checks', 0) + 1
    out['monitors']['table_leaks_restored'] = out['monitors'].get('table_leaks_restored', 0) + (1 if leak else 0)
    return out


def known_mass_fraction_rejection(case, exc):
    """recorded defect: in Norm.MASS_FRACTION the 'mass of one formula unit' is a bare sum of fractions, so deriving the
    other density fails in the unit conversion - exactly Exception('Unsupported conversion between units:', from, to)."""
    if type(exc) is not Exception or len(exc.args) != 3:
        return False
    if not str(exc.args[0]).startswith('Unsupported conversion between units'):
        return False
    want = ('g*cm-3', 'cm-3') if case['dens'][0] == 'mass' else ('cm-3', 'g*cm-3')
    return (exc.args[1], exc.args[2]) == want


def run_case(case, ctx):
    from vt.props import mat_modes
    return mat_modes.drain(_run_case(case, ctx))


def _run_case(case, ctx):
    M, T = ctx['M'], ctx['T']
    natural = case['natural']
    mon = dict(identity_checks=0, component_rows_checked=0, unit_twins_compared=0)
    devs = []
    kindcls = case['kind'] if case['kind'] != 'material' else 'material-%s-fraction' % case['norm']
    classes = {kindcls, 'natural' if natural else 'most-abundant', '%s-density-given' % case['dens'][0],
               'with-volume' if case['vol'] is not None else 'without-volume'}
    if case['kind'] == 'element' and case['prop'] > 1:
        classes.add('element-proportion>1')
    if case['kind'] != 'element':
        classes.add(case.get('form', 'string') + '-form')
    # defined species only
    if case['kind'] == 'element':
        idents = {'e': R.species_ident(case['el'])}
        texts = [R.species_text(case['el'])]
    elif case['kind'] == 'substance':
        _, idents = R.expand(case['f'])
        texts = [R.render(case['f'])]
    else:
        idents = {}
        for f, _ in case['comps']:
            idents.update(R.expand(f)[1])
        texts = [R.render(f) for f, _ in case['comps']]
    if any(R.ident_data(T, i, natural) is None for i in idents.values()):
        return _finish(ctx, outcome(skip='species-without-defined-data'))
    base_units = ['g/cm3' if case['dens'][0] == 'mass' else 'cm-3', 'cm3']
    sample = dict(kind=kindcls, form=case.get('form'), natural=natural, components=given_amounts(case), density=case['dens'], volume_cm3=case['vol'],
                  unit_twins=case['units'])
    fp = '%s|%s|%s|%r|%r|%r|%r' % (kindcls, case.get('form'), natural, given_amounts(case), case['dens'], case['vol'], case['units'])
    mass_mode = case['kind'] == 'material' and case['norm'] == 'mass'
    obj = None
    try:
        obj = build(ctx, case, *base_units)
        o = observe(obj, case)
    except Exception as e:
        if obj is not None:
            devs.append(dev('matter-data-unreadable:' + type(e).__name__, dict(exc=repr(e)[:300], components=given_amounts(case))))
            sample['deviations'] = [d['mech'] for d in devs]
            return _finish(ctx, outcome(classes=sorted(classes), nontrivial=len(texts) >= 2, fp=fp, dev=devs, monitors=mon, sample=sample))
        # a formula the substance parser rejects is C10's business
        for t in texts:
            try:
                (M.Element if case['kind'] == 'element' else M.Substance)(t, natural=natural)
            except Exception:
                return _finish(ctx, outcome(skip='component formula rejected (C10 domain)'))
        if mass_mode and known_mass_fraction_rejection(case, e):
            devs.append(dev('matter-construction-raises', dict(exc=repr(e), components=given_amounts(case)), known=KEY_MF))
        else:
            devs.append(dev('matter-construction-raises:' + type(e).__name__, dict(exc=repr(e)[:300], components=given_amounts(case))))
        sample['deviations'] = [d['known'] or d['mech'] for d in devs]
        return _finish(ctx, outcome(classes=sorted(classes), nontrivial=len(texts) >= 2, fp=fp, dev=devs, monitors=mon, sample=sample))
    found = check_identities(case, o, T, devs, mon)
    mechs = [m for m, _ in found]
    if found and case['kind'] == 'element' and case['prop'] != 1:
        # buggy twin of the recorded defect: the formula unit is taken as ONE atom although the rows use `proportion` atoms.
        # The identities that fail under the statement's model but hold under the twin model are explained by the defect,
        # provided its signature (rho = n * m_atom) is among them; whatever fails under both models is reported as new.
        twin = {m for m, _ in check_identities(case, o, T, devs, dict(mon), twin='element-unit-mass')}
        explained = [m for m in mechs if m not in twin]
        if 'rho-differs-from-n-times-formula-unit-mass' in explained:
            devs.append(dev('element-proportion-not-in-formula-unit', dict(explained=explained, proportion=case['prop'],
                                                                              rho=o['rho'], n=o['n'], rows=o['rows']), known=KEY_EP))
            found = [(m, d) for m, d in found if m in twin]
    if 'given-number-density-not-preserved' in mechs and case.get('form') == 'dict' and len(o['rows']) >= 2:
        # buggy twin of the recorded defect: components of a dict are added one by one and the densities are re-derived after
        # each; after the first component rho = n_given * a_1 * m_1 is stored and from then on n is re-derived from that rho.
        first = list(given_amounts(case))[0]
        rho_twin = case['dens'][1] * given_amounts(case)[first] * o['masses'][first] * T.da_g
        if close(o['rho'], rho_twin, RTOL):
            detail = dict([d for m, d in found if m == 'given-number-density-not-preserved'][0])
            detail.update(rho_reported=o['rho'], rho_from_first_component_only=rho_twin)
            devs.append(dev('given-number-density-not-preserved', detail, known=KEY_ND))
            found = [(m, d) for m, d in found if m != 'given-number-density-not-preserved']
    for mech, detail in found:
        devs.append(dev(mech, detail))
    sample.update(observed=dict(rho_g_cm3=o['rho'], n_cm3=o['n'], mass_g=o['mass'], rows=o['rows'], sum_row=o['sum']))
    if not mass_mode and set(o['masses']) == set(given_amounts(case)):
        am = given_amounts(case)
        e = expected_matter([am[k] for k in am], [o['masses'][k] for k in am], case['dens'][0], case['dens'][1], case['vol'], T.da_g)
        sample['expected'] = dict(rho_g_cm3=e['rho'], n_cm3=e['n'], mass_g=e['mass'], n_i=dict(zip(am, e['n_i'])),
                                  rho_i=dict(zip(am, e['rho_i'])))
    fo = flat(o)
    # ---- the stored quantities converted in place (Quantity.to returns self; the idiom obj.number_density.to('m-3') to
    #      print a density in other units is ordinary use), then everything read again: nothing may change
    du0, vu0 = case['units'][0] if case['units'] else (base_units[0], 'cm3')
    n_unit = du0 if case['dens'][0] == 'number' else ['m-3', '1/l', 'mm-3', 'dm-3'][len(fp) % 4]
    rho_unit = du0 if case['dens'][0] == 'mass' else ['kg/m3', 'g/l', 'mg/cm3', 'kg/l'][len(fp) % 4]
    stages = [[('number_density', n_unit)], [('mass_density', rho_unit), ('volume', vu0), ('mass', 'kg')]]
    for stage in stages:
        done = []
        try:
            for attr, u in stage:
                q = getattr(obj, attr, None)
                if q is not None and hasattr(q, 'to'):
                    q.to(u)
                    done.append('%s.to(%s)' % (attr, u))
            o3 = observe(obj, case)
        except Exception as e:
            devs.append(dev('reread-after-in-place-conversion-raises:' + type(e).__name__, dict(converted=done, exc=repr(e)[:300])))
            break
        mon['inplace_conversion_rereads'] = mon.get('inplace_conversion_rereads', 0) + 1
        classes.add('reread-after-in-place-conversion')
        f3 = flat(o3)
        diff = [k for k in fo if k not in f3 or (fo[k] is None) != (f3[k] is None) or (fo[k] is not None and not close(fo[k], f3[k], RTOL))]
        diff += [k for k in f3 if k not in fo]
        if diff:
            d0 = diff[0]
            devs.append(dev('outputs-change-after-in-place-conversion-of(%s)' % '+'.join(a for a, _ in stage if getattr(obj, a, None) is not None),
                            dict(converted=done, differing=diff[:6], before=fo.get(d0), after=f3.get(d0))))
            break
    # ---- the composition changed after construction with add(): an existing component topped up, or a new one; the given
    #      density stays, everything derived from it follows the new formula unit
    if case['kind'] in ('substance', 'material') and not mass_mode and not devs:
        am0 = given_amounts(case)
        k0 = list(am0)[len(fp) % len(am0)]
        step = 1.0 if case['kind'] == 'substance' else 0.5
        newkey = 'Xe' if case['kind'] == 'substance' else 'Ar'
        what = 'existing' if (len(fp) % 3) else 'new'
        if what == 'new' and (newkey in am0 or R.ident_data(T, ('Xe', None, 0) if case['kind'] == 'substance' else ('Ar', None, 0), natural) is None):
            what = 'existing'
        try:
            obj2 = build(ctx, case, *base_units)
            am1 = dict(am0)
            if what == 'existing':
                am1[k0] = am0[k0] + step
            else:
                am1[newkey] = step
            case2 = dict(case, amount_override=am1)
            if len(fp) % 2:
                # the documented idiom: the object as a context manager, changed and READ inside the block
                classes.add('composition-changed-inside-a-with-block')
                with obj2 as inside:
                    inside.add(k0 if what == 'existing' else newkey, step)
                    o4 = observe(inside, case2)
            else:
                obj2.add(k0 if what == 'existing' else newkey, step)
                o4 = observe(obj2, case2)
            classes.add('composition-changed-by-add:' + what)
            mon['add_after_construction_checks'] = mon.get('add_after_construction_checks', 0) + 1
            for mech, detail in check_identities(case2, o4, T, devs, mon):
                devs.append(dev('after-add(%s-component):%s' % (what, mech), dict(detail, added=[k0 if what == 'existing' else newkey, step], components=am1)))
        except Exception as e:
            devs.append(dev('add-after-construction-raises:' + type(e).__name__, dict(exc=repr(e)[:300], components=am0, what=what)))
    # ---- the object as an operand of a sum that is topped up afterwards: whatever is done to the SUM, the operand (with its
    #      density and volume attached) reports what it reported before - its own identities are re-read from the operand
    if case['kind'] in ('substance', 'material') and not mass_mode and not devs:
        am0 = given_amounts(case)
        other = 'Kr' if case['kind'] == 'substance' else 'Kr'
        if other not in am0 and R.ident_data(T, ('Kr', None, 0), natural) is not None:
            try:
                M = ctx['M']
                for side in ('right', 'left'):
                    obj3 = build(ctx, case, *base_units)
                    if case['kind'] == 'substance':
                        lone = M.Substance('Kr2', natural=natural)
                    else:
                        lone = M.Material({'Kr': 1.0}, natural=natural, norm_type=M.Norm.NUMBER_FRACTION)
                    total = (lone + obj3) if side == 'right' else (obj3 + lone)
                    for k in list(am0)[:3]:
                        total.add(k, 2.0 if case['kind'] == 'substance' else 0.5)
                    total.add('Kr' if case['kind'] == 'substance' else 'Kr', 1.0)
                    o5 = observe(obj3, case)
                    classes.add('operand-of-a-sum-that-is-topped-up:' + side)
                    mon['operand_after_sum_add_checks'] = mon.get('operand_after_sum_add_checks', 0) + 1
                    f5 = flat(o5)
                    diff = [k for k in fo if k not in f5 or (fo[k] is None) != (f5[k] is None) or (fo[k] is not None and not close(fo[k], f5[k], RTOL))]
                    diff += [k for k in f5 if k not in fo]
                    if diff:
                        d0 = diff[0]
                        devs.append(dev('%s-operand-changes-after-add-on-the-sum' % side, dict(differing=diff[:6], before=fo.get(d0), after=f5.get(d0), components=am0)))
                        break
                    for mech, detail in check_identities(case, o5, T, devs, mon):
                        devs.append(dev('%s-operand-after-add-on-the-sum:%s' % (side, mech), dict(detail, components=am0)))
            except Exception as e:
                devs.append(dev('sum-with-operand-raises:' + type(e).__name__, dict(exc=repr(e)[:300], components=am0)))
    # ---- unit twins
    for du, vu in case['units']:
        classes.add('unit:' + du)
        if case['vol'] is not None:
            classes.add('unit:' + vu)
        try:
            o2 = observe(build(ctx, case, du, vu), case)
        except Exception as e:
            devs.append(dev('unit-twin-raises:' + type(e).__name__, dict(units=[du, vu], exc=repr(e)[:300])))
            continue
        mon['unit_twins_compared'] += 1
        f2 = flat(o2)
        diff = [k for k in fo if k not in f2 or (fo[k] is None) != (f2[k] is None) or (fo[k] is not None and not close(fo[k], f2[k], RTOL))]
        diff += [k for k in f2 if k not in fo]
        if diff:
            which = 'mass-density' if case['dens'][0] == 'mass' else 'number-density'
            d0 = diff[0]
            devs.append(dev('outputs-depend-on-input-units(%s%s)' % (which, '+volume' if case['vol'] is not None else ''),
                            dict(units=[du, vu], differing=diff[:6], base=fo.get(d0), twin=f2.get(d0))))
    nontrivial = len(given_amounts(case)) >= 2 or case['vol'] is not None or any(du != base_units[0] for du, _ in case['units'])
    if devs:
        sample['deviations'] = [d['known'] or d['mech'] for d in devs]
    return _finish(ctx, outcome(classes=sorted(classes), nontrivial=nontrivial, fp=fp, dev=devs, monitors=mon, sample=sample))


def pinned(ctx):
    sp, fm = R.sp, R.fm
    return [
        (KEY_MF, dict(kind='material', norm='mass', form='dict', natural=True, dens=['mass', 0.3], vol=None,
                      comps=[[fm([sp('H', n=2), sp('O')]), '0.2'], [fm([sp('Na'), sp('Cl')]), '0.3']],
                      units=[['kg/m3', 'l'], ['kg/l', 'm3']])),
        (KEY_ND, dict(kind='substance', form='dict', f=fm([sp('H', n=2), sp('O')]), natural=True, dens=['number', 1e22], vol=None,
                      units=[['m-3', 'l'], ['1/l', 'm3']])),
        (KEY_EP, dict(kind='element', el=sp('O'), prop=2, natural=True, dens=['mass', 0.997], vol=1000.0,
                      units=[['kg/m3', 'l'], ['kg/l', 'm3']])),
    ]
