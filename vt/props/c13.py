"""C13 — DIP node paths follow indentation and values are the literals written.

Reference-model oracle + metamorphic twin: a generated tree of groups / typed nodes / tables is rendered twice
(other indentation widths, other comments and blank lines, other literal styles); each rendering is parsed by the real
DIP parser and `env.data(Format.TUPLE)` (key order included) and `env.data(Format.TYPE)` are compared with the ordered
record list computed from the tree structure by vt.refmodel.dip_ref_c13 (which never sees the repository).
"""
import itertools
import numbers
from vt.core import outcome, dev
from vt.util import close
from vt.refmodel import dip_ref_c13 as M

ID = 'C13'
LEVEL = 'exploration'
RULE = ('random trees (<=40 node lines, depth<=6) of groups, typed scalar/array nodes with every type keyword, tables, '
        '$unit directives, dotted names, typed nodes as parents, re-opened groups and repeated nodes; each tree is '
        'rendered twice with independent random indentation width per parent (blanks, minority tabs / irregular '
        'sibling indents / indented root), blank and comment lines, trailing comments, literal styles (bare/single/'
        'double quoted/block strings; tight, quoted-loose and block arrays; all dimension notations); both renderings '
        'are parsed and compared field by field with the model record list and with each other. non-trivial = '
        '>=2 hierarchy levels and >=3 parameters; distinct by canonical JSON of the tree')
SHARDS = {'quick': 16, 'thorough': 16}
NCASES = {'quick': 1600, 'thorough': 50000}
MIN_NONTRIVIAL = {'quick': 600, 'thorough': 20000}
TIME_CAP = {'quick': 300, 'thorough': 3600}
REQUIRED_CLASSES = (
    ['text-read-from-file', 'str-with-unusual-character'] + ['type-' + M.type_kw(dt, sfx) for dt, sfx in M.TYPES] +
    ['edge:path-written-twice', 'edge:path-written-twice:none', 'edge:table-cells', 'edge:table-cell-special-characters', 'scalar-bool', 'scalar-int', 'scalar-float', 'scalar-str', 'value-none',
     'int-negative', 'int-plus-sign', 'float-form-int', 'float-form-dec', 'float-form-sci', 'float-negative',
     'str-bare', 'str-single-quoted', 'str-double-quoted', 'str-block', 'str-with-blank', 'str-with-hash',
     'str-escaped-quote',
     'array-inline-tight', 'array-quoted-loose', 'array-block', 'array-1d', 'array-2d', 'array-3d',
     'array-bool', 'array-int', 'array-float', 'array-str',
     'table', 'table-col-bool', 'table-col-int', 'table-col-float', 'table-col-str', 'table-col-unit',
     'table-array-cell', 'unit', 'unit-compound', 'unit-custom', 'unit-directive-inside-hierarchy',
     'group', 'dotted-name-at-root', 'dotted-name-below-parent', 'name-with-hyphen', 'typed-node-as-parent',
     'array-or-block-node-as-parent', 'repeated-node',
     'deindent-by-1', 'deindent-by-2', 'deindent-by-3', 'deindent-by->=2', 'depth-4', 'depth-5', 'depth-6',
     'indent-width-1', 'indent-width-2', 'indent-width-3', 'indent-width-4', 'indent-width-5', 'indent-width-8',
     'indent-with-tabs', 'irregular-sibling-indent', 'indented-root',
     'blank-line', 'comment-line', 'trailing-comment', 'comment-with-quote-char',
     'renderings-differ-in-indentation', 'renderings-differ-in-literal-style', 'documented-example'])
REQUIRED_MONITORS = ['tuple_records_compared', 'type_records_compared', 'key_order_compared',
                     'metamorphic_pairs_compared', 'parses_under_step_guard', 'table_hygiene_checks']
ASSUMPTIONS = [
    'expected records come from the generated tree only (vt.refmodel.dip_ref_c13); the repository parser is never '
    'used to compute them',
    'non-demands: no bare strings equal to none/true/false (also not quoted), no value starting with { or ( unless '
    'quoted, no float literals for int nodes, no out-of-range integers for the width/sign suffix, inline arrays only '
    'in tight notation, array strings with blank or # only in quoted/block arrays, no backslash other than \\\' \\" '
    'escapes, no $@ in strings, no triple quotes inside values or comments, a tab counts as one blank of indentation, '
    'table headers unindented and rows separated by single blanks, tables have no children',
    'float values compared with rtol 1e-12; python type: Integral for int nodes, Real non-Integral for float nodes',
    'step budget: max(5e6, 200 x largest PY_START+JUMP count of an accepted parse in this worker)']
EXHAUSTIVE_SUBSPACES = {'quick': [], 'thorough': []}

K_BOOLTAB = 'C13-bool-table-column-always-true'
K_GREEDY = 'C13-quoted-value-swallows-comment-with-same-quote'
K_SQARR = 'C13-single-quoted-strings-in-array-rejected'
K_EMPTY = 'C13-empty-string-definition-has-no-value'

_counter = itertools.count()


def setup():
    from scinumtools.dip import DIP, Format
    from vt.monitors.tables import Hygiene
    for name, tree, documented in doc_examples():      # the model must reproduce the documented examples
        got = [(e['path'], e['value'], e['unit']) for e in M.expected(tree)]
        if got != documented:
            raise AssertionError('reference model disagrees with documented example %s: %r' % (name, got))
    return dict(DIP=DIP, Format=Format, hyg=Hygiene(), guard=M.StepGuard(), shard=None)


# ---------------------------------------------------------------------------------------------- documented examples

def _S(v):
    return {'t': 'str', 'v': v}


def _I(v):
    return {'t': 'int', 'v': v, 'plus': False}


def _B(v):
    return {'t': 'bool', 'v': v}


def _F(txt):
    """float literal from its decimal text (mantissa digits and power of ten kept exactly)"""
    t = txt.lower()
    mant, _, e = t.partition('e')
    sign = -1 if mant.startswith('-') else 1
    mant = mant.lstrip('+-')
    ip, _, fp = mant.partition('.')
    return {'t': 'float', 'sign': sign, 'digits': (ip + fp) or '0', 'exp': int(e or 0) - len(fp), 'txt': txt,
            'form': 'sci' if e else ('dec' if '.' in mant else 'int')}


def _A(items):
    return {'t': 'arr', 'items': items}


def _leaf(name, dt, val, unit=None, ch=(), sfx=None):
    return {'k': 'leaf', 'name': name, 'dt': dt, 'sfx': sfx if sfx is not None else {'int': ['', ''], 'float': ['']}.get(dt, []),
            'val': val, 'unit': unit, 'ch': list(ch)}


def doc_examples():
    """(name, tree, documented result as [(path, value, unit)]) from docs/source/dip/syntax/nodes.rst, values.rst
    and tests/dip/test_finalizing.py::test_hierarchy"""
    grp = lambda name, ch: {'k': 'group', 'name': name, 'ch': list(ch)}
    ex = []
    ex.append(('nodes.rst hierarchy', {'items': [
        _leaf('grandfather', 'str', _S('John'), ch=[
            _leaf('father', 'str', _S('Peter'), ch=[_leaf('son', 'str', _S('Benjamin')), _leaf('daughter', 'str', _S('Lucia'))]),
            _leaf('aunt', 'str', _S('Cintia'))])]},
        [('grandfather', 'John', None), ('grandfather.father', 'Peter', None), ('grandfather.father.son', 'Benjamin', None),
         ('grandfather.father.daughter', 'Lucia', None), ('grandfather.aunt', 'Cintia', None)]))
    ex.append(('nodes.rst paths', {'items': [
        grp('family', [_leaf('father', 'str', _S('Peter'), ch=[_leaf('son', 'str', _S('Benjamin'))]),
                       _leaf('father.daughter', 'str', _S('Lucia'))]),
        _leaf('family.aunt.dog', 'str', _S('Lassie'))]},
        [('family.father', 'Peter', None), ('family.father.son', 'Benjamin', None),
         ('family.father.daughter', 'Lucia', None), ('family.aunt.dog', 'Lassie', None)]))
    ex.append(('test_finalizing hierarchy', {'items': [
        _leaf('general.colonel', 'int', _I(1), ch=[grp('captain', [_leaf('soldier', 'int', _I(2))])])]},
        [('general.colonel', 1, None), ('general.colonel.captain.soldier', 2, None)]))
    ex.append(('values.rst arrays', {'items': [
        _leaf('data1', 'bool', _A([_B(True), _B(False), _B(False), _B(True)])),
        _leaf('data2', 'int', _A([_I(i) for i in range(7)])),
        _leaf('data3', 'float', _A([_F('0'), _F('1.34'), _F('1.34e4')])),
        _leaf('matrix', 'int', _A([_A([_I(0), _I(1), _I(2)]), _A([_I(3), _I(4), _I(5)])])),
        _leaf('mass', 'float', _A([_A([_F('25'), _F('50')]), _A([_F('34.2'), _F('95.1')]), _A([_F('1e3'), _F('1e4')])]), 'kg')]},
        [('data1', [True, False, False, True], None), ('data2', [0, 1, 2, 3, 4, 5, 6], None),
         ('data3', [0.0, 1.34, 13400.0], None), ('matrix', [[0, 1, 2], [3, 4, 5]], None),
         ('mass', [[25.0, 50.0], [34.2, 95.1], [1000.0, 10000.0]], 'kg')]))
    col = lambda name, dt, vals, unit=None: {'name': name, 'dt': dt, 'sfx': {'int': ['', ''], 'float': ['']}[dt], 'unit': unit,
                                             'cell': None, 'vals': vals}
    ex.append(('values.rst table', {'items': [{'k': 'table', 'name': 'output', 'ch': [], 'cols': [
        col('snapshot', 'int', [_I(i) for i in range(5)]),
        col('time', 'float', [_F(x) for x in ('0.234', '1.355', '2.535', '3.255', '4.455')], 's'),
        col('intensity', 'float', [_F(x) for x in ('2.34', '9.4', '3.4', '2.3', '23.4')], 'W/m2')]}]},
        [('output.snapshot', [0, 1, 2, 3, 4], None), ('output.time', [0.234, 1.355, 2.535, 3.255, 4.455], 's'),
         ('output.intensity', [2.34, 9.4, 3.4, 2.3, 23.4], 'W/m2')]))
    ex.append(('datatypes.rst scalars', {'items': [
        _leaf('day', 'bool', _B(True)), _leaf('night', 'bool', _B(False)), _leaf('year', 'int', _I(2023)),
        _leaf('duration', 'float', _F('10')), _leaf('weight', 'float', _F('23.3')), _leaf('distance', 'float', _F('2.3e20')),
        _leaf('name', 'str', _S('John')), _leaf('city', 'str', _S('New York')), _leaf('country', 'str', _S('United Kingdoms')),
        _leaf('unsignedLongInteger', 'int', _I(29349850209348495020394849), sfx=['u', '64'])]},
        [('day', True, None), ('night', False, None), ('year', 2023, None), ('duration', 10.0, None), ('weight', 23.3, None),
         ('distance', 2.3e20, None), ('name', 'John', None), ('city', 'New York', None), ('country', 'United Kingdoms', None),
         ('unsignedLongInteger', 29349850209348495020394849, None)]))
    return ex


# ---------------------------------------------------------------------------------------------- generation

def cases(rng, tier, shard, nshards, ctx):
    ctx['shard'] = shard
    n = NCASES[tier] // nshards
    if shard == 0:
        for name, tree, documented in doc_examples():     # the real parser on the documented examples
            yield dict(tree=tree, r1=1, r2=2, trig={}, plain=True, doc=name)
            yield dict(tree=tree, r1=rng.randrange(1 << 30), r2=rng.randrange(1 << 30), trig={}, doc=name)
    from vt.props import dip_edge
    for i in range(n):
        yield gen_case(rng)
        if i % 8 == 0:
            yield dip_edge.gen_c13(rng)
        if i % 8 == 4:
            yield dip_edge.gen_c13_renone(rng)


def gen_case(rng):
    r = rng.random()
    trig, p_empty = {}, 0.0
    if r < 0.10:
        trig = {'greedy': 0.35}
    elif r < 0.16:
        trig = {'sqarr': 0.6}
    elif r < 0.24:
        p_empty = 0.3
    tree = M.gen_tree(rng, max_lines=40, max_depth=6, p_empty=p_empty, deep=rng.random() < 0.3)
    return dict(tree=tree, r1=rng.randrange(1 << 30), r2=rng.randrange(1 << 30), trig=trig)


# ---------------------------------------------------------------------------------------------- observation

def plain(v):
    if hasattr(v, 'tolist'):
        return v.tolist()
    return v


def observe(ctx, text, via='string'):
    """-> dict(st='ok'|'exc'|'budget', ...) with per-node observations in insertion order.
    via='file': the text is written to a scratch file and handed over with add_file (the ordinary way to use DIP)"""
    DIP, Format = ctx['DIP'], ctx['Format']
    dip = DIP(name='c13_%d' % next(_counter))
    if via == 'file':
        import tempfile, os
        fd, path = tempfile.mkstemp(prefix='vt_c13_', suffix='.dip')
        try:
            with os.fdopen(fd, 'w', newline='') as f:
                f.write(text)
            dip.add_file(path)
        finally:
            os.unlink(path)
    else:
        dip.add_string(text)
    st = ctx['guard'].run(dip.parse)
    if st[0] == 'budget':
        return dict(st='budget', steps=st[1], budget=ctx['guard'].budget, _keep=dip)
    if st[0] == 'exc':
        e = st[1]
        return dict(st='exc', etype=type(e).__name__, args=[repr(a)[:160] for a in e.args], _keep=dip)
    env = st[1]
    obs = dict(st='ok', _keep=(dip, env), data_exc=None)
    try:
        tup = env.data(Format.TUPLE)
        typ = env.data(Format.TYPE)
    except Exception as e:
        obs['data_exc'] = '%s: %s' % (type(e).__name__, e)
        tup = typ = None
    nodes = env.data(Format.NODE)
    recs = []
    for name, node in nodes.items():
        v = node.value if typ is None else typ[name]
        rec = dict(path=name, broken=v is None)
        if v is not None:
            rec.update(cls=type(v).__name__, precision=getattr(v, 'precision', None) if type(v).__name__ != 'BooleanType' else None,
                       unsigned=getattr(v, 'unsigned', None), value=plain(v.value), unit=v.unit)
            if rec['cls'] not in ('IntegerType', 'FloatType'):
                rec['precision'] = None
            if rec['cls'] != 'IntegerType':
                rec['unsigned'] = None
        if tup is not None:
            rec['tuple'] = plain(tup[name]) if not isinstance(tup[name], tuple) else (plain(tup[name][0]), tup[name][1])
        recs.append(rec)
    obs['recs'] = recs
    obs['tuple_keys'] = list(tup.keys()) if tup is not None else None
    obs['type_keys'] = list(typ.keys()) if typ is not None else None
    return obs


def shape_of(v):
    if not isinstance(v, list):
        return []
    if not v:
        return [0]
    return [len(v)] + shape_of(v[0])


def same_value(exp, got, dt):
    """(equal?, python-type-ok?)"""
    if isinstance(exp, list):
        if not isinstance(got, list) or len(exp) != len(got):
            return False, True
        ok, tok = True, True
        for a, b in zip(exp, got):
            o, t = same_value(a, b, dt)
            ok, tok = ok and o, tok and t
        return ok, tok
    if exp is None:
        return got is None, True
    if dt == 'bool':
        return isinstance(got, bool) and got == exp, True
    if dt == 'str':
        return isinstance(got, str) and got == exp, True
    if isinstance(got, bool) or not isinstance(got, numbers.Real):
        return False, True
    if dt == 'int':
        return got == exp, isinstance(got, numbers.Integral)
    return close(exp, got, 1e-12, 0.0), not isinstance(got, numbers.Integral)


def compare(exp, obs, triggers, mon):
    """-> (devs, fatal) ; fatal = the program did not deliver data at all"""
    devs = []
    if obs['st'] == 'budget':
        return [dev('no-result-within-step-budget', dict(steps=obs['steps'], budget=obs['budget']))], True
    if obs['st'] == 'exc':
        return [dev('parse-fails-on-valid-text', dict(exc=obs['etype'], args=obs['args']))], True
    recs = obs['recs']
    paths = [r['path'] for r in recs]
    epaths = [e['path'] for e in exp]
    mon['key_order_compared'] = mon.get('key_order_compared', 0) + 1
    if obs['data_exc'] is not None:
        broken = sorted(r['path'] for r in recs if r['broken'])
        empties = sorted(p for p, t in triggers.items() if t['kind'] == 'empty-str')
        if broken and broken == empties and obs['data_exc'].startswith('AttributeError'):
            devs.append(dev('data-raises-on-parsed-environment', dict(broken_nodes=broken, exc=obs['data_exc']), known=K_EMPTY))
        else:
            devs.append(dev('data-raises-on-parsed-environment', dict(broken_nodes=broken, exc=obs['data_exc'])))
    else:
        if obs['tuple_keys'] != paths or obs['type_keys'] != paths:
            devs.append(dev('tuple-and-type-format-keys-disagree', dict(tuple=obs['tuple_keys'], type=obs['type_keys'])))
    if paths != epaths:
        if sorted(paths) == sorted(epaths):
            devs.append(dev('order-of-parameters-differs', dict(expected=epaths, observed=paths)))
        elif len(set(paths)) != len(paths):
            devs.append(dev('duplicate-parameters', dict(expected=epaths, observed=paths)))
        else:
            devs.append(dev('parameter-paths-differ', dict(missing=[p for p in epaths if p not in paths],
                                                           unexpected=[p for p in paths if p not in epaths])))
        return devs, False
    for e, r in zip(exp, recs):
        if r['broken']:
            continue
        trig = triggers.get(e['path'], {})
        mon['type_records_compared'] = mon.get('type_records_compared', 0) + 1
        d = lambda mech, **kw: dev(mech, dict(path=e['path'], expected={k: e[k] for k in ('cls', 'precision', 'unsigned', 'shape', 'value', 'unit')},
                                              observed={k: r.get(k) for k in ('cls', 'precision', 'unsigned', 'value', 'unit')}, **kw))
        if r['cls'] != e['cls']:
            devs.append(d('dtype-class-differs'))
            continue
        if r['precision'] != e['precision']:
            devs.append(d('precision-differs'))
        if r['unsigned'] != e['unsigned']:
            devs.append(d('unsigned-flag-differs'))
        if r['unit'] != e['unit']:
            devs.append(d('unit-differs'))
        ok, tok = same_value(e['value'], r['value'], e['dt'])
        if not ok:
            if trig.get('kind') == 'bool-table-col' and r['value'] == trig['twin']:
                devs.append(d('value-differs', mechanism='every cell of a boolean table column is True'))
                devs[-1]['known'] = K_BOOLTAB
            elif trig.get('kind') == 'greedy' and trig['silent'] and r['value'] == trig['twin']:
                devs.append(d('value-differs', mechanism='value runs up to the last quote character of the line'))
                devs[-1]['known'] = K_GREEDY
            elif e['value'] is not None and shape_of(r['value']) != e['shape']:
                devs.append(d('shape-differs'))
            else:
                devs.append(d('value-differs-' + e['dt'] + ('-array' if e['shape'] else '-scalar')))
        elif not tok:
            devs.append(d('value-python-type-differs'))
        # TUPLE format
        if 'tuple' in r:
            mon['tuple_records_compared'] = mon.get('tuple_records_compared', 0) + 1
            want = (r['value'], r['unit']) if (r['cls'] in ('IntegerType', 'FloatType') and r['unit'] is not None) else r['value']
            if not same_obj(want, r['tuple']):
                devs.append(d('tuple-format-inconsistent-with-type-format', tuple=r['tuple']))
    return devs, False


def same_obj(a, b):
    if isinstance(a, (list, tuple)) and isinstance(b, (list, tuple)):
        return type(a) == type(b) and len(a) == len(b) and all(same_obj(x, y) for x, y in zip(a, b))
    if isinstance(a, float) and isinstance(b, float) and a != a and b != b:
        return True
    return type(a) == type(b) and a == b


def residual(exp, obs, devs):
    """observation with the known-attributed fields replaced by the model value (for the metamorphic comparison)"""
    known_paths = {d['detail']['path'] for d in devs if d.get('known') and isinstance(d.get('detail'), dict) and 'path' in d['detail']}
    out = []
    emap = {e['path']: e for e in exp}
    for r in obs['recs']:
        if r['broken']:
            out.append((r['path'], 'broken'))
        elif r['path'] in known_paths:
            e = emap[r['path']]
            out.append((r['path'], r['cls'], r['precision'], r['unsigned'], e['value'], r['unit']))
        else:
            out.append((r['path'], r['cls'], r['precision'], r['unsigned'], r['value'], r['unit']))
    return out


# ---------------------------------------------------------------------------------------------- oracle

def run_case(case, ctx):
    if case.get('edge'):
        from vt.props import dip_edge
        out = (dip_edge.run_c13_renone if case['edge'] == 'c13-renone' else dip_edge.run_c13)(case, ctx)
        if ctx.get('hyg') is not None and ctx['hyg'].check_restore():
            out['monitors']['table_leaks_restored'] = 1
        return out
    tree = case['tree']
    exp = M.expected(tree)
    trig = case.get('trig') or {}
    plain_r = bool(case.get('plain'))
    mon = {'table_hygiene_checks': 0, 'table_leaks_restored': 0, 'parses_under_step_guard': 0}
    devs, classes = [], set()
    results = []
    keep = []
    for nth, rs in enumerate((case['r1'], case['r2'])):
        rend = M.render(tree, rs, trig, plain=plain_r)
        classes.update(rend['classes'])
        via = 'file' if (nth == 1 and case['r2'] % 2 == 0 and '\r' not in rend['text']) else 'string'
        if via == 'file':
            classes.add('text-read-from-file')
            mon['parses_of_a_file'] = mon.get('parses_of_a_file', 0) + 1
        obs = observe(ctx, rend['text'], via)
        keep.append(obs.pop('_keep', None))
        mon['parses_under_step_guard'] += 1
        hygiene(ctx, mon)
        d, fatal = compare(exp, obs, rend['triggers'], mon)
        if fatal and obs['st'] == 'exc':
            d = classify_fatal(ctx, case, rs, exp, rend, obs, d, mon, keep)
        devs += d
        results.append((rend, obs, d, fatal))
    # metamorphic relation: two renderings of one tree give identical data
    (ra, oa, da, fa), (rb, ob, db, fb) = results
    if ra['text'] != rb['text']:
        la, lb = ra['text'].split('\n'), rb['text'].split('\n')
        if [len(l) - len(l.lstrip()) for l in la if l.strip()] != [len(l) - len(l.lstrip()) for l in lb if l.strip()]:
            classes.add('renderings-differ-in-indentation')
        if {c for c in ra['classes'] if c.startswith(('str-', 'array-'))} != {c for c in rb['classes'] if c.startswith(('str-', 'array-'))}:
            classes.add('renderings-differ-in-literal-style')
    if not fa and not fb and 'recs' in oa and 'recs' in ob:
        mon['metamorphic_pairs_compared'] = 1
        if not same_obj(residual(exp, oa, da), residual(exp, ob, db)) and not [x for x in da + db if not x.get('known')]:
            devs.append(dev('renderings-of-one-tree-disagree', dict(a=residual(exp, oa, da)[:8], b=residual(exp, ob, db)[:8])))
    elif fa or fb:
        mon['metamorphic_pairs_skipped_no_data'] = 1
    if case.get('doc'):
        classes.add('documented-example')
    nontrivial = M.max_depth(tree) >= 2 and len(exp) >= 3
    # one deviation per (mechanism, known) is enough for the report
    seen, uniq = set(), []
    for x in devs:
        k = (x['mech'], x.get('known'))
        if k not in seen:
            seen.add(k)
            uniq.append(x)
    rend, obs = results[0][0], results[0][1]
    sample = dict(text=rend['text'],
                  expected=[[e['path'], e['cls'], e['precision'], e['unsigned'], e['value'], e['unit']] for e in exp][:12],
                  observed=[[r['path'], r.get('tuple', r.get('value'))] for r in obs.get('recs', [])][:12] if obs['st'] == 'ok' else obs,
                  second_rendering=results[1][0]['text'])
    if uniq:
        for x in uniq:
            if isinstance(x.get('detail'), dict):
                x['detail'].setdefault('texts', [results[0][0]['text'], results[1][0]['text']])
    return outcome(classes=sorted(classes), nontrivial=nontrivial, fp=canon(tree), dev=uniq, monitors=mon, sample=sample)


def canon(tree):
    import json
    return json.dumps(tree, sort_keys=True)


def hygiene(ctx, mon):
    mon['table_hygiene_checks'] += 1
    if ctx['hyg'].check_restore() is not None:
        mon['table_leaks_restored'] += 1


def classify_fatal(ctx, case, rs, exp, rend, obs, d, mon, keep):
    """a parse failure is attributed to a known defect only by delta confirmation: the same rendering with nothing
    but the trigger neutralised (quote characters of the comment replaced / array strings double-quoted) must parse
    and agree with the model; and the failure must have the shape the mechanism produces"""
    fatal_trig = [(p, t) for p, t in rend['triggers'].items() if t['kind'] in ('greedy', 'sq-array')]
    if len(fatal_trig) != 1:
        return d
    path, t = fatal_trig[0]
    if t['kind'] == 'sq-array' and obs['etype'] != 'JSONDecodeError':
        return d
    neutral = M.render(case['tree'], rs, case.get('trig') or {}, neutral=True, plain=bool(case.get('plain')))
    if neutral['text'] == rend['text']:
        return d
    a, b = rend['text'].split('\n'), neutral['text'].split('\n')
    # the two texts may differ only in quote characters of the trigger (comment quote -> *, array string ' -> ")
    if len(a) != len(b) or any(len(x) != len(y) or any(cx != cy and cx not in '\'"' for cx, cy in zip(x, y))
                               for x, y in zip(a, b)):
        return d
    obs2 = observe(ctx, neutral['text'])
    keep.append(obs2.pop('_keep', None))
    mon['parses_under_step_guard'] += 1
    mon['neutralised_reruns'] = mon.get('neutralised_reruns', 0) + 1
    hygiene(ctx, mon)
    d2, fatal2 = compare(exp, obs2, neutral['triggers'], mon)
    if fatal2 or [x for x in d2 if not x.get('known')]:
        return d
    key = K_GREEDY if t['kind'] == 'greedy' else K_SQARR
    line = [x for x, y in zip(a, b) if x != y][0]
    return [dev('parse-fails-on-valid-text', dict(path=path, line=line, exc=obs['etype'], args=obs['args'],
                                                   confirmed='the same text parses and matches the model once the trigger is neutralised'),
                known=key)]


# ---------------------------------------------------------------------------------------------- pinned witnesses

def pinned(ctx):
    t_bool = {'items': [{'k': 'table', 'name': 't', 'ch': [], 'cols': [
        {'name': 'ok', 'dt': 'bool', 'sfx': [], 'unit': None, 'cell': None,
         'vals': [{'t': 'bool', 'v': True}, {'t': 'bool', 'v': False}]}]}]}
    t_greedy = {'items': [{'k': 'leaf', 'name': 'a', 'dt': 'str', 'sfx': [], 'unit': None, 'ch': [],
                           'val': {'t': 'str', 'v': 'x'}, 'force': {'style': 'dq', 'comment': ' # see "y"'}}]}
    t_sq = {'items': [{'k': 'leaf', 'name': 'a', 'dt': 'str', 'sfx': [], 'unit': None, 'ch': [],
                       'val': {'t': 'arr', 'items': [{'t': 'str', 'v': 'John'}, {'t': 'str', 'v': 'Peter'}]},
                       'force': {'arr': 'tight', 'arrq': 'sq'}}]}
    t_empty = {'items': [{'k': 'leaf', 'name': 'a', 'dt': 'str', 'sfx': [], 'unit': None, 'ch': [],
                          'val': {'t': 'str', 'v': ''}, 'force': {'style': 'sq'}}]}
    mk = lambda t: dict(tree=t, r1=1, r2=1, trig={}, plain=True)
    return [(K_BOOLTAB, mk(t_bool)), (K_GREEDY, mk(t_greedy)), (K_SQARR, mk(t_sq)), (K_EMPTY, mk(t_empty))]


def teardown(ctx):
    g = ctx['guard']
    return {'monitors': {}, 'step_guard': {'shard%s' % ctx.get('shard'): dict(max_steps_of_accepted_parse=g.max_accepted,
                                                                             budget=max(g.MIN_BUDGET, 200 * g.max_accepted))}}
