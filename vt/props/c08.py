"""C08 — Measurement uncertainties propagate consistently and stay non-negative.

icontract post-conditions on the real Magnitude._add/_sub/_mul/_truediv/__pow__/__neg__ and UnitType.convert
(vt.monitors.contracts.install_magnitude_contracts) are evaluated on every call the workload causes – direct
Magnitude arithmetic, Quantity arithmetic, unit conversions, and the repository's own tests – plus direct
Quantity-level checks of conversion scaling against the units_ref factors.
"""
import os, sys, json, subprocess, tempfile, math
from vt.core import outcome, dev
from vt.util import close
from vt.monitors import contracts as C
from vt.refmodel import units_ref as U

ID = 'C08'
LEVEL = 'exploration'
RULE = ('pairs of magnitudes with/without absolute uncertainty, of either sign, scalar or array, under + - * / (exact numbers on '
        'either side), ** with integer and negative exponents, negation; Quantity-level conversions of uncertain quantities between '
        'linear units and sums/differences of uncertain quantities given in different units; non-trivial = at least one uncertain '
        'operand; distinct by (op, signs, shapes, which side is uncertain, units)')
SHARDS = {'quick': 16, 'thorough': 16}
MIN_NONTRIVIAL = {'quick': 5000, 'thorough': 120000}
REQUIRED_CLASSES = ['both-operands-one-object', 'decimal-exact-plus-uncertain-float', 'relative-uncertainty-input', 'relative-uncertainty-on-negative-value', 'relative-uncertainty-ctor', 'relative-uncertainty-setter', 'relative-uncertainty-through-magnitude-object', 'cancelling-units-collapse', 'quantity-ops-same-dimension-other-unit', 'mag:add', 'mag:sub', 'mag:mul', 'mag:truediv', 'mag:pow', 'mag:neg', 'exact-partner-negative', 'exact-partner-left',
                    'conversion-by-rebase', 'per-element-uncertainty-with-exact-elements', 'per-element:quantity-level', 'both-uncertain-positive', 'both-exact', 'array', 'scalar', 'negative-exponent', 'quantity-conversion',
                    'quantity-mixed-unit-sum', 'quantity-ops', 'repo-tests-under-contracts', 'value-query-then-reuse', 'sum-evaluated-twice']
REQUIRED_MONITORS = ['decimal_sum_compares', 'contract:Magnitude._add', 'contract:Magnitude._sub', 'contract:Magnitude._mul', 'contract:Magnitude._truediv',
                     'contract:Magnitude.__pow__', 'contract:Magnitude.__neg__', 'contract:UnitType.convert',
                     'contract:UnitType.convert:linear-with-uncertainty', 'relative_input_compares', 'relative_input_result_nonneg_compares', 'conversion_scaling_compares', 'collapse_scaling_compares', 'quantity_result_relative_uncertainty_compares', 'mixed_sum_compares', 'value_query_uncertainty_compares',
                     'repo_tests_contract_evaluations']
ASSUMPTIONS = ['inputs carry non-negative uncertainties: absolute (abse) or relative in percent (rele), in the constructor or through the setter',
               'k / uncertain and the power formula are only held to non-negativity of the result',
               'relative slack 1e-12 on the first-order lower bounds, rtol 1e-9 elsewhere',
               'contracts are record-only']
KEY_NEGFACTOR = 'C08-negative-exact-factor-gives-negative-uncertainty'
KEY_NEGPOW = 'C08-negative-power-gives-negative-uncertainty'
KEY_CONV = 'C08-linear-conversion-does-not-scale-uncertainty'
KEY_RELNEG = 'C08-relative-uncertainty-of-negative-value-is-negative'

FAM = {'length': ['m', 'km', 'cm', 'in', 'mm', 'au'], 'time': ['s', 'ms', 'min', 'h'], 'energy': ['J', 'erg', 'eV', 'kJ', 'kg*m2/s2'],
       'speed': ['m/s', 'km/h', 'mph'], 'mass': ['g', 'kg', 'lb', 'u']}
UNIT_STRUCT = {'kg*m2/s2': ['/', ['*', ['a', 'k', 'g', 1, 1], ['a', '', 'm', 2, 1]], ['a', '', 's', 2, 1]],
               'm/s': ['/', ['a', '', 'm', 1, 1], ['a', '', 's', 1, 1]], 'km/h': ['/', ['a', 'k', 'm', 1, 1], ['a', '', 'h', 1, 1]]}


FAMILY_OF = {u: fam for fam, us in FAM.items() for u in us}


def safe(x):
    try:
        return repr(x)[:200]
    except Exception as e:
        return '<repr raised %s>' % type(e).__name__


def setup():
    import numpy as np
    C.install_magnitude_contracts()
    from scinumtools.units import Quantity, Magnitude
    from vt.monitors.tables import Hygiene
    T = U.Tables()
    F = {}
    for fam in FAM.values():
        for u in fam:
            if u in UNIT_STRUCT:
                F[u] = T.meaning(UNIT_STRUCT[u])[0]
            else:
                d = T.decompositions(u)
                assert len(d) == 1, u
                F[u] = T.atom(d[0][0], d[0][1])[0]
    return dict(Q=Quantity, M=Magnitude, np=np, F=F, hyg=Hygiene())


def gv(rng, arr, positive=False):
    def one():
        v = rng.choice([rng.uniform(0.5, 50), rng.uniform(0.5, 5), float(rng.randint(1, 9)), 10 ** rng.uniform(-3, 4)])
        return v if positive or rng.random() < 0.6 else -v
    return [one() for _ in range(3)] if arr else one()


def ge(rng, v):
    m = min(abs(x) for x in v) if isinstance(v, list) else abs(v)
    return round(m * rng.choice([0.001, 0.01, 0.05, 0.2]), 6) or 0.001


def gen_elemerr(rng):
    """array magnitudes whose uncertainty is given PER ELEMENT, some elements exactly known (0.0) and others not"""
    n = rng.choice([2, 3, 4])
    va = [rng.choice([rng.uniform(0.5, 50), float(rng.randint(1, 9))]) for _ in range(n)]
    vb = [rng.choice([rng.uniform(0.5, 5), float(rng.randint(1, 9))]) for _ in range(n)]
    ea = [round(v * rng.choice([0.01, 0.05, 0.2]), 6) for v in va]
    for i in rng.sample(range(n), rng.randint(1, n - 1)):
        ea[i] = 0.0                                             # at least one exact and one uncertain element
    eb = rng.choice([None, round(min(vb) * 0.05, 6), [round(v * 0.1, 6) for v in vb]])
    if isinstance(eb, list) and rng.random() < 0.5:
        eb[rng.randrange(n)] = 0.0
    k = [rng.choice([0.0, 2.0, -3.0, 0.5, 1.0]) for _ in range(n)]
    if rng.random() < 0.6 and 0.0 not in k:
        k[rng.randrange(n)] = 0.0
    fam = rng.choice(list(FAM))
    return dict(t='elemerr', va=va, vb=vb, ea=ea, eb=eb, k=k, level=rng.choice(['M', 'Q']), u=rng.choice(FAM[fam]), v=rng.choice(FAM[fam]),
                op=rng.choice(['add', 'sub', 'radd-number', 'neg', 'mul-exact-array', 'div-exact-array', 'mul-uncertain', 'div-uncertain', 'to', 'mul-exact-zero-then-add']))


def cases(rng, tier, shard, nshards, ctx):
    if shard == 0:
        yield dict(t='repo-tests', tests=['tests/units'] if tier == 'quick' else ['tests/units', 'tests/materials', 'tests/dip/test_expressions.py'])
    n = 14000 if tier == 'quick' else 420000
    for j in range(n // nshards):
        if j % 12 == 5:
            yield gen_elemerr(rng)
        r = rng.random()
        arr = rng.random() < 0.3
        if r < 0.55:
            op = rng.choice(['add', 'sub', 'mul', 'truediv', 'mul', 'truediv', 'pow', 'neg'])
            pos = rng.random() < 0.4
            va = gv(rng, arr, pos)
            ea = ge(rng, va) if rng.random() < 0.7 else None
            if op == 'pow':
                yield dict(t='mag', op=op, a=[va, ea], p=rng.choice([2, 3, -1, -2, 1, 0, -3]))
                continue
            if op == 'neg':
                yield dict(t='mag', op=op, a=[va, ea])
                continue
            form = rng.choice(['MM', 'MM', 'Mn', 'nM', 'self'])      # 'self': both operands are ONE object (a*a, a+a, a/a)
            vb = gv(rng, arr and rng.random() < 0.7, pos)
            eb = ge(rng, vb) if (form == 'MM' and rng.random() < 0.6) else None
            yield dict(t='mag', op=op, a=[va, ea], b=[vb, eb], form=form)
        elif r < 0.72:
            fam = rng.choice(list(FAM))
            u, v = rng.choice(FAM[fam]), rng.choice(FAM[fam])
            x = gv(rng, arr)
            yield dict(t='qconv', u=u, v=v, x=x, e=ge(rng, x), how=rng.choice(['to', 'to', 'value-then-abse', 'rebase']))
        elif r < 0.86:
            fam = rng.choice(list(FAM))
            ua, ub = rng.choice(FAM[fam]), rng.choice(FAM[fam])
            xa, xb = gv(rng, arr), gv(rng, arr and rng.random() < 0.5)
            yield dict(t='qsum', ua=ua, ub=ub, xa=xa, xb=xb, ea=ge(rng, xa), eb=ge(rng, xb) if rng.random() < 0.8 else None, sign=rng.choice([1, -1]))
        elif r < 0.93 and r >= 0.89:
            # uncertainty given RELATIVELY (percent), in the constructor or through the setter, for values of either sign
            fam = rng.choice(list(FAM))
            x = gv(rng, arr)
            yield dict(t='rel', level=rng.choice(['M', 'Q']), how=rng.choice(['ctor', 'setter']), x=x, p=rng.choice([1, 5, 10, 0.5, 20]), u=rng.choice(FAM[fam]),
                       v=rng.choice(FAM[fam]), op=rng.choice(['none', 'add', 'sub', 'mul', 'truediv', 'neg', 'pow', 'mulnum', 'to']),
                       y=gv(rng, False), ey=ge(rng, 1.0) if rng.random() < 0.6 else None, k=rng.choice([-3.0, 2.0, -0.5, 4]), through_magnitude=rng.random() < 0.4)
        elif r < 0.89 and r >= 0.875:
            # an exact Decimal operand and an uncertain float operand under + and -: the sum carries the uncertain operand's uncertainty
            fam = rng.choice(list(FAM))
            yield dict(t='decsum', level=rng.choice(['M', 'Q', 'Q']), ua=rng.choice(FAM[fam]), ub=rng.choice(FAM[fam]), dec=rng.choice(['1.5', '20', '-3.25', '0.001']),
                       yb=gv(rng, False), eyb=ge(rng, 1.0), sign=rng.choice([1, -1]), decimal_side=rng.choice(['left', 'right']))
        elif r < 0.875:
            fam = rng.choice(list(FAM))
            u, v = rng.sample(FAM[fam], 2)
            x = gv(rng, arr)
            yield dict(t='qcollapse', u=u, v=v, x=x, e=ge(rng, x), form=rng.choice(['div', 'neg', 'rev']))
        else:
            fam = rng.choice(list(FAM)); fam2 = fam if rng.random() < 0.5 else rng.choice(list(FAM))
            xa, xb = gv(rng, arr), gv(rng, False)
            yield dict(t='qops', ua=rng.choice(FAM[fam]), ub=rng.choice(FAM[fam2]), xa=xa, xb=xb, ea=ge(rng, xa), eb=ge(rng, xb) if rng.random() < 0.5 else None,
                       op=rng.choice(['mul', 'truediv', 'pow', 'neg', 'rmul', 'rtruediv', 'mulnum', 'divnum']), k=rng.choice([-3.0, 2.0, -0.5, 4]), selfop=(not arr and rng.random() < 0.2))


def classify(rec, case):
    c, m = rec['contract'], rec['method']
    if c == 'C08:negative-uncertainty' and m in ('Magnitude._mul', 'Magnitude._truediv'):
        # exactly one uncertain operand and a negative exact partner
        ea_none, eb_none = rec.get('ea') == 'None', rec.get('eb') == 'None'
        if ea_none != eb_none:
            partner = rec.get('b') if eb_none else rec.get('a')
            if '-' in str(partner) and not (m == 'Magnitude._truediv' and ea_none):
                return KEY_NEGFACTOR
    if c == 'C08:negative-uncertainty' and m == 'Magnitude.__pow__' and str(rec.get('power', '')).startswith('-'):
        return KEY_NEGPOW
    if c == 'C08:linear-conversion-does-not-scale-uncertainty' and rec.get('e') == rec.get('er'):
        return KEY_CONV
    return None


def run_case(case, ctx):
    if case['t'] == 'repo-tests':
        return run_repo_tests(case, ctx)
    out = _run(case, ctx)
    if ctx['hyg'].check_restore():
        out['monitors']['table_leaks_restored'] = 1
    return out


def _run(case, ctx):
    Q, M, np, F = ctx['Q'], ctx['M'], ctx['np'], ctx['F']
    t = case['t']
    devs, mon, classes = [], {}, []
    C.take_records()
    c0 = dict(C.COUNTS)
    res = None
    exc = None
    uncertain = False

    def mk(v, e):
        return M(list(v) if isinstance(v, list) else v, abse=e)

    def lst(x):
        if x is None:
            return None
        return [float(z) for z in (x.tolist() if hasattr(x, 'tolist') and getattr(x, 'ndim', 0) else [x])]

    try:
        if t == 'mag':
            op = case['op']
            classes.append('mag:' + op)
            (va, ea) = case['a']
            classes.append('array' if isinstance(va, list) else 'scalar')
            uncertain = ea is not None
            a = mk(va, ea)
            if op == 'pow':
                if case['p'] < 0:
                    classes.append('negative-exponent')
                res = a ** case['p']
            elif op == 'neg':
                res = -a
            else:
                (vb, eb) = case['b']
                uncertain = uncertain or eb is not None
                form = case['form']
                if ea is None and eb is None:
                    classes.append('both-exact')
                if ea is not None and eb is not None and all(x > 0 for x in (va if isinstance(va, list) else [va]) + (vb if isinstance(vb, list) else [vb])):
                    classes.append('both-uncertain-positive')
                import operator
                f = {'add': operator.add, 'sub': operator.sub, 'mul': operator.mul, 'truediv': operator.truediv}[op]
                if form == 'self':
                    classes.append('both-operands-one-object')
                    uncertain = ea is not None
                    if ea is not None and all(x > 0 for x in (va if isinstance(va, list) else [va])):
                        classes.append('both-uncertain-positive')
                    res = f(a, a)
                elif form == 'MM':
                    b = mk(vb, eb)
                    if eb is None and any(x < 0 for x in (vb if isinstance(vb, list) else [vb])) and ea is not None:
                        classes.append('exact-partner-negative')
                    res = f(a, b)
                else:
                    num = vb if not isinstance(vb, list) else vb[0]
                    if num < 0 and ea is not None:
                        classes.append('exact-partner-negative')
                    if form == 'Mn':
                        res = f(a, num)
                    else:
                        classes.append('exact-partner-left')
                        res = f(num, a)
        elif t == 'qconv':
            classes += ['quantity-conversion', 'array' if isinstance(case['x'], list) else 'scalar']
            uncertain = True
            u, v, x, e = case['u'], case['v'], case['x'], case['e']
            if case['how'] == 'rebase' and u != v and not any(c_ in u + v for c_ in '*/0123456789'):
                # rebase() is a unit conversion too: u*v (two units of one dimension) becomes u2, the number and its absolute
                # uncertainty are scaled by the same factor F[v]/F[u]
                classes.append('conversion-by-rebase')
                q = Q(list(x) if isinstance(x, list) else x, '%s*%s' % (u, v), abse=e)
                rel0 = lst(q.rele())
                q.rebase()
                f = F[v] / F[u]
                mon['conversion_scaling_compares'] = 1
                xs_ = x if isinstance(x, list) else [x]
                rv, ae = lst(q.magnitude.value), lst(q.abse())
                if q.units() not in ('%s2' % u,) or not all(close(o, x_ * f, 1e-9) for o, x_ in zip(rv, xs_)):
                    pass          # which unit survives and the value itself are C04/C06 business
                elif ae is None or not all(close(o, e * f, 1e-9) for o in ae) or not all(close(o, x_, 1e-9) for o, x_ in zip(lst(q.rele()), rel0)):
                    devs.append(dev('rebase-does-not-scale-uncertainty-with-value', dict(u=u, v=v, x=x, abse=e, observed=ae, expected=e * f)))
                res = q
                raise StopIteration
            q = Q(list(x) if isinstance(x, list) else x, u, abse=e)
            rel0 = lst(q.rele())
            if case['how'] == 'value-then-abse':
                # a value-in-other-unit query must leave the uncertainty of the quantity as it was
                classes.append('value-query-then-reuse')
                q.value(v)
                ae0 = lst(q.abse())
                mon['value_query_uncertainty_compares'] = 1
                if not all(close(o, e, 1e-12) for o in ae0) or not all(close(o, x_, 1e-12) for o, x_ in zip(lst(q.rele()), rel0)):
                    devs.append(dev('value-query-changes-uncertainty-of-the-quantity', dict(u=u, v=v, x=x, abse=e, after=ae0)))
            q.to(v)
            f = F[u] / F[v]
            mon['conversion_scaling_compares'] = 1
            ae = lst(q.abse())
            exp = [e * f] * len(ae)
            if not all(close(o, x_, 1e-9) for o, x_ in zip(ae, exp)):
                devs.append(dev('conversion-absolute-uncertainty-not-scaled', dict(u=u, v=v, x=x, abse=e, observed=ae, expected=exp),
                                known=KEY_CONV if all(close(o, e, 1e-12) for o in ae) and not close(f, 1, 1e-9) else None))
            rel1 = lst(q.rele())
            if not all(close(o, x_, 1e-9) for o, x_ in zip(rel1, rel0)):
                devs.append(dev('conversion-changes-relative-uncertainty', dict(u=u, v=v, x=x, abse=e, before=rel0, after=rel1),
                                known=KEY_CONV if all(close(o, e, 1e-12) for o in ae) and not close(f, 1, 1e-9) else None))
            res = q
        elif t == 'qsum':
            classes += ['quantity-mixed-unit-sum', 'array' if isinstance(case['xa'], list) else 'scalar']
            uncertain = True
            ua, ub = case['ua'], case['ub']
            a = Q(list(case['xa']) if isinstance(case['xa'], list) else case['xa'], ua, abse=case['ea'])
            kw = dict(abse=case['eb']) if case['eb'] is not None else {}
            b = Q(list(case['xb']) if isinstance(case['xb'], list) else case['xb'], ub, **kw)
            res = (a + b) if case['sign'] > 0 else (a - b)
            mon['mixed_sum_compares'] = 1
            exp = case['ea'] + (case['eb'] or 0.0) * F[ub] / F[ua]
            ae = lst(res.abse())
            # the same expression evaluated a second time on the same operands must carry the same uncertainty
            classes.append('sum-evaluated-twice')
            res2 = (a + b) if case['sign'] > 0 else (a - b)
            ae2 = lst(res2.abse())
            if ae is not None and (ae2 is None or not all(close(o, p_, 1e-12) for o, p_ in zip(ae, ae2))):
                devs.append(dev('same-sum-evaluated-twice-gives-different-uncertainty', dict(ua=ua, ub=ub, first=ae, second=ae2)))
            if ae is None or not all(close(o, exp, 1e-9) for o in ae):
                unscaled = case['ea'] + (case['eb'] or 0.0)
                devs.append(dev('mixed-unit-sum-uncertainty', dict(ua=ua, ub=ub, ea=case['ea'], eb=case['eb'], observed=ae, expected=exp),
                                known=KEY_CONV if ae is not None and all(close(o, unscaled, 1e-9) for o in ae) else None))
        elif t == 'qops':
            classes += ['quantity-ops', 'array' if isinstance(case['xa'], list) else 'scalar']
            uncertain = True
            a = Q(list(case['xa']) if isinstance(case['xa'], list) else case['xa'], case['ua'], abse=case['ea'])
            kw = dict(abse=case['eb']) if case['eb'] is not None else {}
            b = Q(case['xb'], case['ub'], **kw)
            op, k = case['op'], case['k']
            if k < 0 and op in ('rmul', 'mulnum', 'divnum'):
                classes.append('exact-partner-negative')
            if case.get('selfop') and op in ('mul', 'truediv'):
                classes.append('both-operands-one-object')
                b = a
                case = dict(case, ub=case['ua'], xb=case['xa'] if not isinstance(case['xa'], list) else case['xa'][0], eb=case['ea'])
            res = {'mul': lambda: a * b, 'truediv': lambda: a / b, 'pow': lambda: a ** int(k), 'neg': lambda: -a, 'rmul': lambda: k * a,
                   'rtruediv': lambda: k / a, 'mulnum': lambda: a * k, 'divnum': lambda: a / k}[op]()
            if op == 'pow' and k < 0:
                classes.append('negative-exponent')
            e = res.abse()
            if e is not None and not bool(np.all(np.asarray(e, dtype=float) >= 0)) and np.all(np.isfinite(np.asarray(e, dtype=float))):
                pass   # reported through the Magnitude contract below
            # Quantity-level oracle on the finished result (after units that cancel have been folded into the number): relative
            # uncertainties do not depend on the linear units of the operands, so they are compared directly
            xa_l = case['xa'] if isinstance(case['xa'], list) else [case['xa']]
            if op in ('mul', 'truediv', 'rmul', 'mulnum', 'divnum') and all(x != 0 for x in xa_l) and case['xb'] != 0:
                rv, re_ = lst(res.value()), lst(res.abse())
                if re_ is not None and len(re_) == 1 and len(rv) > 1:
                    re_ = re_ * len(rv)
                rel_a = [case['ea'] / abs(x) for x in xa_l]
                rel_b = (case['eb'] / abs(case['xb'])) if (case['eb'] is not None and op in ('mul', 'truediv')) else 0.0
                if re_ is not None and len(re_) == len(rv) == len(rel_a) and all(v != 0 and math.isfinite(v) for v in rv):
                    mon['quantity_result_relative_uncertainty_compares'] = 1
                    if FAMILY_OF.get(case['ua']) == FAMILY_OF.get(case['ub']) and op in ('mul', 'truediv') and case['ua'] != case['ub']:
                        classes.append('quantity-ops-same-dimension-other-unit')
                    rel_r = [e_ / abs(v) for e_, v in zip(re_, rv)]
                    if rel_b == 0.0:
                        if not all(close(r, ra, 1e-9) for r, ra in zip(rel_r, rel_a)):
                            devs.append(dev('quantity-%s-by-exact-partner-changes-relative-uncertainty' % op,
                                            dict(case=case, result_relative=rel_r, operand_relative=rel_a, result=safe(res))))
                    elif all(x > 0 for x in xa_l) and case['xb'] > 0:
                        if not all(r >= (ra + rel_b) * (1 - 1e-9) for r, ra in zip(rel_r, rel_a)):
                            devs.append(dev('quantity-%s-below-first-order-uncertainty' % op,
                                            dict(case=case, result_relative=rel_r, first_order=[ra + rel_b for ra in rel_a], result=safe(res))))
        elif t == 'rel':
            classes += ['relative-uncertainty-input', 'relative-uncertainty-' + case['how'], 'array' if isinstance(case['x'], list) else 'scalar']
            uncertain = True
            x, pct = case['x'], case['p']
            xs = x if isinstance(x, list) else [x]
            if any(z < 0 for z in xs):
                classes.append('relative-uncertainty-on-negative-value')
            xv = list(x) if isinstance(x, list) else x
            if case['level'] == 'M':
                a = M(xv, rele=pct) if case['how'] == 'ctor' else M(xv).rele(pct)
                b = M(case['y'], abse=case['ey']) if case['ey'] is not None else M(case['y'])
            else:
                if case['how'] == 'ctor' and case.get('through_magnitude'):
                    # the third way in: a Magnitude object handed to the Quantity constructor together with rele=
                    classes.append('relative-uncertainty-through-magnitude-object')
                    a = Q(M(xv), case['u'], rele=pct)
                else:
                    a = Q(xv, case['u'], rele=pct) if case['how'] == 'ctor' else Q(xv, case['u']).rele(pct)
                b = Q(case['y'], case['u'], abse=case['ey']) if case['ey'] is not None else Q(case['y'], case['u'])
            mon['relative_input_compares'] = 1
            ae = lst(a.abse())
            exp = [abs(z) * pct / 100.0 for z in xs]
            negkey = KEY_RELNEG if any(z < 0 for z in xs) else None
            if ae is None or len(ae) != len(exp) or not all(close(o, e_, 1e-9) for o, e_ in zip(ae, exp)):
                twin = [z * pct / 100.0 for z in xs]
                devs.append(dev('relative-uncertainty-gives-wrong-absolute-uncertainty', dict(x=x, percent=pct, how=case['how'], observed=ae, expected=exp),
                                known=negkey if ae is not None and len(ae) == len(twin) and all(close(o, e_, 1e-9) for o, e_ in zip(ae, twin)) else None))
            rl = lst(a.rele())
            if rl is None or not all(close(o, pct, 1e-9) for o in rl):
                devs.append(dev('relative-uncertainty-not-read-back', dict(x=x, percent=pct, how=case['how'], observed=rl),
                                known=negkey if rl is not None and all(close(abs(o), pct, 1e-9) for o in rl) else None))
            op, k = case['op'], case['k']
            if op == 'to' and case['level'] == 'M':
                op = 'neg'
            res = {'none': lambda: a, 'add': lambda: a + b, 'sub': lambda: a - b, 'mul': lambda: a * b, 'truediv': lambda: a / b, 'neg': lambda: -a,
                   'pow': lambda: a ** 2, 'mulnum': lambda: a * k, 'to': lambda: a.to(case['v'])}[op]()
            classes.append('relative-uncertainty-then-' + ('op' if op != 'none' else 'read'))
            re_ = lst(res.abse())
            mon['relative_input_result_nonneg_compares'] = 1
            if re_ is not None and any(o < 0 for o in re_):
                # the operands' own (negative) uncertainty explains a negative result only through the recorded mechanism
                devs.append(dev('negative-uncertainty-in-result-of-%s' % op, dict(x=x, percent=pct, op=op, result_abse=re_),
                                known=negkey if (ae is not None and any(o < 0 for o in ae)) else None))
        elif t == 'decsum':
            from decimal import Decimal
            classes += ['decimal-exact-plus-uncertain-float', 'decimal-on-the-' + case['decimal_side'], 'scalar']
            uncertain = True
            D = Decimal(case['dec'])
            if case['level'] == 'M':
                d_, u_ = M(D), M(case['yb'], abse=case['eyb'])
                exp_e = case['eyb']
            else:
                d_, u_ = Q(D, case['ua']), Q(case['yb'], case['ub'], abse=case['eyb'])
                # the result is in the LEFT operand's unit
                exp_e = case['eyb'] * (F[case['ub']] / F[case['ua']] if case['decimal_side'] == 'left' else 1.0)
            Lq, Rq = (d_, u_) if case['decimal_side'] == 'left' else (u_, d_)
            res = (Lq + Rq) if case['sign'] > 0 else (Lq - Rq)
            mon['decimal_sum_compares'] = 1
            ae = res.abse() if hasattr(res, 'abse') else res.error
            if ae is None or not close(float(ae), exp_e, 1e-9):
                devs.append(dev('sum-with-exact-decimal-operand-loses-or-changes-the-uncertainty', dict(case=case, observed=None if ae is None else float(ae), expected=exp_e)))
        elif t == 'elemerr':
            op, va, vb, ea, eb, k, n = case['op'], case['va'], case['vb'], case['ea'], case['eb'], case['k'], len(case['va'])
            classes += ['per-element-uncertainty-with-exact-elements', 'per-element:' + op, 'array']
            uncertain = True
            mon['per_element_uncertainty_compares'] = 1
            ebl = [0.0] * n if eb is None else ([eb] * n if not isinstance(eb, list) else eb)
            if case['level'] == 'M' or op == 'to':
                mkq = (lambda v, e: M(np.array(v, dtype=float), abse=None if e is None else (np.array(e, dtype=float) if isinstance(e, list) else e))) if op != 'to' else None
            if case['level'] == 'Q' or op == 'to':
                u = case['u']
                mkq = lambda v, e: Q(np.array(v, dtype=float), u, abse=None if e is None else (np.array(e, dtype=float) if isinstance(e, list) else e))
                classes.append('per-element:quantity-level')
            a, b = mkq(va, ea), mkq(vb, eb)
            karr = np.array(k, dtype=float)
            exp, atleast = None, None
            if op == 'add':
                res = a + b; exp = [x + y for x, y in zip(ea, ebl)]
            elif op == 'sub':
                res = a - b; exp = [x + y for x, y in zip(ea, ebl)]
            elif op == 'radd-number':
                res = (5 + a) if case['level'] == 'M' else (a + mkq([1.0] * n, None)); exp = list(ea)
            elif op == 'neg':
                res = -a; exp = list(ea)
            elif op == 'mul-exact-array':
                res = a * karr if case['level'] == 'M' else a * karr; exp = [e * abs(z) for e, z in zip(ea, k)]
            elif op == 'div-exact-array':
                kk = np.array([z if z else 4.0 for z in k]); res = a / kk; exp = [e / abs(z) for e, z in zip(ea, kk)]
            elif op == 'mul-uncertain':
                res = a * b; atleast = [abs(x) * eb_ + abs(y) * ea_ for x, y, ea_, eb_ in zip(va, vb, ea, ebl)]
            elif op == 'div-uncertain':
                res = a / b; atleast = [(abs(x) * eb_ + abs(y) * ea_) / (y * y) for x, y, ea_, eb_ in zip(va, vb, ea, ebl)]
            elif op == 'to':
                a.to(case['v']); res = a; f = F[case['u']] / F[case['v']]; exp = [e * f for e in ea]
            elif op == 'mul-exact-zero-then-add':
                res = a * karr + a; exp = [e * abs(z) + e for e, z in zip(ea, k)]
            ae = res.abse() if hasattr(res, 'abse') else res.error
            obs = [0.0] * n if ae is None else [float(z) for z in (np.asarray(ae, dtype=float) * np.ones(n))]
            if any(z < 0 or z != z for z in obs):
                devs.append(dev('per-element:negative-or-undefined-uncertainty', dict(case=case, observed=obs)))
            elif exp is not None and not all(close(o, x_, 1e-9, 1e-300) for o, x_ in zip(obs, exp)):
                lost = ae is None and any(x_ > 0 for x_ in exp)
                devs.append(dev('per-element:%s' % ('uncertainty-of-the-uncertain-elements-lost' if lost else 'uncertainty-differs-from-the-rule(%s)' % op),
                                dict(case=case, observed=None if ae is None else obs, expected=exp)))
            elif atleast is not None and not all(o >= x_ * (1 - 1e-9) for o, x_ in zip(obs, atleast)):
                devs.append(dev('per-element:below-first-order(%s)' % op, dict(case=case, observed=None if ae is None else obs, at_least=atleast)))
        elif t == 'qcollapse':
            # a quantity written in units that cancel (km/m, kJ/J, h*s-1) is folded into a pure number: value and absolute
            # uncertainty are scaled by the same factor
            classes += ['cancelling-units-collapse', 'array' if isinstance(case['x'], list) else 'scalar']
            uncertain = True
            u, v, x, e = case['u'], case['v'], case['x'], case['e']
            expr = {'div': '%s/%s' % (u, v), 'neg': '%s*%s-1' % (u, v), 'rev': '%s-1*%s' % (v, u)}[case['form']]
            if '/' in u or '*' in u or '/' in v or '*' in v:
                expr = '(%s)/(%s)' % (u, v)
            res = Q(list(x) if isinstance(x, list) else x, expr, abse=e)
            f = F[u] / F[v]
            mon['collapse_scaling_compares'] = 1
            rv, re_ = lst(res.value()), lst(res.abse())
            xs = x if isinstance(x, list) else [x]
            if re_ is not None and len(re_) == 1 and len(rv) > 1:
                re_ = re_ * len(rv)
            if res.units() not in (None, '', '1'):
                pass          # not folded: nothing to compare here (C06 is about the folding itself)
            elif re_ is None or not all(close(o, x_ * f, 1e-9) for o, x_ in zip(rv, xs)) or not all(close(o, e * f, 1e-9) for o in re_):
                devs.append(dev('cancelling-units-collapse-does-not-scale-uncertainty-with-value',
                                dict(expr=expr, x=x, abse=e, observed_value=rv, observed_abse=re_, expected_value=[x_ * f for x_ in xs], expected_abse=e * f)))
    except StopIteration:
        pass
    except Exception as e_:
        exc = e_
    for r in C.take_records():
        devs.append(dev('%s@%s' % (r['contract'], r['method']), dict(case=case, record=r), known=classify(r, case)))
    for m in C.COUNTS:
        d = C.COUNTS[m] - c0.get(m, 0)
        if d:
            mon['contract:' + m] = d
    if exc is not None and t != 'mag':
        devs.append(dev('valid-operation-raised', dict(case=case, exc='%s: %s' % (type(exc).__name__, str(exc)[:120]))))
    elif exc is not None and not isinstance(exc, (ZeroDivisionError, OverflowError)):
        devs.append(dev('valid-operation-raised', dict(case=case, exc='%s: %s' % (type(exc).__name__, str(exc)[:120]))))
    # dedupe identical mechanisms within one case
    seen, dd = set(), []
    for d in devs:
        if (d['mech'], d['known']) not in seen:
            seen.add((d['mech'], d['known']))
            dd.append(d)
    err = None
    try:
        err = lst(res.error if hasattr(res, 'error') else res.abse()) if res is not None else None
    except Exception:
        pass
    fp = json.dumps({k: (v if k not in ('x', 'xa', 'xb', 'a', 'b', 'e', 'ea', 'eb') else sig(v)) for k, v in case.items()}, sort_keys=True)
    return outcome(classes=classes, nontrivial=uncertain, fp=fp, dev=dd, monitors=mon,
                   sample=dict(case=case, result_uncertainty=err))


def sig(v):
    """sign/shape signature of an operand for the distinctness fingerprint"""
    if isinstance(v, list):
        return [sig(x) for x in v]
    if v is None:
        return None
    return ('-' if v < 0 else '+') + str(int(math.log10(abs(v)))) if v else '0'


def run_repo_tests(case, ctx):
    repo = os.environ.get('VERIF_REPO', '/repo')
    d = tempfile.mkdtemp(prefix='vt_c08_')
    out = os.path.join(d, 'records.json')
    env = dict(os.environ, VERIF_CONTRACTS='magnitude', VERIF_CONTRACT_OUT=out)
    try:
        p = subprocess.run([sys.executable, '-m', 'pytest', '-q', '-p', 'no:cacheprovider', '-p', 'vt.monitors.pytest_plugin', '-x'] + case['tests'],
                           cwd=repo, env=env, capture_output=True, text=True, timeout=1500)
        if not os.path.exists(out):
            raise RuntimeError('repo tests under contracts produced no record file: ' + p.stdout[-500:] + p.stderr[-500:])
        data = json.load(open(out))
    finally:
        import shutil
        shutil.rmtree(d, ignore_errors=True)
    devs = []
    if data['exitstatus'] != 0:
        devs.append(dev('repo-tests-fail-under-record-only-contracts', dict(tail=p.stdout[-600:])))
    seen = set()
    for r in data['records']:
        key = (r['method'], r['contract'])
        if key in seen:
            continue
        seen.add(key)
        devs.append(dev('repo-tests:%s@%s' % (r['contract'], r['method']), dict(record=r), known=classify(r, None)))
    return outcome(classes=['repo-tests-under-contracts'], nontrivial=True, fp='repo-tests ' + ' '.join(case['tests']), dev=devs,
                   monitors={'repo_tests_contract_evaluations': sum(data['counts'].values())},
                   sample=dict(tests=case['tests'], contract_evaluations=data['counts'], records=len(data['records'])))


def pinned(ctx):
    return [(KEY_NEGFACTOR, dict(t='mag', op='mul', a=[2.0, 0.1], b=[-3.0, None], form='Mn')),
            (KEY_NEGFACTOR, dict(t='mag', op='truediv', a=[2.0, 0.1], b=[-4.0, None], form='MM')),
            (KEY_NEGPOW, dict(t='mag', op='pow', a=[2.0, 0.1], p=-1)),
            (KEY_CONV, dict(t='qconv', u='m', v='cm', x=1.0, e=0.1, how='to')),
            (KEY_CONV, dict(t='qsum', ua='m', ub='cm', xa=1.0, xb=50.0, ea=0.1, eb=5.0, sign=1)),
            (KEY_RELNEG, dict(t='rel', level='Q', how='ctor', x=-5.0, p=10, u='m', v='cm', op='add', y=1.0, ey=0.1, k=2.0)),
            (KEY_RELNEG, dict(t='rel', level='M', how='setter', x=[-5.0, 5.0], p=10, u='m', v='cm', op='mulnum', y=1.0, ey=None, k=2.0))]
