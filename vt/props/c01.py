"""C01 — Expression solver evaluates by the documented step table.

Reference-model oracle: the generator builds an AST of the stratified, type-stratified grammar
(vt.refmodel.solver_ref), the expected value is computed from the *structure* (every level a left
fold, documented step order), the real `ExpressionSolver(AtomBase).solve` only ever sees rendered
text.  Each well-formed case is solved twice (blank-free and with 0-3 blanks in every gap) –
metamorphic relation "blanks do not matter".  Ill-formed cases are single edits of the three classes
the statement names; an independent recursive-descent recogniser decides whether the edited text is
still well-formed (then its value is demanded) or must be rejected.  Every call runs under a
logical-step budget (sys.monitoring PY_START|JUMP on the solver's code objects).
"""
import warnings
from vt.core import outcome, dev
from vt.util import close
from vt.refmodel import solver_ref as R

ID = 'C01'
LEVEL = 'exploration'
RULE = ('ASTs of the stratified grammar or/and/not/cmp/add/mul/pow/unary/primary (type-stratified: arithmetic, signs '
        'and function arguments on numeric expressions only), depth <= 6 (thorough 9), <= 40 operators; half of the '
        'cases are free random, half embed a forced fragment cycling over every precedence level, comparison operator, '
        'function, unary-sign context x sign run and nesting >= 3; each well-formed AST is rendered blank-free and with '
        '0-3 blanks per gap; ill-formed = one edit (insert/delete one parenthesis, one function argument too many/too '
        'few, one operand of one binary operator deleted) judged by an independent recogniser.  Non-trivial: >= 2 '
        'operators from >= 2 different steps, or a unary sign next to another operator, or an ill-formed edit; '
        'distinct by blank-free text')
SHARDS = {'quick': 16, 'thorough': 16}
NCASES = {'quick': dict(wf=30000, ill=15000), 'thorough': dict(wf=1500000, ill=500000)}
MIN_NONTRIVIAL = {'quick': 10000, 'thorough': 400000}
TIME_CAP = {'quick': 300, 'thorough': 3600}
LEVEL_CLASSES = ['lvl-par', 'lvl-function', 'lvl-unary', 'lvl-pow', 'lvl-mul', 'lvl-add', 'lvl-cmp', 'lvl-not', 'lvl-and', 'lvl-or']
CHAIN_CLASSES = ['chain3-pow', 'chain3-mul', 'chain3-add', 'chain3-cmp', 'chain3-and', 'chain3-or']
CMP_CLASSES = ['cmp-' + o for o in R.CMPOPS]
FN_CLASSES = ['fn-' + f for f in R.F1 + R.F2]
UNA_CLASSES = ['una-%s-%s' % (s, b) for s in ('add', 'sub') for b in ('leading', 'before-add', 'before-sub', 'after-operator', 'binary')]
ILL_CLASSES = ['ill-paren-insert', 'ill-paren-delete', 'ill-arity-more', 'ill-arity-empty-argument', 'ill-arity-fewer', 'ill-operand-deleted', 'ill-operator-deleted',
               'ill-edit-still-wellformed', 'ill-must-be-rejected']
REQUIRED_CLASSES = (LEVEL_CLASSES + CHAIN_CLASSES + CMP_CLASSES + FN_CLASSES + UNA_CLASSES + ILL_CLASSES +
                    ['truth-values-as-numbers', 'unary-before-pow', 'nesting>=3', 'blank-variant', 'logical-result', 'numeric-result', 'docs-example'])
REQUIRED_MONITORS = ['used_solver_twin_compares', 'reference_compares', 'blank_pairs_compared', 'illformed_rejections_checked',
                     'recogniser_decisions', 'step_guarded_calls']
ASSUMPTIONS = ['reference evaluator vt.refmodel.solver_ref (left folds, documented step order, numpy functions) is the trusted base',
               'cases whose reference value is non-finite, complex or an arithmetic error are skipped and counted, not evaluated',
               'numbers are decimal literals without exponent; arithmetic on truth values, !!x, -!x, a==!b, "" and () are not demanded',
               'an ill-formed string may be rejected with any exception type',
               'numeric agreement rtol 1e-9 plus equal truthiness']
EXHAUSTIVE_SUBSPACES = {'quick': [], 'thorough': []}

KEY_D1 = 'C01-D1-missing-right-operand-short-circuit'
KEY_D2 = 'C01-D2-function-nested-in-itself'
KEY_D3 = 'C01-D3-char-after-comma-skipped'
KEY_D4 = 'C01-D4-binary-sign-merge-before-power'

FOCI = (['lvl:' + l for l in R.LEVELS] + ['cmp:' + o for o in R.CMPOPS] + ['fn:' + f for f in R.F1 + R.F2] +
        ['una:%s%s' % (c, s) for c in ('start', 'op', 'bin') for s in ('+', '-', '++', '+-', '-+', '--', '-+-', '+--')] +
        ['una:bin', 'not:', 'nest:', 'nest:'])


def setup():
    import numpy as np
    warnings.simplefilter('ignore')
    np.seterr(all='ignore')
    import scinumtools.solver as S
    from scinumtools.solver import solver, tokens, operators, expression, atom
    guard = R.StepGuard.get([solver, tokens, operators, expression, atom])
    ctx = dict(S=S, guard=guard)
    # which of the two scanner defects does this tree exhibit on their minimal witnesses?  The buggy twin of the
    # argument scanner is configured accordingly, so that a defect that has been fixed is never blamed again.
    unclosed = lambda ob: ob[0] == 'e' and ob[1] == 'Exception' and ob[2] == [repr('Unclosed parenthesis in')]
    ctx['has_d2'] = unclosed(solve_real(ctx, 'sin(sin(1))'))
    ctx['has_d3'] = unclosed(solve_real(ctx, 'pow(2,(1+1))'))
    ctx['used'] = S.ExpressionSolver(S.AtomBase).__enter__()
    return ctx


# ---------------------------------------------------------------- generation

def gen_ast(rng, tier, focus):
    dmax = 6 if tier == 'quick' else 9
    for _ in range(50):
        depth = rng.choice([1, 2, 2, 3, 3, 4, 5, dmax])
        g = R.Gen(rng, maxdepth=depth, size=rng.choice([.3, .3, .6, .6, 1.0]))
        if focus:
            frag = g.fragment(focus, min(depth, 2))
            ast = g.embed(frag, rng.choice([0, 0, 1, 1, 2, 3]))
        else:
            ast = g.or_(depth) if rng.random() < 0.5 else g.add(depth)
        if R.count_ops(ast)[0] <= 40:
            return ast
    return ['num', '1']


BINARY_TOKENS = {'+', '-', '*', '/', '**', '<', '>', '<=', '>=', '==', '!=', '&&', '||'}


def gen_edit(rng, ast):
    toks = R.tokens(ast)
    fnodes = R.nodes(ast, lambda e: e[0] == 'f')
    bnodes = R.nodes(ast, lambda e: e[0] == 'bin')
    parens = [i for i, t in enumerate(toks) if t.endswith('(') or t == ')']
    binops = [i for i, t in enumerate(toks) if t in BINARY_TOKENS and 0 < i < len(toks) - 1]
    kinds = ['paren-ins'] + (['paren-del'] if parens else []) + (['arity'] * 2 if fnodes else []) + (['operand-del'] * 3 if bnodes else []) + \
        (['operator-del'] * 2 if binops else [])
    k = rng.choice(kinds)
    if k == 'operator-del':
        # the operator between two operands is deleted: two operands stand next to each other ("(1) (2)", "sin(1) 2")
        return dict(k=k, i=rng.choice(binops))
    if k == 'paren-ins':
        return dict(k=k, g=rng.randint(0, len(toks)), c=rng.choice('()'))
    if k == 'paren-del':
        return dict(k=k, i=rng.choice(parens))
    if k == 'arity':
        path = rng.choice(fnodes)
        node = ast
        for p in path:
            node = node[p]
        delta = rng.choice([1, -1])
        if delta == 1:
            if rng.random() < 0.3:
                # one argument too many whose text is EMPTY: trailing, leading or doubled separator  sin(1,)  pow(,2,3)
                return dict(k=k, path=list(path), delta=1, pos=rng.randint(0, len(node[2])), extra=['hole'], empty=True)
            g = R.Gen(rng, maxdepth=1, size=0.3)
            return dict(k=k, path=list(path), delta=1, pos=rng.randint(0, len(node[2])), extra=g.add(1))
        return dict(k=k, path=list(path), delta=-1, pos=rng.randrange(len(node[2])))
    path = rng.choice(bnodes)
    node = ast
    for p in path:
        node = node[p]
    n = len(node[2])
    j = rng.choice([n - 1, n - 1, 0] + list(range(n)))
    return dict(k=k, path=list(path), j=j)


DOC_EXAMPLES = ['1 * ((2+3) / +3 - -10 ) + (-23 *++2) + 23**2',                     # docs/source/solver/index.rst
                'sin(23) < 1 && 3*2 == 6 || !(23 > 43) && cos(0) == 1',
                '((2+3) /(3) )', '3*1+6/4*sin(34)', 'sin(cos(23))', 'pow((23+3), (2*4))', 'logb(23+3, 10)',   # tests/solver
                '1 && 0 || 1 && !0 && 1 || 0', '1-1 && (1*32)/2 || sin(3)', '81 <= 45', '1 != 0', '!0']


def cases(rng, tier, shard, nshards, ctx):
    N = NCASES[tier]
    if shard == 0:
        for text in DOC_EXAMPLES:      # the reference model is cross-checked against the documented examples on every run
            yield dict(t='doc', text=text)
    nwf, nill = N['wf'] // nshards, N['ill'] // nshards
    i = shard * 7
    for n in range(nwf + nill):
        ill = (n % 3 == 2) if n < 3 * nill else False
        focus = None
        if n % 2 == 0:
            focus = FOCI[i % len(FOCI)]
            i += 1
        if n % 9 == 4:
            # truth values (negations, comparisons) used as NUMBERS: summed, subtracted, negated, as exponents
            a, b = rng.choice([0, 1, 2, 3, 0.5]), rng.choice([0, 1, 2, 5])
            T = lambda: rng.choice(['(!%s)' % a, '(!%s)' % b, '(%s < %s)' % (a, b), '(%s >= %s)' % (a, b), '(!(%s > %s))' % (a, b), '(%s == %s)' % (a, a)])
            form = rng.choice(['%s + %s', '%s - %s', '-%s + %s', '2 ** (%s + %s)', '%s + %s + %s', '(%s + %s) / 2', '%s * 3 + %s', '-%s', '%s + 1 - %s', 'sin(%s - %s)', '%s * %s + %s'])
            yield dict(t='truth', text=form % tuple(T() for _ in range(form.count('%s'))))
        if ill:
            ast = gen_ast(rng, 'quick', focus if rng.random() < 0.5 else None)
            yield dict(t='ill', ast=ast, edit=gen_edit(rng, ast), bseed=rng.choice([None, rng.randrange(1 << 30)]))
        else:
            yield dict(t='wf', ast=gen_ast(rng, tier, focus), bseed=rng.randrange(1 << 30))


# ---------------------------------------------------------------- observation

def solve_real(ctx, text):
    S = ctx['S']

    def call():
        with S.ExpressionSolver(S.AtomBase) as es:
            return es.solve(text)
    kind, r = ctx['guard'].run(call)
    # the same text on ONE long-lived solver object that has seen every earlier string of this worker, well-formed or
    # rejected: "for all expression strings" - whatever the object was asked before
    if ctx.get('used') is not None:
        k2, r2 = ctx['guard'].run(lambda: ctx['used'].solve(text))
        sig = lambda k, x: (k, type(x).__name__, repr(getattr(x, 'value', None)) if k == 'v' else repr(getattr(x, 'args', None))[:160])
        ctx['used_compares'] = ctx.get('used_compares', 0) + 1
        if kind != 'budget' and k2 != 'budget' and sig(kind, r) != sig(k2, r2):
            ctx.setdefault('used_differs', []).append(dict(text=text, fresh=sig(kind, r), used=sig(k2, r2), previous=ctx.get('used_prev')))
        ctx['used_prev'] = text
    if kind == 'v':
        if r is None or not hasattr(r, 'value'):
            return ('v', None, repr(r))
        v = r.value
        v = v.item() if hasattr(v, 'item') else v
        return ('v', v, repr(r))
    if kind == 'e':
        return ('e', type(r).__name__, [repr(a)[:120] for a in r.args[:1]])
    return ('budget', r, None)


def show(ob):
    if ob[0] == 'v':
        v = ob[1]
        ok = isinstance(v, (bool, int)) or (isinstance(v, float) and v == v and abs(v) != float('inf'))
        return dict(value=v if ok else repr(v))
    if ob[0] == 'e':
        return dict(raises=ob[1], args=ob[2])
    return dict(no_result_within_steps=ob[1])


def agrees(ob, ref):
    if ob[0] != 'v' or ob[1] is None or isinstance(ob[1], complex) or not isinstance(ob[1], (int, float, bool)):
        return False
    return close(ob[1], ref, 1e-9) and bool(ob[1]) == bool(ref)


def judge_wellformed(ast, text, ob, ref, ctx):
    """-> ('ok'|'known'|'skip'|'dev', key or mechanism)"""
    if agrees(ob, ref):
        return ('ok', None)
    if ob[0] == 'budget':
        return ('dev', 'no-result-within-step-budget')
    if ob[0] == 'e':
        if ob[1] == 'Exception' and ob[2] and ob[2][0] == repr('Unclosed parenthesis in'):
            # buggy twin of the argument scanner: which of the defects present in this tree reject this text?
            d2, d3 = ctx['has_d2'], ctx['has_d3']
            if d2 and R.scan_raises(text, True, False):
                return ('known', KEY_D2)
            if d3 and R.scan_raises(text, False, True):
                return ('known', KEY_D3)
            if d2 and d3 and R.scan_raises(text, True, True):
                return ('known', KEY_D2)
        if ob[1] in ('ZeroDivisionError', 'OverflowError', 'TypeError') and R.d4_shape(ast):
            # the sign-merged evaluation (defect D4) runs into a division by zero / overflow / complex number that
            # the documented order does not meet: the twin cannot predict an outcome, the case says nothing
            try:
                R.evaluate(ast, d4=True)
            except R.Undefined:
                return ('skip', 'd4-twin-undefined')
        return ('dev', 'well-formed-rejected')
    if R.d4_shape(ast):
        try:
            t4 = R.evaluate(ast, d4=True)
        except R.Undefined:
            return ('skip', 'd4-twin-undefined')
        if agrees(ob, t4):
            return ('known', KEY_D4)
    return ('dev', 'value-differs-from-documented-order')


def apply_edit(ast, edit):
    """-> (token list of the edited expression, AST with hole | None, class label)"""
    k = edit['k']
    toks = R.tokens(ast)
    if k == 'paren-ins':
        return toks[:edit['g']] + [edit['c']] + toks[edit['g']:], None, 'ill-paren-insert'
    if k == 'operator-del':
        return toks[:edit['i']] + toks[edit['i'] + 1:], None, 'ill-operator-deleted'
    if k == 'paren-del':
        t = toks[edit['i']]
        rep = [t[:-1]] if len(t) > 1 else []
        return toks[:edit['i']] + rep + toks[edit['i'] + 1:], None, 'ill-paren-delete'
    if k == 'arity':
        def fn(node):
            args = list(node[2])
            if edit['delta'] == 1:
                args.insert(edit['pos'], edit['extra'])
            else:
                del args[edit['pos']]
            return ['f', node[1], args]
        return R.tokens(R.replace(ast, tuple(edit['path']), fn)), None, ('ill-arity-empty-argument' if edit.get('empty') else 'ill-arity-more') if edit['delta'] == 1 else 'ill-arity-fewer'

    def fn(node):
        opnds = list(node[2])
        opnds[edit['j']] = ['hole']
        return ['bin', node[1], opnds, node[3]]
    holed = R.replace(ast, tuple(edit['path']), fn)
    return R.tokens(holed), holed, 'ill-operand-deleted'


# ---------------------------------------------------------------- oracle

def run_case(case, ctx):
    out = _run_case(case, ctx)
    n, diffs = ctx.pop('used_compares', 0), ctx.pop('used_differs', [])
    out['monitors']['used_solver_twin_compares'] = out['monitors'].get('used_solver_twin_compares', 0) + n
    for d in diffs[:2]:
        out['dev'].append(dev('long-lived-solver-evaluates-differently-from-a-fresh-one', d))
        out['skip'] = None
    return out


def _run_case(case, ctx):
    import random
    if case['t'] == 'ill':
        return run_ill(case, ctx)
    if case['t'] == 'doc':
        return run_wf(R.parse(case['text']), None, ctx, ['docs-example'], case['text'])
    if case['t'] == 'truth':
        ast = R.parse(case['text'])
        if ast is None:
            return outcome(skip='text outside the grammar of the model parser')
        return run_wf(ast, None, ctx, ['truth-values-as-numbers'], case['text'])
    return run_wf(case['ast'], case.get('bseed'), ctx, [], None)


def run_wf(ast, bseed, ctx, extra_classes, given_text):
    import random
    toks = R.tokens(ast)
    tight = R.render(toks)
    nops, steps, adj = R.count_ops(ast)
    nontrivial = (nops >= 2 and len(steps) >= 2) or adj or bool(extra_classes)
    try:
        ref = R.evaluate(ast)
    except R.Undefined as e:
        return outcome(skip='reference-undefined-' + str(e.args[0]))
    classes = set(R.classes_of(ast)) | set(extra_classes)
    classes.add('logical-result' if isinstance(ref, bool) else 'numeric-result')
    mon = dict(reference_compares=0, blank_pairs_compared=0, step_guarded_calls=0)
    devs, skips = [], []
    texts = [given_text] if given_text is not None else [tight]
    if given_text is None and bseed is not None and len(toks) > 1:
        blank = R.render(toks, R.blanks(random.Random(bseed), len(toks)))
        if blank != tight:
            texts.append(blank)
            classes.add('blank-variant')
    obs = []
    for text in texts:
        ob = solve_real(ctx, text)
        mon['step_guarded_calls'] += 1
        mon['reference_compares'] += 1
        obs.append((text, ob, judge_wellformed(ast, text, ob, ref, ctx)))
    if len(obs) == 2:
        mon['blank_pairs_compared'] += 1
    for n, (text, ob, (verdict, what)) in enumerate(obs):
        detail = dict(text=text, expected=ref, observed=show(ob))
        if verdict == 'known':
            devs.append(dev(what, detail, known=what))
        elif verdict == 'skip':
            skips.append(what)
        elif verdict == 'dev':
            if n == 1 and obs[0][2][0] == 'ok':      # blank-free rendering agreed with the reference, this one does not
                detail['blank_free_text'] = obs[0][0]
                detail['blank_free_observed'] = show(obs[0][1])
                what = 'blank-changes-outcome'
            elif n == 1 and obs[0][2] == (verdict, what) and obs[0][1][:2] == ob[:2]:
                continue                       # same deviation on both renderings: one report
            devs.append(dev(what, detail))
    if skips and not devs:
        return outcome(skip=skips[0])
    sample = dict(text=tight, expected=ref, observed=show(obs[0][1]))
    if len(obs) == 2:
        sample.update(blank_text=obs[1][0], observed_blank=show(obs[1][1]))
    return outcome(classes=sorted(classes), nontrivial=nontrivial, fp=tight if given_text is None else given_text.replace(' ', ''),
                   dev=devs, monitors=mon, sample=sample)


def run_ill(case, ctx):
    import random
    ast, edit = case['ast'], case['edit']
    toks, holed, label = apply_edit(ast, edit)
    gaps = R.blanks(random.Random(case['bseed']), len(toks)) if case.get('bseed') is not None else None
    text = R.render(toks, gaps)
    mon = dict(recogniser_decisions=1)
    parsed = R.parse(text)
    if parsed is not None:
        # the edit left a well-formed expression (e.g. 'a - b' -> '- b', '2 * 3 * 4' -> '2**4'): its value is demanded
        if not R.typed_ok(parsed):
            return outcome(skip='edited-text-outside-typed-grammar', monitors=mon)
        out = run_wf(parsed, None, ctx, [label, 'ill-edit-still-wellformed'], text)
        out['monitors'].update(mon)
        return out
    if R.parse(text, lenient=True) is not None:
        return outcome(skip='edited-text-in-undemanded-form', monitors=mon)
    ob = solve_real(ctx, text)
    mon.update(illformed_rejections_checked=1, step_guarded_calls=1)
    devs = []
    detail = dict(text=text, edit=label, expected='rejected with an error', observed=show(ob))
    if ob[0] == 'budget':
        devs.append(dev('no-result-within-step-budget', detail))
    elif ob[0] == 'v':
        known = None
        if holed is not None:
            twins, undefined = [], False
            for d4 in ([False, True] if R.d4_shape(holed) else [False]):   # the rest of the text may be subject to D4 too
                try:
                    twins.append(R.evaluate(holed, holes=True, d4=d4))
                except R.TwinFail:
                    pass
                except R.Undefined:
                    undefined = True
            detail['short_circuit_twin'] = twins
            if any(agrees(ob, t) for t in twins):
                known = KEY_D1
            elif undefined:
                # the twin meets a non-finite / complex / arithmetic-error intermediate, so it cannot predict
                # the value; when the hole is the right-most operand of a &&/|| chain (the only place where
                # a short-circuit can hide it) the case says nothing, otherwise it is a new violation
                node = holed
                for p in edit['path']:
                    node = node[p]
                if node[1] in ('and', 'or') and edit['j'] == len(node[2]) - 1:
                    return outcome(skip='d1-twin-undefined', monitors=mon)
        devs.append(dev(known or ('ill-formed-accepted:' + label[4:]), detail, known=known))
    return outcome(classes=[label, 'ill-must-be-rejected'], nontrivial=True, fp='ILL ' + text.replace(' ', ''), dev=devs,
                   monitors=mon, sample=dict(text=text, edit=label, expected='rejected with an error', observed=show(ob)))


def pinned(ctx):
    n = lambda s: ['num', s]
    return [
        (KEY_D1, dict(t='ill', ast=['bin', 'and', [n('0'), n('1')], ['&&']], edit=dict(k='operand-del', path=[], j=1), bseed=None)),
        (KEY_D2, dict(t='wf', ast=['f', 'sin', [['f', 'sin', [n('1')]]]], bseed=None)),
        (KEY_D3, dict(t='wf', ast=['f', 'pow', [n('2'), ['par', ['bin', 'add', [n('1'), n('1')], ['+']]]]], bseed=None)),
        (KEY_D4, dict(t='wf', ast=['bin', 'add', [n('3'), ['bin', 'pow', [['una', '-', n('2')], n('2')], ['**']]], ['-']], bseed=None)),
    ]


def teardown(ctx):
    g = ctx['guard']
    return dict(monitors={}, anchor_lines_hit=dict(g.lines), step_budget={'events': g.budget})
