"""C14 — The last assignment wins, in the units and type of the definition.

Reference-model oracle: generated programs of 1-3 nodes anywhere in a hierarchy, each a definition or declaration
followed by typed / untyped modifications (values including 0, 0.0, negatives, false, none, ''; units with the same or
another prefix, compound and custom `$unit` units, or omitted).  The model (vt.refmodel.dip_ref_c14) keeps, per node,
(dtype, U0) of the first occurrence and sets value := v*F(U)/F(U0) at every assignment using an exact hand-written
factor table; illegal programs (other dtype, unit of another dimension, assignment to a `!constant` node, declared and
never assigned) must make parse() raise.
"""
import itertools
import numbers
from vt.core import outcome, dev
from vt.util import close
from vt.refmodel import dip_ref_c13 as M
from vt.refmodel import dip_ref_c14 as C

ID = 'C14'
LEVEL = 'exploration'
RULE = ('random programs: 1-3 nodes (float/int incl. width+sign suffixes, bool, str; paths of 1-4 segments written '
        'dotted, nested or mixed, a typed node may be the parent of another) with a definition or declaration and 0-6 '
        'typed/untyped modifications each, interleaved; values incl. 0, 0.0, -0.0, negatives, false, none, \'\'; units '
        'omitted / same / other prefix / compound / custom $unit; flavours: legal chain, other dtype, other dimension, '
        '!constant then assignment, declared never assigned, !constant after a modification, unit for a unit-less node, '
        'array modification. expected final (dtype, precision, sign, unit, value) or must-fail computed by the model. '
        'non-trivial = at least one node with >=2 assignments; distinct by canonical JSON of the program')
SHARDS = {'quick': 16, 'thorough': 16}
NCASES = {'quick': 1600, 'thorough': 50000}
MIN_NONTRIVIAL = {'quick': 600, 'thorough': 20000}
TIME_CAP = {'quick': 300, 'thorough': 3600}
REQUIRED_CLASSES = ['edge:second-stage-assignment', 'edge:custom-unit-name-reused-across-parses', 'edge:custom-unit-name:redefined-in-another-dimension', 'edge:second-stage:int-fraction'] + ['edge:second-stage:' + w for w in ('mod-other-unit', 'typed-other-unit', 'mod-no-unit', 'other-dtype', 'other-dimension', 'constant')] + ['edge:unit-without-factor', 'edge:nl-temperature', 'edge:nl-level', 'edge:nl-array-1d', 'edge:nl-array-2d', 'edge:nl-scalar',
                    'edge:nl-array-converted-through-offset-or-logarithm', 'edge:zero-in-other-unit', 'edge:zero-same-dimension', 'edge:zero-offset-temperature', 'edge:zero-other-dimension', 'value-zero', 'value-negative', 'value-positive', 'value-false', 'value-true', 'value-none',
                    'value-empty-string', 'value-string', 'modification-typed', 'modification-untyped',
                    'unit-omitted', 'unit-same-as-definition', 'unit-different-prefix', 'unit-compound', 'unit-custom',
                    'unit-conversion-factor-not-1', 'unitless-node', 'declaration', 'definition',
                    'path-dotted', 'path-nested', 'path-mixed', 'hierarchy-continued-from-previous-statement',
                    'typed-node-as-parent', 'chain-of->=3-assignments', 'chain-of->=5-assignments',
                    'node-float', 'node-int', 'node-bool', 'node-str', 'node-with-width-or-sign-suffix',
                    'last-value-zero', 'last-value-none', 'last-value-empty-string', 'last-value-false',
                    'last-value-negative', 'int-node-unit-conversion',
                    'must-fail-other-dtype', 'must-fail-other-dimension', 'must-fail-constant',
                    'must-fail-declared-never-assigned', 'constant-after-definition', 'constant-after-modification',
                    'legal-program', 'array-modification']
REQUIRED_MONITORS = ['final_values_compared', 'must_fail_programs_checked', 'parses_under_step_guard',
                     'table_hygiene_checks', 'unit_conversions_in_model']
ASSUMPTIONS = [
    'expected results come from vt.refmodel.dip_ref_c14 only; unit factors are a hand-written exact table (mm cm m km, '
    'ms s min h, g kg, J erg, m/s km/h cm/s km/s, kg*m2/s2 g*cm2/s2, g/cm3 kg/m3) plus the $unit directives of the text',
    'non-demands: typed modifications repeat the type keyword of the definition exactly (width/sign suffix included); '
    'int nodes only receive integer literals whose conversion into the definition unit is integral, and the python type '
    'of their value after a conversion is not checked (counted in monitor int_node_value_not_integral_type); when the '
    'expected value is none the unit is not compared; re-declarations, units on bool/str and prefixes on custom units '
    'are not generated; float comparison rtol 1e-9',
    'must-fail means parse() raises any exception; an environment whose data() raises is NOT a failure of parse()',
    'step budget: max(5e6, 200 x largest PY_START+JUMP count of an accepted parse in this worker)']
EXHAUSTIVE_SUBSPACES = {'quick': [], 'thorough': []}

K_FALSY = 'C14-falsy-modification-value'
K_CONST = 'C14-constant-after-modification-marks-last-created-node'
K_UNITLESS = 'C14-unit-for-unitless-node-ignored'
K_ARRAY = 'C14-array-modification-fails'
K_CUSTOM = 'C14-custom-unit-drops-scale-of-defining-unit'

FLAVORS = [('ok', 46), ('custom-unit', 8), ('fail-dtype', 8), ('fail-dimension', 8), ('fail-constant', 8),
           ('fail-undeclared', 6), ('const-after-mod', 7), ('unit-on-unitless', 4), ('array-mod', 5)]

_counter = itertools.count()


def doc_examples():
    """documented modification examples (docs/source/dip/syntax/nodes.rst, units.rst; tests/dip/test_finalizing.py)
    as programs with the documented final (value, unit)"""
    from vt.props.c13 import _F
    nd = lambda p, dt, u0: {'path': [p], 'dt': dt, 'sfx': [''] if dt == 'float' else ['', ''], 'kw': dt, 'u0': u0, 'shape': None}
    i = lambda v: {'t': 'int', 'v': v, 'plus': False}
    prog = {'units': [], 'flavor': 'ok', 'nodes': [nd('size', 'float', 'cm'), nd('energy', 'float', 'J'), nd('weight', 'float', 'kg'),
                                                  nd('age', 'int', 's'), nd('mass', 'float', 'kg')],
            'stmts': [_st(0, 'def', 'float', 'float', _F('70'), 'cm'), _st(0, 'mod', 'float', 'float', _F('80'), 'cm', typed=True),
                      _st(0, 'mod', 'float', 'float', _F('90'), 'cm'), _st(0, 'mod', 'float', 'float', _F('100')),
                      _st(0, 'mod', 'float', 'float', _F('1'), 'm'),
                      _st(1, 'def', 'float', 'float', _F('1.23'), 'J'), _st(1, 'mod', 'float', 'float', _F('2.2'), 'erg'),
                      _st(1, 'mod', 'float', 'float', _F('2.2'), 'g*cm2/s2'),
                      _st(2, 'decl', 'float', 'float', None, 'kg'), _st(2, 'mod', 'float', 'float', _F('88')),
                      _st(3, 'def', 'int', 'int', i(30), 's'), _st(3, 'mod', 'int', 'int', i(35)),
                      _st(4, 'def', 'float', 'float', _F('80'), 'kg'), _st(4, 'mod', 'float', 'float', _F('90000'), 'g')]}
    documented = [('size', 100.0, 'cm'), ('energy', 2.2e-7, 'J'), ('weight', 88.0, 'kg'), ('age', 35, 's'), ('mass', 90.0, 'kg')]
    return [('modification examples', prog, documented)]


def setup():
    from scinumtools.dip import DIP, Format
    from vt.monitors.tables import Hygiene
    for name, prog, documented in doc_examples():
        res = C.interpret(prog)
        got = [(e['path'], e['value'], e['unit']) for e in res[1]] if res[0] == 'ok' else res
        if res[0] != 'ok' or len(got) != len(documented) or not all(a[0] == b[0] and close(a[1], b[1], 1e-12) and a[2] == b[2]
                                                                     for a, b in zip(got, documented)):
            raise AssertionError('reference model disagrees with documented example %s: %r' % (name, got))
    return dict(DIP=DIP, Format=Format, hyg=Hygiene(), guard=M.StepGuard(), shard=None)


def cases(rng, tier, shard, nshards, ctx):
    ctx['shard'] = shard
    names, weights = [f for f, _ in FLAVORS], [w for _, w in FLAVORS]
    if shard == 0:
        for name, prog, documented in doc_examples():
            yield dict(prog=prog, r=1, plain=True)
            yield dict(prog=prog, r=rng.randrange(1 << 30))
    from vt.props import dip_edge
    for i in range(NCASES[tier] // nshards):
        fl = rng.choices(names, weights)[0]
        yield dict(prog=C.gen_case_prog(rng, fl), r=rng.randrange(1 << 30))
        if i % 8 == 0:
            yield dip_edge.gen_c14(rng)
        if i % 6 == 1:
            yield dip_edge.gen_c14_nl(rng)
        if i % 6 == 3:
            yield dip_edge.gen_c14_staged(rng)
            if rng.random() < 0.5:
                yield dip_edge.gen_c14_unitname(rng)


# ---------------------------------------------------------------------------------------------- observation

def plain(v):
    return v.tolist() if hasattr(v, 'tolist') else v


def observe(ctx, text):
    DIP, Format = ctx['DIP'], ctx['Format']
    dip = DIP(name='c14_%d' % next(_counter))
    dip.add_string(text)
    st = ctx['guard'].run(dip.parse)
    if st[0] == 'budget':
        return dict(st='budget', steps=st[1], budget=ctx['guard'].budget, _keep=dip)
    if st[0] == 'exc':
        e = st[1]
        return dict(st='exc', etype=type(e).__name__, args=[a if isinstance(a, str) else repr(a) for a in e.args], _keep=dip)
    env = st[1]
    obs = dict(st='ok', _keep=(dip, env), data_exc=None)
    try:
        tup = env.data(Format.TUPLE)
        typ = env.data(Format.TYPE)
    except Exception as e:
        obs['data_exc'] = '%s: %s' % (type(e).__name__, e)
        tup = typ = None
    recs = []
    for name, node in env.data(Format.NODE).items():
        v = node.value
        rec = dict(path=name, broken=v is None)
        if v is not None:
            cls = type(v).__name__
            rec.update(cls=cls, value=plain(v.value), unit=v.unit,
                       precision=getattr(v, 'precision', None) if cls in ('IntegerType', 'FloatType') else None,
                       unsigned=getattr(v, 'unsigned', None) if cls == 'IntegerType' else None)
        if tup is not None:
            t = tup[name]
            rec['tuple'] = [plain(t[0]), t[1]] if isinstance(t, tuple) else plain(t)
        recs.append(rec)
    obs['recs'] = recs
    return obs


def same_value(exp, got, dt, mon):
    if isinstance(exp, list):
        return isinstance(got, list) and len(exp) == len(got) and all(same_value(a, b, dt, mon) for a, b in zip(exp, got))
    if exp is None:
        return got is None
    if dt == 'bool':
        return isinstance(got, bool) and got == exp
    if dt == 'str':
        return isinstance(got, str) and got == exp
    if isinstance(got, bool) or not isinstance(got, numbers.Real):
        return False
    if dt == 'int' and not isinstance(got, numbers.Integral):
        mon['int_node_value_not_integral_type'] = mon.get('int_node_value_not_integral_type', 0) + 1
    return close(exp, got, 1e-9, 0.0)


def field_devs(e, r, mon):
    """deviations of one delivered parameter from the model record (list of mechanism names)"""
    out = []
    if r['cls'] != e['cls']:
        return ['dtype-class-differs-from-definition']
    if r['precision'] != e['precision'] or r['unsigned'] != e['unsigned']:
        out.append('width-or-sign-differs-from-definition')
    if e['value'] is not None and r['unit'] != e['unit']:
        out.append('unit-differs-from-definition')
    if not same_value(e['value'], r['value'], e['dt'], mon):
        out.append('final-value-differs')
    if 'tuple' in r:
        want = [r['value'], r['unit']] if (r['cls'] in ('IntegerType', 'FloatType') and r['unit'] is not None) else r['value']
        if want != r['tuple'] and not (want != want):
            out.append('tuple-format-inconsistent-with-type-format')
    return out


def jrec(e):
    return {k: e[k] for k in ('path', 'cls', 'precision', 'unsigned', 'value', 'unit')}


def jobs(r):
    return {k: r.get(k) for k in ('path', 'cls', 'precision', 'unsigned', 'value', 'unit', 'broken')}


# ---------------------------------------------------------------------------------------------- oracle

def run_case(case, ctx):
    if case.get('edge'):
        from vt.props import dip_edge
        out = {'c14-nl': dip_edge.run_c14_nl, 'c14-staged': dip_edge.run_c14_staged, 'c14-unitname': dip_edge.run_c14_unitname}.get(case['edge'], dip_edge.run_c14)(case, ctx)
        if ctx.get('hyg') is not None and ctx['hyg'].check_restore():
            out['monitors']['table_leaks_restored'] = 1
        return out
    prog = case['prog']
    mon = {'table_hygiene_checks': 0, 'table_leaks_restored': 0, 'parses_under_step_guard': 0}
    rend = C.render(prog, case['r'], plain=bool(case.get('plain')))
    classes = set(rend['classes'])
    model = C.interpret(prog)
    tab = C.unit_table(prog)
    nassign = {}
    for st in prog['stmts']:
        nd = prog['nodes'][st['n']]
        if st['val'] is not None:
            nassign[st['n']] = nassign.get(st['n'], 0) + 1
            if st['unit'] and nd['u0'] and tab[st['unit']][1] == tab[nd['u0']][1]:
                mon['unit_conversions_in_model'] = mon.get('unit_conversions_in_model', 0) + 1
                if nd['dt'] == 'int' and st['unit'] != nd['u0']:
                    classes.add('int-node-unit-conversion')
    for n, nd in enumerate(prog['nodes']):
        classes.add('node-' + nd['dt'])
        if nd['kw'] not in ('int', 'float', 'bool', 'str'):
            classes.add('node-with-width-or-sign-suffix')
        if any(m is not nd and m['path'] == nd['path'][:len(m['path'])] and len(m['path']) < len(nd['path']) for m in prog['nodes']):
            classes.add('typed-node-as-parent')
        if nd['shape'] is not None and nassign.get(n, 0) >= 2:
            classes.add('array-modification')
    if max(nassign.values() or [0]) >= 3:
        classes.add('chain-of->=3-assignments')
    if max(nassign.values() or [0]) >= 5:
        classes.add('chain-of->=5-assignments')
    if model[0] == 'fail':
        classes.add('must-fail-' + model[1])
    else:
        classes.add('legal-program')
        for e in model[1]:
            last = e['hist'][-1] if e['hist'] else None
            if last is not None and len(e['hist']) >= 2:
                v = e['value']
                if v is None:
                    classes.add('last-value-none')
                elif v == '':
                    classes.add('last-value-empty-string')
                elif v is False:
                    classes.add('last-value-false')
                elif isinstance(v, (int, float)) and not isinstance(v, bool):
                    classes.add('last-value-zero' if v == 0 else ('last-value-negative' if v < 0 else 'last-value-positive'))

    obs = observe(ctx, rend['text'])
    keep = obs.pop('_keep', None)
    mon['parses_under_step_guard'] += 1
    mon['table_hygiene_checks'] += 1
    if ctx['hyg'].check_restore() is not None:
        mon['table_leaks_restored'] += 1

    devs = judge(prog, rend, model, obs, mon)
    for d in devs:
        if isinstance(d.get('detail'), dict):
            d['detail'].setdefault('text', rend['text'])
            d['detail'].setdefault('model', list(model[:3]) if model[0] == 'fail' else [jrec(e) for e in model[1]])
    nontrivial = max(nassign.values() or [0]) >= 2
    sample = dict(text=rend['text'],
                  expected=('parse() must fail: %s at statement %s' % (model[1], model[2])) if model[0] == 'fail' else [jrec(e) for e in model[1]],
                  observed=[jobs(r) for r in obs['recs']] if obs['st'] == 'ok' else {k: obs[k] for k in obs if k != 'recs'})
    import json
    return outcome(classes=sorted(classes), nontrivial=nontrivial, fp=json.dumps(prog, sort_keys=True), dev=devs,
                   monitors=mon, sample=sample)


def judge(prog, rend, model, obs, mon):
    flavor = prog.get('flavor')
    if obs['st'] == 'budget':
        return [dev('no-result-within-step-budget', dict(steps=obs['steps'], budget=obs['budget']))]
    twin_const = C.interpret(prog, const_bug=True) if any(s.get('const') and s['kind'] == 'mod' for s in prog['stmts']) else None

    # ------------------------------------------------ programs that must fail
    if model[0] == 'fail':
        mon['must_fail_programs_checked'] = 1
        if obs['st'] == 'exc':
            return []
        mech = {'other-dtype': 'other-dtype-accepted', 'other-dimension': 'unit-of-other-dimension-accepted',
                'constant': 'constant-node-modified', 'declared-never-assigned': 'declared-unassigned-node-accepted',
                'unit-on-unitless-node': 'unit-for-unitless-node-accepted'}.get(model[1], 'illegal-program-accepted')
        detail = dict(reason=list(model[1:]), observed=[jobs(r) for r in obs['recs']], data_exc=obs['data_exc'])
        # known twins: the accepted result must be exactly what the known mechanism computes
        # (if the program defines custom units, their known scale defect may be superimposed on the accepted result)
        for cb in ([False, True] if prog['units'] else [False]):
            if model[1] == 'constant' and twin_const:
                twin = C.interpret(prog, const_bug=True, custom_bug=cb)
                if twin[0] == 'ok' and matches(twin[1], obs, mon):
                    return [dev(mech, detail, known=K_CONST)]
            if model[1] == 'unit-on-unitless-node':
                twin = C.interpret(prog, unitless_bug=True, custom_bug=cb)
                if twin[0] == 'ok' and matches(twin[1], obs, mon):
                    return [dev(mech, detail, known=K_UNITLESS)]
        return [dev(mech, detail)]

    # ------------------------------------------------ legal programs
    exp = model[1]
    if obs['st'] == 'exc':
        detail = dict(exc=obs['etype'], args=[str(a)[:200] for a in obs['args']])
        a0 = obs['args'][0] if obs['args'] else ''
        # (b) declared node whose last assigned value is falsy -> "Node value must be defined"
        if obs['etype'] == 'Exception' and a0 == 'Node value must be defined:' and len(obs['args']) > 1:
            for e in exp:
                first = rend['first_line'].get(e['n'], '')
                decl = prog['stmts'][[s['n'] for s in prog['stmts']].index(e['n'])]['kind'] == 'decl'
                if decl and C.last_is_falsy(e) and str(obs['args'][1]).strip() == first.strip():
                    return [dev('legal-program-rejected', dict(detail, node=e['path']), known=K_FALSY)]
        # (c) '' assigned to a string node that holds no value object at that moment -> AttributeError inside parse()
        if obs['etype'] == 'AttributeError' and "'NoneType' object has no attribute" in str(a0):
            for e in exp:
                decl = prog['stmts'][[s['n'] for s in prog['stmts']].index(e['n'])]['kind'] == 'decl'
                if e['dt'] == 'str' and empty_string_hits_valueless_node(e, decl):
                    return [dev('legal-program-rejected', dict(detail, node=e['path']), known=K_FALSY)]
        # constant flag on the wrong node
        if twin_const and twin_const[0] == 'fail' and twin_const[1] == 'constant' and obs['etype'] == 'Exception':
            wrong = '.'.join(prog['nodes'][twin_const[3]]['path'])
            if a0 == "Node '%s' is constant and cannot be modified:" % wrong:
                return [dev('legal-program-rejected', dict(detail, node=wrong), known=K_CONST)]
        # array modification
        arr = [n for n, nd in enumerate(prog['nodes']) if nd['shape'] is not None and
               sum(1 for s in prog['stmts'] if s['n'] == n and s['val'] is not None) >= 2]
        if arr and ((obs['etype'] == 'ValueError' and 'truth value of an array' in str(a0)) or
                    (obs['etype'] == 'TypeError' and 'only length-1 arrays' in str(a0))):
            return [dev('legal-program-rejected', dict(detail, node='.'.join(prog['nodes'][arr[0]]['path'])), known=K_ARRAY)]
        return [dev('legal-program-rejected', detail)]

    recs = obs['recs']
    if [r['path'] for r in recs] != [e['path'] for e in exp]:
        return [dev('parameters-or-their-order-differ', dict(expected=[e['path'] for e in exp], observed=[r['path'] for r in recs]))]
    devs = []
    twin_custom = C.interpret(prog, custom_bug=True) if prog['units'] else None
    tc = {e['path']: e for e in twin_custom[1]} if twin_custom and twin_custom[0] == 'ok' else {}
    for e, r in zip(exp, recs):
        mon['final_values_compared'] = mon.get('final_values_compared', 0) + 1
        if r['broken']:
            # (a) node left without value: data() raises
            if C.last_is_falsy(e):
                devs.append(dev('node-has-no-value-data-raises', dict(node=e['path'], data_exc=obs['data_exc']), known=K_FALSY))
            else:
                devs.append(dev('node-has-no-value-data-raises', dict(node=e['path'], data_exc=obs['data_exc'])))
            continue
        fd = field_devs(e, r, mon)
        if not fd:
            continue
        if fd == ['final-value-differs'] and C.last_is_falsy(e) and \
                any(same_value(v, r['value'], e['dt'], {}) or int_truncation(v, r['value'], e['dt']) for v in earlier(e, tc)):
            devs.append(dev('final-value-differs', dict(node=e['path'], expected=jrec(e), observed=jobs(r),
                                                        mechanism='an earlier value survives a falsy last assignment'), known=K_FALSY))
            continue
        if fd == ['final-value-differs'] and e['path'] in tc and not field_devs(tc[e['path']], r, {}):
            devs.append(dev('final-value-differs', dict(node=e['path'], expected=jrec(e), observed=jobs(r),
                                                        mechanism='custom unit taken as <number> base units (m, s, g): scale of the defining unit dropped'),
                            known=K_CUSTOM))
            continue
        for m in fd:
            devs.append(dev(m, dict(node=e['path'], expected=jrec(e), observed=jobs(r))))
    if obs['data_exc'] is not None and not any(r['broken'] for r in recs):
        devs.append(dev('data-raises-on-parsed-environment', dict(data_exc=obs['data_exc'])))
    seen, uniq = set(), []
    for d in devs:
        k = (d['mech'], d.get('known'))
        if k not in seen:
            seen.add(k)
            uniq.append(d)
    return uniq


def earlier(e, tc):
    """earlier model values of the node (also under the custom-unit twin when the program has custom units)"""
    out = C.earlier_values(e)
    if e['path'] in tc:
        out = out + C.earlier_values(tc[e['path']])
    return out


def int_truncation(v, got, dt):
    """an int node re-cast from the float result of an inexact unit conversion: 170000 -> 169999.99999999997 -> 169999"""
    return dt == 'int' and isinstance(v, (int, float)) and not isinstance(v, bool) and isinstance(got, numbers.Integral) \
        and not isinstance(got, bool) and abs(got - v) <= 1


def empty_string_hits_valueless_node(e, declared):
    """twin of the truthiness tests for one string node: does an assignment of '' meet a node without value object?
    (a declaration, a definition with '', and - for declared nodes - an assignment of none leave the node valueless)"""
    has = False
    raw_def_truthy = (not declared) and bool(e['hist']) and e['hist'][0][1] != ''
    for k, (j, v, f) in enumerate(e['hist']):
        if v == '':
            if not has and (k > 0 or declared):
                return True
        elif v == C.NONE:
            has = raw_def_truthy      # re-cast from the raw text of the definition (none for a declaration, '' is falsy)
        else:
            has = True
    return False


def matches(recs_model, obs, mon):
    if obs['st'] != 'ok' or obs['data_exc'] is not None:
        return False
    recs = obs['recs']
    if [r['path'] for r in recs] != [e['path'] for e in recs_model]:
        return False
    return all((not r['broken']) and not field_devs(e, r, {}) for e, r in zip(recs_model, recs))


# ---------------------------------------------------------------------------------------------- pinned witnesses

def _st(n, kind, kw, dt, val, unit=None, typed=None, const=False):
    return {'n': n, 'kind': kind, 'typed': kind != 'mod' if typed is None else typed, 'kw': kw, 'kwdt': dt, 'val': val,
            'unit': unit, 'const': const}


def pinned(ctx):
    f1 = {'t': 'float', 'sign': 1, 'digits': '1', 'exp': 0, 'txt': '1', 'form': 'int'}
    f0 = {'t': 'float', 'sign': 1, 'digits': '0', 'exp': 0, 'txt': '0', 'form': 'int'}
    i = lambda v: {'t': 'int', 'v': v, 'plus': False}
    nf = {'path': ['a'], 'dt': 'float', 'sfx': [''], 'kw': 'float', 'u0': 'cm', 'shape': None}
    ni = lambda p, u=None: {'path': [p], 'dt': 'int', 'sfx': ['', ''], 'kw': 'int', 'u0': u, 'shape': None}
    falsy = {'units': [], 'flavor': 'ok', 'nodes': [nf],
             'stmts': [_st(0, 'def', 'float', 'float', f1, 'cm'), _st(0, 'mod', 'float', 'float', f0)]}
    const = {'units': [], 'flavor': 'const-after-mod', 'nodes': [ni('a'), ni('b')],
             'stmts': [_st(0, 'def', 'int', 'int', i(1)), _st(1, 'def', 'int', 'int', i(2)),
                       _st(0, 'mod', 'int', 'int', i(3), const=True), _st(0, 'mod', 'int', 'int', i(5))]}
    unitless = {'units': [], 'flavor': 'unit-on-unitless', 'nodes': [ni('a')],
                'stmts': [_st(0, 'def', 'int', 'int', i(1)), _st(0, 'mod', 'int', 'int', i(3), 's')]}
    na = {'path': ['a'], 'dt': 'int', 'sfx': ['', ''], 'kw': 'int', 'u0': None, 'shape': [2]}
    arr = lambda a, b: {'t': 'arr', 'items': [i(a), i(b)]}
    array = {'units': [], 'flavor': 'array-mod', 'nodes': [na],
             'stmts': [_st(0, 'def', 'int', 'int', arr(1, 2)), _st(0, 'mod', 'int', 'int', arr(3, 4))]}
    f4 = {'t': 'float', 'sign': 1, 'digits': '4', 'exp': 0, 'txt': '4', 'form': 'int'}
    custom = {'units': [{'name': 'q', 'num': '4', 'unit': 'cm'}], 'flavor': 'custom-unit', 'nodes': [nf],
              'stmts': [_st(0, 'def', 'float', 'float', f1, 'cm'), _st(0, 'mod', 'float', 'float', f1, '[q]')]}
    mk = lambda p: dict(prog=p, r=1, plain=True)
    return [(K_CUSTOM, mk(custom)), (K_FALSY, mk(falsy)), (K_CONST, mk(const)), (K_UNITLESS, mk(unitless)), (K_ARRAY, mk(array))]


def teardown(ctx):
    g = ctx['guard']
    return {'monitors': {}, 'step_guard': {'shard%s' % ctx.get('shard'): dict(max_steps_of_accepted_parse=g.max_accepted,
                                                                             budget=max(g.MIN_BUDGET, 200 * g.max_accepted))}}
