"""C18 side family: expressions over nodes that were MODIFIED after their definition (other value, other unit).
Closed-form oracle: the operand carries the node's current value (last assignment converted into the definition's unit)."""
from vt.core import outcome, dev
from vt.util import close

UNITS = {'length': [('m', 1.0), ('cm', 1e-2), ('km', 1e3), ('mm', 1e-3)], 'time': [('s', 1.0), ('ms', 1e-3), ('min', 60.0)],
         'mass': [('g', 1.0), ('kg', 1e3), ('mg', 1e-3)]}


def gen(rng):
    dim = rng.choice(list(UNITS))
    (ua, fa), (ub, fb) = rng.sample(UNITS[dim], 2)
    ur, fr = rng.choice(UNITS[dim])
    return dict(t='modref', dim=dim, ua=ua, ub=ub, ur=ur, x=rng.choice([10, 2.5, 4, 120]), x2=rng.choice([3, 300, 0.5, 7.5]),
                k=rng.choice([2, 3, 0.5]), lit=rng.choice([1, 20, 0.25]), declared=rng.random() < 0.25, nmods=rng.choice([1, 1, 2]),
                form=rng.choice(['mul', 'add', 'sub-literal', 'div', 'logical', 'template', 'solver-call']), twice=rng.random() < 0.5)


def run(case, ctx, parse_text):
    c = case
    F = dict(sum(UNITS.values(), []))
    L = []
    if c['declared']:
        L.append('a float %s' % c['ua'])
        L.append('a = %r %s' % (float(c['x']), c['ua']))
    else:
        L.append('a float = %r %s' % (float(c['x']), c['ua']))
    if c['nmods'] == 2:
        L.append('a = %r %s' % (float(c['x']) * 3, c['ua']))
    prev_base = float(c['x']) * (3 if c['nmods'] == 2 else 1) * F[c['ua']]
    cur_base = c['x2'] * F[c['ub']]                    # current value of a in base units
    cur_in_ua = cur_base / F[c['ua']]
    form = c['form']

    def expr(name, base):
        # the SAME expression text for every name: only the value of a at the place of the line differs
        if form == 'mul':
            return ['%s float = ("%s * {?a}") %s' % (name, c['k'], c['ur'])], c['k'] * base / F[c['ur']]
        if form == 'add':
            return ['%s float = ("{?a} + %r %s") %s' % (name, float(c['lit']), c['ua'], c['ur'])], (base + c['lit'] * F[c['ua']]) / F[c['ur']]
        if form == 'sub-literal':
            return ['%s float = ("%r %s - {?a}") %s' % (name, float(c['lit']), c['ub'], c['ur'])], (c['lit'] * F[c['ub']] - base) / F[c['ur']]
        if form == 'div':
            return ['%s float = ("{?a} / %s") %s' % (name, c['k'], c['ur'])], base / c['k'] / F[c['ur']]
        if form == 'logical':
            return ['%s bool = ("{?a} == %r %s")' % (name, float(c['x2']), c['ub'])], bool(close(base, cur_base, 1e-9))
        if form == 'template':
            return ['%s str = ("a={{?a}:.6e}")' % name], 'a=%s' % format(base / F[c['ua']], '.6e')
        return [], None
    exp0 = None
    twice = bool(c.get('twice')) and form != 'solver-call' and not close(prev_base, cur_base, 1e-6)
    if twice:
        l0, exp0 = expr('r0', prev_base)               # the same text BEFORE the last modification
        L += l0
    L.append('a = %r %s' % (float(c['x2']), c['ub']))
    l1, exp = expr('r', cur_base)
    L += l1
    if form == 'logical':
        L.append('q bool = ("{?a} == %r %s")' % (float(c['x']) * 1.5 + 1, c['ua']))
    text = '\n'.join(L) + '\n'
    devs = []
    mon = dict(modified_reference_programs=1)
    classes = ['modified-reference', 'modified-reference:' + form] + (['modified-reference:declared-then-assigned'] if c['declared'] else [])
    if twice:
        classes.append('modified-reference:same-expression-text-before-and-after')
        mon['same_expression_text_twice'] = 1
    kind, res = parse_text(ctx, text)
    if kind != 'ok':
        devs.append(dev('modified-reference:valid-program-rejected', dict(text=text, outcome=kind, exc=repr(res)[:200])))
        return outcome(classes=classes, nontrivial=True, fp='modref ' + text, dev=devs, monitors=mon, sample=dict(text=text))
    data = res.data()
    obs = None
    if form == 'solver-call':
        from scinumtools.dip.solvers import NumericalSolver
        with NumericalSolver(res) as s:
            obs = float(s.solve('%s * {?a}' % c['k'], c['ur']))
        exp = c['k'] * cur_base / F[c['ur']]
        ok = close(obs, exp, 1e-9)
    elif form in ('logical',):
        obs = (data.get('r'), data.get('q'))
        ok = data.get('r') is not None and data.get('q') is not None and bool(data.get('r')) is True and bool(data.get('q')) is False
        exp = (True, False)
    elif form == 'template':
        obs = data.get('r'); ok = obs == exp
    else:
        obs = data.get('r'); ok = obs is not None and close(obs, exp, 1e-9)
    if not close(data.get('a'), cur_in_ua, 1e-9):
        devs.append(dev('modified-reference:node-value-itself-differs', dict(text=text, observed=data.get('a'), expected=cur_in_ua)))
    elif not ok:
        devs.append(dev('modified-reference:expression-does-not-use-current-value', dict(text=text, observed=obs, expected=exp)))
    if twice and not devs:
        o0 = data.get('r0')
        ok0 = (o0 is not None and bool(o0) == exp0) if form == 'logical' else (o0 == exp0 if form == 'template' else (o0 is not None and close(o0, exp0, 1e-9)))
        if not ok0:
            devs.append(dev('modified-reference:same-expression-before-the-modification-does-not-use-the-value-of-that-place', dict(text=text, observed=o0, expected=exp0)))
    return outcome(classes=classes, nontrivial=True, fp='modref ' + text, dev=devs, monitors=mon, sample=dict(text=text, expected=exp, observed=obs))


# ------------------------------------------------------------------------------------------------------------------
# node-versus-node comparisons with an INTEGER node on either side and different units (closed form)

def gen_nodecmp(rng):
    dim = rng.choice(list(UNITS))
    (ua, fa), (ub, fb) = rng.sample(UNITS[dim], 2)
    x = rng.choice([1500, 2500, 3, 7, 45, 250, 90])
    rel = rng.choice(['equal', 'left-greater', 'left-smaller'])
    return dict(t='nodecmp', dim=dim, ua=ua, ub=ub, x=x, rel=rel, left=rng.choice(['int', 'int', 'float']), right=rng.choice(['float', 'int', 'float']),
                op=rng.choice(['==', '!=', '<', '>', '<=', '>=']), via=rng.choice(['bool-node', 'case', 'solver-call', 'condition']))


def run_nodecmp(c, ctx, parse_text):
    F = dict(sum(UNITS.values(), []))
    base = c['x'] * F[c['ua']]
    y = base / F[c['ub']]
    if c['rel'] == 'left-greater':
        y = y * 0.75
    elif c['rel'] == 'left-smaller':
        y = y * 1.5
    if c['right'] == 'int':
        if float(y) != float(int(y)) or int(y) == 0:
            return outcome(skip='right operand not integral for an int node')
        ytxt = '%d' % int(y)
    else:
        ytxt = repr(float(y))
    xtxt = '%d' % c['x'] if c['left'] == 'int' else repr(float(c['x']))
    yb = float(ytxt) * F[c['ub']]
    truth = {'==': base == yb, '!=': base != yb, '<': base < yb, '>': base > yb, '<=': base <= yb, '>=': base >= yb}[c['op']]
    if base != yb and close(base, yb, 2e-3):
        return outcome(skip='operands inside the tolerance band')
    L = ['d %s = %s %s' % (c['left'], xtxt, c['ua']), 'b %s = %s %s' % (c['right'], ytxt, c['ub'])]
    expr = '{?d} %s {?b}' % c['op']
    via = c['via']
    if via == 'bool-node':
        L.append('r bool = ("%s")' % expr)
    elif via == 'case':
        L += ['@case ("%s")' % expr, '  z int = 1', '@else', '  z int = 2', '@end']
    elif via == 'condition':
        L = [L[1], L[0], '  !condition ("{?} %s {?b}")' % c['op']]
    text = '\n'.join(L) + '\n'
    classes = ['node-vs-node-comparison', 'node-vs-node:left-%s-right-%s' % (c['left'], c['right']), 'node-vs-node:' + via]
    if c['left'] == 'int' and float(base / F[c['ub']]) != float(int(base / F[c['ub']])):
        classes.append('node-vs-node:int-left-converts-to-non-integer')
    devs, mon = [], dict(node_vs_node_programs=1)
    kind, res = parse_text(ctx, text)
    obs = None
    if via == 'condition':
        if truth and kind != 'ok':
            devs.append(dev('node-vs-node:satisfied-condition-rejected', dict(text=text, exc=repr(res)[:160])))
        if not truth and kind == 'ok':
            devs.append(dev('node-vs-node:violated-condition-accepted', dict(text=text)))
        obs = kind
    elif kind != 'ok':
        devs.append(dev('node-vs-node:valid-program-rejected', dict(text=text, exc=repr(res)[:160])))
    else:
        d = res.data()
        if via == 'bool-node':
            obs = d.get('r')
        elif via == 'case':
            obs = {1: True, 2: False}.get(d.get('z'))
        else:
            from scinumtools.dip.solvers import LogicalSolver
            with LogicalSolver(res) as s:
                r = s.solve(expr)
            obs = bool(r.value) if hasattr(r, 'value') else bool(r)
        if obs is None or bool(obs) != truth:
            devs.append(dev('node-vs-node:comparison-value-differs', dict(text=text, expression=expr, observed=obs, expected=truth)))
        if not close(d.get('d'), c['x'], 1e-12) or not close(d.get('b'), float(ytxt), 1e-12):
            devs.append(dev('node-vs-node:comparison-changed-its-operands', dict(text=text, data={k: d.get(k) for k in 'db'})))
    return outcome(classes=classes, nontrivial=True, fp='nodecmp ' + text, dev=devs, monitors=mon, sample=dict(text=text, expected=truth, observed=obs))


# ------------------------------------------------------------------------------------------------------------------
# dimensionless results of numerical expressions and the unit the node requests (closed form)

def gen_dimless(rng):
    return dict(t='dimless', a=rng.choice([20, 5, 250]), ua=rng.choice(['cm', 'mm', 'm']), b=rng.choice([1, 4, 0.5]), ub=rng.choice(['m', 'km', 'cm']),
                want=rng.choice(['%', 'ppth', 'none', 'custom-dozen', 'm-must-fail', 's-must-fail', 'literal-into-m-must-fail']))


def run_dimless(c, ctx, parse_text):
    F = dict(sum(UNITS.values(), []))
    ratio = (c['a'] * F[c['ua']]) / (c['b'] * F[c['ub']])
    L = ['a float = %r %s' % (float(c['a']), c['ua']), 'b float = %r %s' % (float(c['b']), c['ub'])]
    want = c['want']
    exp = None
    if want == '%':
        L.append('r float = ("{?a} / {?b}") %'); exp = ratio * 100
    elif want == 'ppth':
        L.append('r float = ("{?a} / {?b}") ppth'); exp = ratio * 1000
    elif want == 'none':
        L.append('r float = ("{?a} / {?b}")'); exp = ratio
    elif want == 'custom-dozen':
        L = ['$unit dozen = 12'] + L + ['r float = ("{?a} / {?b} * 36") [dozen]']; exp = ratio * 36 / 12
    elif want == 'm-must-fail':
        L.append('r float = ("{?a} / {?b}") m')
    elif want == 's-must-fail':
        L.append('r float = ("{?a} / {?b} * 3") s')
    else:
        L.append('r float = ("2 * 3") m')
    text = '\n'.join(L) + '\n'
    classes = ['dimensionless-result', 'dimensionless-result:' + want]
    devs, mon = [], dict(dimensionless_result_programs=1)
    kind, res = parse_text(ctx, text)
    obs = None
    if exp is None:
        if kind == 'ok':
            devs.append(dev('dimensionless-result:accepted-into-a-dimensional-unit', dict(text=text, data=repr(res.data())[:150])))
    elif kind != 'ok':
        devs.append(dev('dimensionless-result:valid-program-rejected', dict(text=text, exc=repr(res)[:160])))
    else:
        obs = res.data().get('r')
        if obs is None or not close(obs, exp, 1e-9):
            devs.append(dev('dimensionless-result:not-expressed-in-the-requested-unit', dict(text=text, observed=obs, expected=exp)))
    return outcome(classes=classes, nontrivial=True, fp='dimless ' + text, dev=devs, monitors=mon, sample=dict(text=text, expected=exp if exp is not None else 'rejected', observed=obs))


# ------------------------------------------------------------------------------------------------ function arguments
# "exp/log/log10/sin/cos(<expr>) return ... of a dimensionless expression": a dimensionless argument may be written in a
# dimensionless UNIT (a node in %, in ppth, in a custom pure-number unit, or a ratio of two lengths in different units);
# it stands for the pure number value*factor.

KEY_FNARG = 'C18-function-argument-in-dimensionless-unit-taken-raw'
KEY_NE = 'C18-inequality-without-tolerance'
DIMLESS_UNITS = {'%': 0.01, 'ppth': 0.001, 'none': 1.0, 'custom-dozen': 12.0, 'ratio-cm-m': None}


def gen_fnarg(rng):
    return dict(t='fnarg', fn=rng.choice(['exp', 'log', 'log10', 'sin', 'cos', 'tan', 'sqrt', 'pow-exponent', 'pow-base']),
                unit=rng.choice(['%', '%', 'ppth', 'none', 'custom-dozen', 'ratio-cm-m']), x=rng.choice([50, 25, 150, 80, 12.5]),
                tail=rng.choice(['', ' + 1', ' * 2']), via=rng.choice(['node', 'node', 'literal']))


def run_fnarg(c, ctx, parse_text):
    import math
    unit, x = c['unit'], float(c['x'])
    L = []
    if unit == 'ratio-cm-m':
        pure = x * 0.01 / 2.0                      # x cm / 2 m
        L += ['p float = %r cm' % x, 'q float = 2 m']
        arg = '{?p} / {?q}'
    else:
        pure = x * DIMLESS_UNITS[unit]
        if unit == 'custom-dozen':
            pure = x / 100.0 * 12.0                  # keep the number small: x/100 dozen
            L.append('$unit dozen = 12')
            lit = '%r [dozen]' % (x / 100.0)
        elif unit == 'none':
            pure = x / 100.0
            lit = '%r' % (x / 100.0)
        else:
            lit = '%r %s' % (x, unit)
        if c['via'] == 'node':
            L.append('r float = ' + lit)
            arg = '{?r}'
        else:
            arg = lit
    fn = c['fn']
    if fn == 'pow-exponent':
        call, val = 'pow(2,%s)' % arg, 2.0 ** pure
    elif fn == 'pow-base':
        call, val = 'pow(%s,2)' % arg, pure ** 2
    else:
        call = '%s(%s)' % (fn, arg)
        val = {'exp': math.exp, 'log': math.log, 'log10': math.log10, 'sin': math.sin, 'cos': math.cos, 'tan': math.tan, 'sqrt': math.sqrt}[fn](pure)
    exp = {'': val, ' + 1': val + 1, ' * 2': val * 2}[c['tail']]
    L.append('a float = ("%s%s")' % (call, c['tail']))
    text = '\n'.join(L) + '\n'
    classes = ['function-argument', 'function-argument:' + fn, 'function-argument-unit:' + unit]
    if unit not in ('none',):
        classes.append('function-argument-in-dimensionless-unit')
    devs, mon = [], dict(function_argument_programs=1)
    kind, res = parse_text(ctx, text)
    obs = None
    # buggy twin of the repaired finding: the bare magnitude of the argument is used (and the result of log/log10 keeps the
    # argument's unit); sin/cos/tan refuse a unit that is not an angle
    raw = {'%': x, 'ppth': x, 'custom-dozen': x / 100.0}.get(unit)
    fac = {'%': 0.01, 'ppth': 0.001, 'custom-dozen': 12.0}.get(unit)
    if kind != 'ok':
        known = KEY_FNARG if (fn in ('sin', 'cos', 'tan') and raw is not None and 'Unsupported conversion between units' in repr(res)) else None
        devs.append(dev('function-argument:valid-program-rejected(%s,%s)' % (fn, 'pure-number' if unit == 'none' else 'dimensionless-unit'), dict(text=text, exc=repr(res)[:160]), known=known))
    else:
        obs = res.data().get('a')
        if obs is None or not close(obs, exp, 1e-9, 1e-12):
            known = None
            if raw is not None and obs is not None:
                try:
                    tv = {'exp': lambda: math.exp(raw), 'log': lambda: math.log(raw) * fac, 'log10': lambda: math.log10(raw) * fac,
                          'pow-exponent': lambda: 2.0 ** raw}.get(fn, lambda: None)()
                except OverflowError:
                    tv = None
                if tv is not None:
                    tw = {'': tv, ' + 1': tv + 1, ' * 2': tv * 2}[c['tail']]
                    if close(obs, tw, 1e-9, 1e-12):
                        known = KEY_FNARG
            devs.append(dev('function-argument:not-taken-as-the-pure-number-it-stands-for(%s)' % fn, dict(text=text, observed=obs, expected=exp, argument_as_pure_number=pure), known=known))
    return outcome(classes=classes, nontrivial=True, fp='fnarg ' + text, dev=devs, monitors=mon, sample=dict(text=text, expected=exp, observed=obs))


# ------------------------------------------------------------------------------------------------ equality tolerance
# "equality tolerant to 1e-6 relative": relative means relative - at every magnitude.  Operands are 3e-7 apart (equal) or
# 1e-5 / 1e-4 apart (unequal), at magnitudes from 1e-3 to 2.5e6 and across units, so an absolute tolerance or a tolerance
# applied before the unit conversion shows.  (Magnitudes stay >= 1e-4 in both units: numpy.isclose's absolute term 1e-8
# plays no role.)

def gen_eqtol(rng):
    dim = rng.choice(list(UNITS))
    (ua, fa), (ub, fb) = rng.choice([rng.sample(UNITS[dim], 2), [rng.choice(UNITS[dim])] * 2])
    return dict(t='eqtol', ua=ua, ub=ub, x=rng.choice([2.5e6, 80000.0, 300.0, 3.0, 0.02, 1e-3]), d=rng.choice([3e-7, 3e-7, 1e-5, 1e-4, -3e-7, -1e-4]),
                form=rng.choice(['bool-node', 'case', 'negated', 'not-equal', 'literal-right']))


def run_eqtol(c, ctx, parse_text):
    F = dict(sum(UNITS.values(), []))
    x, d = c['x'], c['d']
    equal = abs(d) <= 1e-6
    yb = x * (1 + d) * F[c['ua']] / F[c['ub']]          # the same physical value, off by the relative distance d, written in ub
    if yb < 1e-4 or yb > 1e12:
        return outcome(skip='operand outside the magnitude window of this family')
    if not equal and min(abs(x * d), abs(yb * d)) < 1e-6:
        # numpy.isclose adds an absolute term of 1e-8: differences below 1e-6 are left out of the "must be unequal" side
        return outcome(skip='difference too close to the absolute term of numpy.isclose')
    L = ['a float = %r %s' % (x, c['ua']), 'b float = %r %s' % (yb, c['ub'])]
    rhs = '{?b}' if c['form'] != 'literal-right' else '%r %s' % (yb, c['ub'])
    if c['form'] in ('bool-node', 'literal-right'):
        L.append('t bool = ("{?a} == %s")' % rhs); exp = equal
    elif c['form'] == 'negated':
        L.append('t bool = ("~({?a} == {?b})")'); exp = not equal
    elif c['form'] == 'not-equal':
        L.append('t bool = ("{?a} != {?b}")'); exp = not equal
    else:
        L += ['@case ("{?a} == {?b}")', '  t bool = true', '@else', '  t bool = false', '@end']; exp = equal
    text = '\n'.join(L) + '\n'
    classes = ['equality-tolerance', 'equality-tolerance:' + ('inside' if equal else 'outside'), 'equality-tolerance-magnitude:%g' % x,
               'equality-tolerance:' + ('same-unit' if c['ua'] == c['ub'] else 'other-unit')]
    devs, mon = [], dict(equality_tolerance_programs=1)
    kind, res = parse_text(ctx, text)
    obs = None
    if kind != 'ok':
        devs.append(dev('equality-tolerance:valid-program-rejected', dict(text=text, exc=repr(res)[:160])))
    else:
        obs = res.data().get('t')
        if obs is None or bool(obs) != exp:
            # buggy twin of the repaired finding: != compared the converted numbers exactly
            known = KEY_NE if (c['form'] == 'not-equal' and equal and obs is not None and bool(obs) is True) else None
            devs.append(dev('equality-tolerance:%s' % ('values-%s-apart-compare-%s' % ('%g' % abs(d), 'unequal' if equal else 'equal')),
                            dict(text=text, relative_distance=d, magnitude=x, observed=None if obs is None else bool(obs), expected=exp), known=known))
    return outcome(classes=classes, nontrivial=True, fp='eqtol ' + text, dev=devs, monitors=mon, sample=dict(text=text, expected=exp, observed=None if obs is None else bool(obs)))


# ------------------------------------------------------------------------------------------------ definedness by node state
# "Definition operator returns true if <reference> node exists" (docs) - at the place where the test stands: a node that
# is declared but has not received its value yet exists; a node defined further down does not exist yet; a node set to none
# exists; in a text whose first line is the test nothing exists (and that is an answer, not an error).

KEY_DEFEMPTY = 'C18-definedness-test-raises-in-empty-environment'
DEF_STATES = ['absent-nothing-defined-yet', 'absent', 'declared-value-later', 'defined', 'none-valued', 'defined-further-down',
              'in-group', 'modified-before', 'zero-valued', 'false-valued', 'empty-string']
DEF_FORMS = ['bool-node', 'negated', 'case', 'case-negated', 'and-true', 'or-false', 'bool-node-twice']


def gen_defstate(rng):
    return dict(t='defstate', state=rng.choice(DEF_STATES), form=rng.choice(DEF_FORMS), filler=rng.random() < 0.5)


def run_defstate(c, ctx, parse_text):
    st, form = c['state'], c['form']
    pre, post, ref = [], [], 'r'
    exists = True
    if st == 'absent-nothing-defined-yet':
        exists = False
    elif st == 'absent':
        pre, exists = ['other int = 3'], False
    elif st == 'declared-value-later':
        pre, post = ['r float cm'], ['r = 3']
    elif st == 'defined':
        pre = ['r float = 2 cm']
    elif st == 'none-valued':
        pre = ['r float = none cm']
    elif st == 'defined-further-down':
        pre, post, exists = ['other int = 3'], ['r float = 2 cm'], False
    elif st == 'in-group':
        pre, ref = ['g', '  r float = 2 cm'], 'g.r'
    elif st == 'modified-before':
        pre = ['r float = 2 cm', 'r = 5 mm']
    elif st == 'zero-valued':
        pre = ['r float = 0 cm']
    elif st == 'false-valued':
        pre = ['r bool = false']
    elif st == 'empty-string':
        pre = ['r str = ""']
    if c['filler'] and st != 'absent-nothing-defined-yet':
        pre = ['first str = "x"'] + pre
    test = {'bool-node': '!{?%s}', 'negated': '~!{?%s}', 'case': '!{?%s}', 'case-negated': '~!{?%s}', 'and-true': '!{?%s} && true',
            'or-false': '!{?%s} || false', 'bool-node-twice': '!{?%s}'}[form] % ref
    exp = (not exists) if 'negated' in form else exists
    L = list(pre)
    if form.startswith('case'):
        L += ['@case ("%s")' % test, '  t bool = true', '@else', '  t bool = false', '@end']
    else:
        L.append('t bool = ("%s")' % test)
    L += post
    exp2 = None
    if form == 'bool-node-twice':
        L.append('t2 bool = ("%s")' % test)             # the same text once more, after whatever follows the first test
        exp2 = exists or st == 'defined-further-down'
    text = '\n'.join(L) + '\n'
    classes = ['definedness-by-state', 'definedness-by-state:' + st, 'definedness-form:' + form]
    devs, mon = [], dict(definedness_state_programs=1)
    kind, res = parse_text(ctx, text)
    obs = None
    if kind != 'ok':
        known = KEY_DEFEMPTY if (st == 'absent-nothing-defined-yet' and 'Local nodes are not available' in repr(res)) else None
        devs.append(dev('definedness:valid-program-rejected(%s)' % st, dict(text=text, exc=repr(res)[:160]), known=known))
    else:
        d = res.data()
        obs = d.get('t')
        if obs is None or bool(obs) != exp:
            devs.append(dev('definedness:test-on-%s-node-is-%s' % (st, 'absent' if obs is None else str(bool(obs)).lower()),
                            dict(text=text, expected=exp, observed=None if obs is None else bool(obs))))
        if exp2 is not None and (d.get('t2') is None or bool(d.get('t2')) != exp2):
            devs.append(dev('definedness:repeated-test-on-%s-node-differs' % st, dict(text=text, expected=exp2, observed=repr(d.get('t2')))))
    return outcome(classes=classes, nontrivial=True, fp='defstate ' + text, dev=devs, monitors=mon,
                   sample=dict(text=text, expected=exp, observed=None if obs is None else bool(obs)))


# ------------------------------------------------------------------------------------------------ integer node = expression with a whole exact result
# "the result expressed in the requested unit equals the exact result": when the exact result of the expression is a whole
# number, an int node holds that number - also when floating-point evaluation lands a hair below it (0.7 m / 0.1 m =
# 6.999999999999999).  How a NON-whole result is turned into an int is not in the statement and not asked here.

def gen_intexpr(rng):
    from fractions import Fraction as Fr
    N = rng.choice([3, 7, 29, 6, 12, 435, 58, 9, 21, 100])
    d = rng.choice(['0.1', '0.2', '0.3', '0.7', '0.01', '0.05', '0.6', '1.1', '4.35', '0.29'])
    num = Fr(N) * Fr(d)
    dim = rng.choice(list(UNITS))
    (ua, fa), (ub, fb) = rng.choice([rng.sample(UNITS[dim], 2), [rng.choice(UNITS[dim])] * 2])
    return dict(t='intexpr', N=N, d=d, num=str(float(num)), ua=ua, ub=ub, form=rng.choice(['quotient', 'quotient', 'product-with-int-node', 'quotient-other-unit', 'with-requested-unit', 'sum']))


def run_intexpr(c, ctx, parse_text):
    from fractions import Fraction as Fr
    F = dict(sum(UNITS.values(), []))
    N, d, form = c['N'], c['d'], c['form']
    L = []
    exp = N
    if Fr(c['num']) != Fr(N) * Fr(d):
        return outcome(skip='numerator has no short decimal spelling')
    if form == 'quotient':
        L.append('n int = ("%s %s / %s %s")' % (c['num'], c['ua'], d, c['ua']))
    elif form == 'quotient-other-unit':
        # the same quotient with the divisor written in another unit of the dimension
        k = Fr(repr(F[c['ua']])) / Fr(repr(F[c['ub']]))
        dv = Fr(d) * k
        if dv.denominator > 10 ** 6 or float(dv) < 1e-4 or float(dv) > 1e7:
            return outcome(skip='divisor has no short decimal spelling in the other unit')
        L.append('n int = ("%s %s / %s %s")' % (c['num'], c['ua'], repr(float(dv)), c['ub']))
    elif form == 'product-with-int-node':
        if N % 100:
            return outcome(skip='needs a multiple of 100')
        L += ['cells int = 100', 'n int = ("%s * {?cells}")' % repr(float(Fr(N, 100)))]
    elif form == 'with-requested-unit':
        L.append('n int = ("%s %s * %d") %s' % (d, c['ua'], N, c['ua']))
        if not (Fr(N) * Fr(d)).denominator == 1:
            return outcome(skip='result not whole in the requested unit')
        exp = int(Fr(N) * Fr(d))
    else:
        L.append('n int = ("%s + %s - %s")' % (N, d, d))
    text = '\n'.join(L) + '\n'
    classes = ['int-node-from-expression-with-whole-exact-result', 'int-expression:' + form]
    devs, mon = [], dict(int_expression_programs=1)
    kind, res = parse_text(ctx, text)
    obs = None
    if kind != 'ok':
        devs.append(dev('int-expression:valid-program-rejected', dict(text=text, exc=repr(res)[:160])))
    else:
        obs = res.data().get('n')
        if obs is None or isinstance(obs, bool) or int(obs) != exp or float(obs) != float(exp):
            devs.append(dev('int-expression:whole-exact-result-not-delivered(%s)' % form, dict(text=text, observed=repr(obs), expected=exp)))
    return outcome(classes=classes, nontrivial=True, fp='intexpr ' + text, dev=devs, monitors=mon, sample=dict(text=text, expected=exp, observed=repr(obs)))


# ------------------------------------------------------------------------------------------------ inclusive comparisons on negative values
# <= and >= are "equality tolerant" too (the docs define them through ==); the sign of the operands changes nothing:
# -250 m <= -250 m, -5 >= -5, also across units and with the two sides 3e-7 apart.

def gen_cmpneg(rng):
    dim = rng.choice(list(UNITS))
    (ua, fa), (ub, fb) = rng.choice([rng.sample(UNITS[dim], 2), [rng.choice(UNITS[dim])] * 2])
    return dict(t='cmpneg', ua=ua, ub=ub, x=rng.choice([-250.0, -5.0, -0.02, -3000.0, -1.5, 40.0]), rel=rng.choice(['equal', 'equal', 'within-tolerance', 'smaller', 'larger']),
                op=rng.choice(['<=', '>=']), form=rng.choice(['bool-node', 'literal-right', 'case', 'condition', 'negated']), dt=rng.choice(['float', 'float', 'int']))


def run_cmpneg(c, ctx, parse_text):
    F = dict(sum(UNITS.values(), []))
    x = c['x']
    k = {'equal': 1.0, 'within-tolerance': 1 + 3e-7, 'smaller': 1.2 if x < 0 else 0.8, 'larger': 0.8 if x < 0 else 1.2}[c['rel']]      # b relative to a (physically)
    yb = x * k * F[c['ua']] / F[c['ub']]
    if c['rel'] in ('smaller', 'larger') and min(abs(x), abs(yb)) * 0.2 < 1e-5:
        # numpy.isclose adds an absolute 1e-8: clearly different operands must differ by more than that in either unit
        return outcome(skip='difference too close to the absolute term of numpy.isclose')
    dt = c['dt']
    if dt == 'int' and not (float(x).is_integer() and float(yb).is_integer() and abs(yb) < 1e9):
        dt = 'float'
    num = (lambda z: '%d' % z) if dt == 'int' else (lambda z: repr(float(z)))
    a_le_b = c['rel'] in ('equal', 'within-tolerance', 'larger')          # a <= b ?
    a_ge_b = c['rel'] in ('equal', 'within-tolerance', 'smaller')
    truth = a_le_b if c['op'] == '<=' else a_ge_b
    L = ['a %s = %s %s' % (dt, num(x), c['ua']), 'b %s = %s %s' % (dt, num(yb), c['ub'])]
    form = c['form']
    cmp_nodes = '{?a} %s {?b}' % c['op']
    exp = truth
    must_fail = False
    if form == 'bool-node':
        L.append('t bool = ("%s")' % cmp_nodes)
    elif form == 'literal-right':
        L.append('t bool = ("{?a} %s %s %s")' % (c['op'], num(yb), c['ub']))
    elif form == 'negated':
        L.append('t bool = ("~({?a} %s {?b})")' % c['op']); exp = not truth
    elif form == 'case':
        L += ['@case ("%s")' % cmp_nodes, '  t bool = true', '@else', '  t bool = false', '@end']
    else:
        # the bound of a !condition: the node sits exactly on (or off) a negative bound
        L = ['b %s = %s %s' % (dt, num(yb), c['ub']), 'a %s = %s %s' % (dt, num(x), c['ua']), '  !condition ("{?} %s {?b}")' % c['op'], 't bool = true']
        must_fail = not truth
        exp = True
    text = '\n'.join(L) + '\n'
    classes = ['inclusive-comparison', 'inclusive-comparison:' + ('negative' if x < 0 else 'positive'), 'inclusive-comparison:' + c['rel'], 'inclusive-comparison-form:' + form]
    devs, mon = [], dict(inclusive_comparison_programs=1)
    kind, res = parse_text(ctx, text)
    obs = None
    if must_fail:
        if kind == 'ok':
            devs.append(dev('inclusive-comparison:condition-false-but-accepted', dict(text=text)))
    elif kind != 'ok':
        devs.append(dev('inclusive-comparison:valid-program-rejected(%s)' % form, dict(text=text, exc=repr(res)[:160])))
    else:
        obs = res.data().get('t')
        if obs is None or bool(obs) != exp:
            devs.append(dev('inclusive-comparison:%s-operands-%s-compare-%s' % ('negative' if x < 0 else 'positive', c['rel'], 'false' if truth else 'true'),
                            dict(text=text, expected=exp, observed=None if obs is None else bool(obs))))
    return outcome(classes=classes, nontrivial=True, fp='cmpneg ' + text, dev=devs, monitors=mon, sample=dict(text=text, expected='rejected' if must_fail else exp, observed=None if obs is None else bool(obs)))
