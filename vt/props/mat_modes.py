"""Twin of the two reading modes of the materials tables (side check used by C10, C11 and C12).

data_components / data_composite / data_matter return plain numbers with quantity=False and Quantity objects in the
column's unit by DEFAULT.  The builders' oracles read the plain numbers; this twin reads every table in both modes:
  * each Quantity cell, read as a number, equals the plain cell (rtol 1e-9) and non-Quantity cells are equal,
  * reading in the default mode changes nothing (the plain table read again afterwards is identical) - the default mode
    converts stored Quantity objects with the in-place Quantity.to(),
  * the default mode does not raise where the plain mode works.
Deviations are collected in PENDING and drained by the property module's run_case wrapper."""
from vt.core import dev
from vt.util import close, plain

PENDING = []
COUNTS = {'mode_twin_tables': 0, 'mode_twin_cells': 0, 'partial_table_reads': 0, 'inplace_conversion_then_reread': 0}


def _table(obj, name, **kw):
    t = getattr(obj, name)(**kw)
    if t is None:
        return None
    return {k: dict(v.data()) for k, v in t.items()}


def _num(x):
    if hasattr(x, 'magnitude') and hasattr(x, 'baseunits'):
        return plain(x.value()), True
    return plain(x), False


SEEN = []


def check(obj, tables=('data_components', 'data_composite'), tag=''):
    if len(SEEN) < 4:
        SEEN.append((obj, tables))          # converted in place at the end of the case (drain), after the main oracle is done
    for name in tables:
        if not hasattr(obj, name):
            continue
        try:
            before = _table(obj, name, quantity=False)
        except Exception:
            continue            # the plain mode is the business of the main oracle
        try:
            q = _table(obj, name)
        except Exception as e:
            PENDING.append(dev(tag + 'default-quantity-mode-raises(%s)' % name, dict(exc='%s: %s' % (type(e).__name__, str(e)[:200]), obj=type(obj).__name__)))
            continue
        COUNTS['mode_twin_tables'] += 1
        if (before is None) != (q is None):
            PENDING.append(dev(tag + 'default-quantity-mode-differs(%s)' % name, dict(plain_is_none=before is None, quantity_is_none=q is None)))
            continue
        if before is None:
            continue
        bad = []
        if list(before) != list(q):
            bad.append(('rows', list(before), list(q)))
        for k in before:
            for c, v in before[k].items():
                if k not in q or c not in q[k]:
                    bad.append((k, c, 'missing'))
                    continue
                COUNTS['mode_twin_cells'] += 1
                w, isq = _num(q[k][c])
                pv = plain(v)
                same = (pv == w) if not isinstance(pv, (int, float)) or isinstance(pv, bool) or not isinstance(w, (int, float)) else close(pv, w, 1e-9, 0.0)
                if not same and not (pv != pv and w != w):
                    bad.append((k, c, pv, w))
        if bad:
            PENDING.append(dev(tag + 'default-quantity-mode-differs(%s)' % name, dict(differing=bad[:6], obj=type(obj).__name__)))
        try:
            after = _table(obj, name, quantity=False)
        except Exception as e:
            PENDING.append(dev(tag + 'plain-mode-raises-after-default-mode(%s)' % name, dict(exc=repr(e)[:200])))
            continue
        diff = [(k, c, plain(before[k][c]), plain(after.get(k, {}).get(c))) for k in before for c in before[k]
                if not _same(before[k][c], after.get(k, {}).get(c))]
        if diff:
            PENDING.append(dev(tag + 'reading-in-default-mode-changes-the-object(%s)' % name, dict(differing=diff[:6], obj=type(obj).__name__)))
        # a PART of the table (components=[...]) holds exactly the selected component rows, and reading a part does not
        # change what the whole table says afterwards
        comps = [k for k in before if k not in ('avg', 'sum')]
        if name in ('data_composite', 'data_matter') and len(comps) >= 2:
            subset = comps[1::2] if COUNTS['mode_twin_tables'] % 2 else comps[:1]
            try:
                part = _table(obj, name, quantity=False, components=list(subset))
                whole = _table(obj, name, quantity=False)
            except Exception as e:
                PENDING.append(dev(tag + 'partial-table-raises(%s)' % name, dict(exc='%s: %s' % (type(e).__name__, str(e)[:200]), components=subset)))
                continue
            COUNTS['partial_table_reads'] = COUNTS.get('partial_table_reads', 0) + 1
            prow = [k for k in (part or {}) if k not in ('avg', 'sum')]
            if prow != list(subset) or any(not _same(part[k][c], before[k][c]) for k in prow for c in before[k] if c in part[k]):
                PENDING.append(dev(tag + 'partial-table-is-not-the-selected-rows(%s)' % name, dict(selected=subset, rows=prow)))
            wd = [(k, c) for k in before for c in before[k] if whole is None or not _same(before[k][c], whole.get(k, {}).get(c))]
            if whole is None or list(whole) != list(before) or wd:
                PENDING.append(dev(tag + 'whole-table-differs-after-a-partial-read(%s)' % name,
                                   dict(selected=subset, rows_before=list(before), rows_after=None if whole is None else list(whole), differing=wd[:6])))


ALT_UNIT = {'Da': 'g', 'g': 'kg', '%': 'ppth', 'g*cm-3': 'kg/m3', 'cm-3': 'm-3'}


def check_inplace(obj, tables=('data_components', 'data_composite'), tag=''):
    """every Quantity handed out by the default reading mode, and the public mass attributes, are converted IN PLACE into
    another unit (Quantity.to returns self - `table.H2O.mass.to('g')` is the ordinary way to read a cell in grams), then all
    tables are read again as plain numbers: nothing may change"""
    try:
        before = {n: _table(obj, n, quantity=False) for n in tables if hasattr(obj, n)}
        handed = {n: _table(obj, n) for n in before}
    except Exception:
        return
    done = []
    try:
        for n, t in handed.items():
            for k, row in (t or {}).items():
                for c, v in row.items():
                    if hasattr(v, 'magnitude') and hasattr(v, 'to') and v.units() in ALT_UNIT:
                        v.to(ALT_UNIT[v.units()])
                        done.append('%s.%s.%s' % (n, k, c))
        for attr in ('composite_mass', 'component_mass'):
            v = getattr(obj, attr, None)
            if hasattr(v, 'magnitude') and hasattr(v, 'to') and v.units() in ALT_UNIT:
                v.to(ALT_UNIT[v.units()])
                done.append(attr)
        for k, comp in (getattr(obj, 'components', None) or {}).items():
            v = getattr(comp, 'component_mass', None)
            if hasattr(v, 'magnitude') and hasattr(v, 'to') and v.units() in ALT_UNIT:
                v.to(ALT_UNIT[v.units()])
                done.append('components[%s].component_mass' % k)
    except Exception as e:
        PENDING.append(dev(tag + 'in-place-conversion-of-a-handed-out-quantity-raises', dict(exc='%s: %s' % (type(e).__name__, str(e)[:200]), done=done[-3:])))
        return
    if not done:
        return
    COUNTS['inplace_conversion_then_reread'] = COUNTS.get('inplace_conversion_then_reread', 0) + 1
    for n in before:
        try:
            after = _table(obj, n, quantity=False)
        except Exception as e:
            PENDING.append(dev(tag + 'table-raises-after-in-place-conversion(%s)' % n, dict(exc='%s: %s' % (type(e).__name__, str(e)[:200]), converted=done[:6])))
            continue
        if before[n] is None or after is None:
            continue
        diff = [(k, c, plain(before[n][k][c]), plain(after.get(k, {}).get(c))) for k in before[n] for c in before[n][k]
                if not _close9(before[n][k][c], after.get(k, {}).get(c))]
        if diff:
            PENDING.append(dev(tag + 'table-changes-after-in-place-conversion-of-handed-out-quantities(%s)' % n, dict(differing=diff[:6], converted=done[:8], obj=type(obj).__name__)))


def _close9(a, b):
    a, b = plain(a), plain(b)
    if isinstance(a, float) and isinstance(b, float):
        return a == b or (a != a and b != b) or close(a, b, 1e-9, 0.0)
    return a == b


def _same(a, b):
    a, b = plain(a), plain(b)
    if isinstance(a, float) and isinstance(b, float):
        return a == b or (a != a and b != b) or close(a, b, 1e-12, 0.0)
    return a == b


def drain(out):
    """merge pending deviations and counters into an outcome dict"""
    for obj, tables in SEEN:
        check_inplace(obj, tables)
    del SEEN[:]
    if PENDING:
        seen = {(d['mech'], d.get('known')) for d in out.get('dev') or []}
        for d in PENDING:
            if (d['mech'], d.get('known')) not in seen:
                seen.add((d['mech'], d.get('known')))
                out.setdefault('dev', []).append(d)
        del PENDING[:]
    mon = out.setdefault('monitors', {})
    for k in COUNTS:
        if COUNTS[k]:
            mon[k] = mon.get(k, 0) + COUNTS[k]
            COUNTS[k] = 0
    return out
