"""C06 — Quantity arithmetic agrees with arithmetic on base-dimension values."""
import math
from fractions import Fraction as Fr
from vt.core import outcome, dev
from vt.util import close
from vt.refmodel import units_ref as U

ID = 'C06'
LEVEL = 'exploration'
RULE = ('operand pairs over linear table units (any admissible prefix), #system symbols and compounds of 2-3 atoms, plain numbers on '
        'either side (all reflected operators), scalars and arrays, exponents as int (-3..3), (n,d) pair (d<=4) and the float n/d; '
        'the result is re-expressed in base dimensions with the model factor of its REPORTED units and compared with the same '
        'operation on the operands\' base values; non-trivial = operands in different units, or a reflected / power / cancelling '
        'case; distinct by (op, u, v, exponent form, operand kinds)')
SHARDS = {'quick': 16, 'thorough': 16}
MIN_NONTRIVIAL = {'quick': 5000, 'thorough': 150000}
REQUIRED_CLASSES = ['pow:fraction-object', 'pow:numpy-root-function', 'numpy-function-form', 'numpy-function-form:quantity-first', 'operands-with-uncertainty', 'number-type:py', 'number-type:np.float64', 'number-type:np.int', 'number-type:ndarray', 'add', 'sub', 'mul', 'div', 'neg', 'pow-int', 'pow-pair', 'pow-float', 'pow-float-noninteger', 'reflected-number-left',
                    'number-right', 'array', 'scalar', 'different-units-same-dimension', 'total-cancellation', 'partial-cancellation',
                    'refuse-different-dimension', 'refuse-reciprocal-dimension', 'refuse-number-plus-dimensional', 'compound-operand', 'sum-of-number-and-dimensionless-unit', 'both-operands-one-object', 'chain', 'chain:root-of-square', 'chain:product-of-halves', 'chain:np.sqrt-of-square']
REQUIRED_MONITORS = ['base_value_compares', 'dimension_compares', 'unit_exponent_compares', 'refusals_demanded']
ASSUMPTIONS = ['units_ref factors come from the published tables', 'rtol 1e-9 (absolute term 1e-9*max|operand base value| for sums)',
               'only total cancellation is required to drop units', 'fractional powers use positive magnitudes',
               'base values or results outside 1e+-290 are skipped and counted']
KEY_FLOATEXP = 'C06-float-exponent-truncated'
KEY_NPLEFT = 'C06-numpy-number-on-the-left-raises'


def setup():
    import numpy as np
    from scinumtools.units import Quantity
    from vt.monitors.tables import Hygiene
    T = U.Tables()
    atoms = []
    for u in T.linear_symbols():
        for p in [''] + T.admissible(u):
            atoms.append((p, u))
    for u in T.system:
        atoms.append(('', u))
    bydim = {}
    for p, u in atoms:
        bydim.setdefault(T.atom(p, u)[1], []).append((p, u))
    return dict(T=T, Q=Quantity, np=np, atoms=atoms, bydim=bydim, dimkeys=[d for d in bydim if len(bydim[d]) > 1], hyg=Hygiene())


def gen_unit(rng, ctx, k=None):
    k = k or rng.choice([1, 1, 1, 2, 2, 3])
    xs = []
    for _ in range(k):
        p, u = rng.choice(ctx['atoms'])
        e = rng.choice([(1, 1), (1, 1), (1, 1), (2, 1), (-1, 1), (-2, 1), (3, 1), (1, 2)])
        xs.append(['a', p, u, e[0], e[1]])
    x = xs[0]
    for a in xs[1:]:
        x = [rng.choice('*/'), x, a]
    return x


def same_dim_unit(rng, ctx, x):
    T = ctx['T']

    def alt(a):
        c = ctx['bydim'].get(T.atom(a[1], a[2])[1])
        if not c or rng.random() < 0.3:
            return a
        p, u = rng.choice(c)
        return ['a', p, u, a[3], a[4]]
    if x[0] == 'a':
        return alt(x)
    return [x[0], same_dim_unit(rng, ctx, x[1]), same_dim_unit(rng, ctx, x[2])]


def invert(x):
    if x[0] == 'a':
        return ['a', x[1], x[2], -x[3], x[4]]
    return [x[0], invert(x[1]), invert(x[2])]


def pick(rng, positive=False):
    r = rng.random()
    if r < 0.1:
        v = rng.choice([1.0, 2.0, 0.5, 10.0])
    elif r < 0.55:
        v = rng.uniform(0.1, 50)
    else:
        v = 10 ** rng.uniform(-6, 6)
    if not positive and rng.random() < 0.3:
        v = -v
    return v


def cases(rng, tier, shard, nshards, ctx):
    n = 12000 if tier == 'quick' else 420000
    for _ in range(n // nshards):
        r = rng.random()
        arr = rng.random() < 0.25
        if r < 0.30:
            op = rng.choice(['add', 'sub'])
            u = gen_unit(rng, ctx)
            rr = rng.random()
            if rr < 0.55:
                v = same_dim_unit(rng, ctx, u); kind = 'same-dim'
            elif rr < 0.65:
                v = u; kind = 'same-unit'
                selfflag = rng.random() < 0.4
            elif rr < 0.78:
                v = gen_unit(rng, ctx); kind = 'other'
            elif rr < 0.88:
                v = invert(same_dim_unit(rng, ctx, u)); kind = 'reciprocal'
            else:
                v = None; kind = 'number'
                if rng.random() < 0.7:
                    # a plain number can only be added to a dimensionless quantity: written in a dimensionless UNIT with a factor
                    u = ['a', '', rng.choice(['%', 'ppth', '[pi]', '%', 'ppth']), 1, 1]
                    kind = 'number-and-dimensionless-unit'
            xb_ = pick(rng)
            selfflag = locals().get('selfflag', False) and kind == 'same-unit'
            if v is None and rng.random() < 0.3:
                xb_ = rng.choice([0, 0.0, 1, False, True])       # the neutral elements and their bool spellings are numbers like any other
            yield dict(op=op, u=u, v=v, kind=kind, xa=pick(rng), xb=xb_, arr=arr, side=rng.choice(['right', 'left']), numtype=rng.choice(['py', 'py', 'np.float64', 'np.int', 'ndarray']), self=selfflag, unc=rng.random() < 0.2, npfunc=rng.random() < 0.15)
            selfflag = False
        elif r < 0.62:
            op = rng.choice(['mul', 'div'])
            u = gen_unit(rng, ctx)
            rr = rng.random()
            if rr < 0.2:
                v = None; kind = 'number'
            elif rr < 0.4:
                v = same_dim_unit(rng, ctx, u) if op == 'div' else invert(same_dim_unit(rng, ctx, u)); kind = 'cancel'
            else:
                v = gen_unit(rng, ctx); kind = 'other'
            if rng.random() < 0.08:
                v, kind = u, 'same-unit'
            yield dict(op=op, u=u, v=v, kind=kind, xa=pick(rng), xb=pick(rng), arr=arr, side=rng.choice(['right', 'left']), numtype=rng.choice(['py', 'py', 'np.float64', 'np.int', 'ndarray']),
                       self=(kind == 'same-unit'))
        elif r < 0.66:
            # two steps: a quantity whose whole exponents came out of FRACTIONAL arithmetic (root of a square, product of two
            # half powers, cube root of a cube, a unit string with halves) is added to / subtracted from a quantity of the same
            # dimension in another unit
            if not ctx.get('samedim'):
                by = {}
                for p_, u_ in ctx['atoms']:
                    d_ = ctx['T'].atom(p_, u_)[1]
                    if any(d_) and all(getattr(x_, 'denominator', 1) == 1 for x_ in d_):
                        by.setdefault(d_, []).append((p_, u_))
                ctx['samedim'] = [L for L in by.values() if len(L) >= 2]
            L = rng.choice(ctx['samedim'])
            a_, b_ = rng.choice(L), rng.choice(L)
            yield dict(op='chain', form=rng.choice(['root-of-square', 'float-root-of-square', 'product-of-halves', 'cube-root-of-cube', 'np.sqrt-of-square', 'string-of-halves']),
                       a=list(a_), b=list(b_), xa=pick(rng, positive=True), xb=pick(rng), then=rng.choice(['add', 'sub']), side=rng.choice(['right', 'left']), arr=arr,
                       u=None, v=None, kind='chain')
        elif r < 0.68:
            yield dict(op='neg', u=gen_unit(rng, ctx), v=None, kind='neg', xa=pick(rng), xb=0, arr=arr, side='right')
        else:
            form = rng.choice(['int', 'pair', 'float'])
            if form == 'int':
                n_, d_ = rng.choice([-3, -2, -1, 0, 1, 2, 3]), 1
            else:
                d_ = rng.choice([1, 2, 3, 4])
                n_ = rng.choice([1, -1, 2, 3, -3, 5])
            yield dict(op='pow', u=gen_unit(rng, ctx, rng.choice([1, 1, 2])), v=None, kind=form, n=n_, d=d_, xa=pick(rng, positive=(d_ != 1)),
                       xb=0, arr=arr, side=rng.choice(['operator', 'operator', 'np.power']) if form != 'pair' else rng.choice(['operator', 'operator', 'fraction-object', 'root-function']))


def srepr(q):
    """printing a magnitude whose value or uncertainty is exactly zero raises in the library (log10 of 0) - outside C06"""
    try:
        return repr(q)
    except Exception as e:
        try:
            return 'unprintable(%s) value=%r units=%r' % (type(e).__name__, getattr(q.magnitude, 'value', None), q.units())
        except Exception:
            return 'unprintable(%s)' % type(e).__name__


def run_case(case, ctx):
    out = _run(case, ctx)
    if ctx['hyg'].check_restore():
        out['monitors']['table_leaks_restored'] = 1
    return out


def factor_of_map(T, um):
    f = 1.0
    dims = [Fr(0)] * 8
    for (p, u), e in um.items():
        ff, dd = T.atom(p, u, e.numerator, e.denominator)
        if not (1e-290 < ff < 1e290):
            raise OverflowError('unit factor outside the normal float range (subnormal factors lose precision)')
        f *= ff
        dims = [a + b for a, b in zip(dims, dd)]
    return f, tuple(dims)


def run_chain(case, ctx):
    T, Q, np = ctx['T'], ctx['Q'], ctx['np']
    (pa, ua), (pb, ub) = case['a'], case['b']
    fa, da = T.atom(pa, ua)
    fb, db = T.atom(pb, ub)
    at, bt = U.render(['a', pa, ua, 1, 1]), U.render(['a', pb, ub, 1, 1])
    form, arr = case['form'], case['arr']
    xa = [case['xa'], case['xa'] * 2, case['xa'] * 0.25] if arr else [case['xa']]
    xb = [case['xb'], case['xb'] * -1.5, case['xb'] * 3] if arr else [case['xb']]
    mk = lambda xs, t: Q(list(xs), t) if arr else Q(xs[0], t)
    classes = ['chain', 'chain:' + form, 'chain-then-' + case['then'], 'array' if arr else 'scalar']
    devs, mon = [], {}
    try:
        if form == 'root-of-square':
            q1, base1, text = mk(xa, U.render(['a', pa, ua, 2, 1])) ** (1, 2), [math.sqrt(x) * fa for x in xa], 'Quantity(x,%r)**(1,2)' % U.render(['a', pa, ua, 2, 1])
        elif form == 'float-root-of-square':
            q1, base1, text = mk(xa, U.render(['a', pa, ua, 2, 1])) ** 0.5, [math.sqrt(x) * fa for x in xa], 'Quantity(x,%r)**0.5' % U.render(['a', pa, ua, 2, 1])
        elif form == 'np.sqrt-of-square':
            q1, base1, text = np.sqrt(mk(xa, U.render(['a', pa, ua, 2, 1]))), [math.sqrt(x) * fa for x in xa], 'np.sqrt(Quantity(x,%r))' % U.render(['a', pa, ua, 2, 1])
        elif form == 'cube-root-of-cube':
            q1, base1, text = mk(xa, U.render(['a', pa, ua, 3, 1])) ** (1, 3), [x ** (1.0 / 3) * fa for x in xa], 'Quantity(x,%r)**(1,3)' % U.render(['a', pa, ua, 3, 1])
        elif form == 'product-of-halves':
            h = U.render(['a', pa, ua, 1, 2])
            q1, base1, text = mk(xa, h) * Q(2.0, h), [x * 2.0 * fa for x in xa], 'Quantity(x,%r)*Quantity(2,%r)' % (h, h)
        else:
            h = U.render(['*', ['a', pa, ua, 1, 2], ['a', pa, ua, 1, 2]])
            q1, base1, text = mk(xa, h), [x * fa for x in xa], 'Quantity(x,%r)' % h
        q2 = mk(xb, bt)
        base2 = [x * fb for x in xb]
        left = case['side'] == 'left'
        Lq, Rq, Lb, Rb = (q2, q1, base2, base1) if left else (q1, q2, base1, base2)
        res = (Lq + Rq) if case['then'] == 'add' else (Lq - Rq)
    except (OverflowError, ZeroDivisionError):
        return outcome(skip='overflow')
    except Exception as e:
        mon['base_value_compares'] = 1
        devs.append(dev('sum-after-fractional-arithmetic-raises', dict(first=text, other_unit=bt, then=case['then'], exc='%s: %s' % (type(e).__name__, str(e)[:160]))))
        return outcome(classes=classes, nontrivial=True, fp='chain %s %s %s %s %s' % (form, at, bt, case['then'], case['side']), dev=devs, monitors=mon,
                       sample=dict(first=text, other=bt))
    exp = [(x + y) if case['then'] == 'add' else (x - y) for x, y in zip(Lb, Rb)]
    try:
        f, dims = factor_of_map(T, U.unitmap_from_real(res.baseunits))
    except OverflowError:
        return outcome(skip='overflow')
    v = res.magnitude.value
    obs = [float(z) * f for z in (v.tolist() if hasattr(v, 'tolist') and getattr(v, 'ndim', 0) else [v])]
    mon['base_value_compares'] = 1
    scale = max(abs(z) for z in Lb + Rb) or 1.0
    if len(obs) != len(exp) or not all(close(o, e, 1e-9, 1e-9 * scale) for o, e in zip(obs, exp)):
        devs.append(dev('chain-base-value', dict(first=text, other_unit=bt, then=case['then'], observed=obs, expected=exp)))
    mon['dimension_compares'] = 1
    if tuple(dims) != tuple(da):
        devs.append(dev('chain-dimensions', dict(first=text, observed=[str(x) for x in dims], expected=[str(x) for x in da])))
    return outcome(classes=classes, nontrivial=True, fp='chain %s %s %s %s %s' % (form, at, bt, case['then'], case['side']), dev=devs, monitors=mon,
                   sample=dict(first=text, other=bt, then=case['then'], expected_base=exp, observed_base=obs))


def _run(case, ctx):
    if case['op'] == 'chain':
        return run_chain(case, ctx)
    T, Q, np = ctx['T'], ctx['Q'], ctx['np']
    op, arr = case['op'], case['arr']
    classes = [op if op != 'pow' else 'pow-' + case['kind'], 'array' if arr else 'scalar']
    if case['kind'] == 'number-and-dimensionless-unit':
        classes.append('sum-of-number-and-dimensionless-unit')
    devs, mon = [], {}
    try:
        mu = T.meaning(case['u'])
        mv = T.meaning(case['v']) if case['v'] is not None else (1.0, 1.0, (Fr(0),) * 8, {})
    except (OverflowError, ZeroDivisionError):
        return outcome(skip='overflow')
    ut = U.render(case['u'])
    vt = U.render(case['v']) if case['v'] is not None else None
    if case['u'][0] != 'a' or (case['v'] is not None and case['v'][0] != 'a'):
        classes.append('compound-operand')
    xa = [case['xa'], case['xa'] * 2, case['xa'] * 0.25] if arr else [case['xa']]
    xb = [case['xb'], case['xb'] * -1.5, case['xb'] * 3] if (arr or (case['v'] is None and case.get('numtype') == 'ndarray')) else [case['xb']]
    selfop = bool(case.get('self')) and case['kind'] == 'same-unit' and op in ('add', 'sub', 'mul', 'div')
    if selfop:
        xb = list(xa)                  # ONE object on both sides: q + q, q - q, q * q, q / q
        classes.append('both-operands-one-object')
    Fu, Fv = mu[0], mv[0]
    if not U.finite_ok(Fu, Fv):
        return outcome(skip='overflow')
    Ba = [x * Fu for x in xa]
    Bb = [x * Fv for x in xb]
    if not U.finite_ok(*(Ba + Bb)):
        return outcome(skip='overflow')
    unc = bool(case.get('unc'))            # measured operands: the VALUES obey the same arithmetic whatever uncertainty rides along
    if case.get('npfunc') and op in ('add', 'sub', 'mul', 'div'):
        classes.append('numpy-function-form')
        classes.append('numpy-function-form:' + ('quantity-first' if not (case['v'] is None and case.get('side') == 'left') else 'number-first'))
    if unc:
        classes.append('operands-with-uncertainty')
        mkq = lambda xs, t: Q(list(xs), t, abse=0.01 * min(abs(z) for z in xs) + 1e-3) if arr else Q(xs[0], t, abse=0.01 * abs(xs[0]) + 1e-3)
    else:
        mkq = lambda xs, t: Q(list(xs), t) if arr else Q(xs[0], t)
    num = lambda xs: (np.array(xs) if arr else xs[0])
    a = mkq(xa, ut)
    number_b = case['v'] is None and op in ('add', 'sub', 'mul', 'div')
    b = None if case['v'] is None else (a if selfop else mkq(xb, vt))
    left = case.get('side') == 'left'      # the plain number / second operand is on the left
    if number_b:
        classes.append('reflected-number-left' if left else 'number-right')
    a_units = a.units()
    a_um = U.unitmap_from_real(a.baseunits)

    def do():
        if op == 'neg':
            return -a
        if op == 'pow':
            e = case['n'] if case['kind'] == 'int' else ((case['n'], case['d']) if case['kind'] == 'pair' else case['n'] / case['d'])
            if case['side'] == 'np.power':
                return np.power(a, e)
            if case['side'] == 'fraction-object':
                # the exponent handed over as the library's own Fraction object
                from scinumtools.units import Fraction
                classes.append('pow:fraction-object')
                return a ** Fraction(case['n'], case['d'])
            if case['side'] == 'root-function' and (case['n'], case['d']) in ((1, 2), (1, 3)):
                # the same power in NumPy's root functions
                classes.append('pow:numpy-root-function')
                return np.sqrt(a) if case['d'] == 2 else np.cbrt(a)
            return a ** e
        o = b
        if number_b:
            nt = case.get('numtype', 'py')
            if nt == 'ndarray':
                o = np.array(xb, dtype=float)
            elif nt == 'np.float64':
                o = np.float64(xb[0])
            elif nt == 'np.int':
                o = np.int64(xb[0])
            else:
                o = xb[0]
        l, r = (o, a) if left else (a, o)
        if case.get('npfunc'):
            # the same arithmetic written in NumPy's function form (np.add(q1, q2), np.divide(q, x), np.multiply(x, q))
            return {'add': np.add, 'sub': np.subtract, 'mul': np.multiply, 'div': np.true_divide}[op](l, r)
        if op == 'add':
            return l + r
        if op == 'sub':
            return l - r
        if op == 'mul':
            return l * r
        return l / r

    if number_b:
        nt = case.get('numtype', 'py')
        classes.append('number-type:' + nt)
        if nt == 'np.int':
            xb = [float(int(xb[0]))] * len(xb)
        if nt == 'ndarray':
            if not arr:
                xa = xa * len(xb) if len(xa) == 1 else xa      # scalar quantity with an array number broadcasts
                Ba = [x * Fu for x in xa]
        else:
            xb = [xb[0]] * len(xa)
        Bb = [x for x in xb]
        if nt == 'ndarray' and len(Bb) != len(Ba):
            Bb = (Bb * len(Ba))[:len(Ba)] if len(Bb) == 1 else Bb
            Ba = (Ba * len(Bb))[:len(Bb)] if len(Ba) == 1 else Ba
    # ---------------- expected
    L, Rr = (Bb, Ba) if left else (Ba, Bb)
    DL, DR = (mv[2], mu[2]) if left else (mu[2], mv[2])
    def fold(um, dims):
        # a quantity whose total dimension vanishes keeps only its dimensionless units (documented folding at construction)
        if any(dims):
            return um
        return {k: e for k, e in um.items() if not any(T.atom(k[0], k[1])[1])}
    UL, UR = (fold(mv[3], mv[2]), fold(mu[3], mu[2])) if left else (fold(mu[3], mu[2]), fold(mv[3], mv[2]))
    expB = expD = expU = None
    refuse = False
    try:
        if op in ('add', 'sub'):
            if DL != DR:
                refuse = True
                if tuple(-d for d in DL) == DR:
                    classes.append('refuse-reciprocal-dimension')
                elif case['v'] is None:
                    classes.append('refuse-number-plus-dimensional')
                else:
                    classes.append('refuse-different-dimension')
            else:
                expB = [(x + y) if op == 'add' else (x - y) for x, y in zip(L, Rr)]
                expD = DL
                if case['kind'] == 'same-dim' and ut != vt:
                    classes.append('different-units-same-dimension')
        elif op in ('mul', 'div'):
            if op == 'div' and any(y == 0 for y in Rr):
                return outcome(skip='division-by-zero')
            expB = [(x * y) if op == 'mul' else (x / y) for x, y in zip(L, Rr)]
            expD = tuple((p + q) if op == 'mul' else (p - q) for p, q in zip(DL, DR))
            expU = dict(UL)
            for k, e in UR.items():
                expU[k] = expU.get(k, Fr(0)) + (e if op == 'mul' else -e)
        elif op == 'neg':
            expB = [-x for x in Ba]; expD = mu[2]; expU = dict(fold(mu[3], mu[2]))
        elif op == 'pow':
            e = Fr(case['n'], case['d'])
            if e.denominator != 1 and case['kind'] == 'float':
                classes.append('pow-float-noninteger')
            expB = [x ** (e.numerator / e.denominator) if e.denominator != 1 else x ** int(e) for x in Ba]
            expD = tuple(d * e for d in mu[2])
            expU = {k: v * e for k, v in fold(mu[3], mu[2]).items()}
    except (OverflowError, ZeroDivisionError):
        return outcome(skip='overflow')
    if expB is not None and (not U.finite_ok(*[float(z) for z in expB]) or any(isinstance(z, complex) for z in expB)):
        return outcome(skip='overflow')

    # ---------------- observe
    exc = None
    try:
        res = do()
    except Exception as e_:
        exc = e_
    descr = dict(op=op, u=ut, v=vt, xa=xa, xb=xb if op not in ('neg', 'pow') else None, side=case.get('side'),
                 exponent=(case.get('n'), case.get('d'), case['kind']) if op == 'pow' else None)
    fp = '%s|%s|%s|%s|%s|%s|%s' % (op, ut, vt, case['kind'], case.get('side'), (case.get('n'), case.get('d')), case.get('numtype') if number_b else '')
    nontriv = (vt is not None and vt != ut) or left or op == 'pow' or case['kind'] == 'cancel'
    if refuse:
        mon['refusals_demanded'] = 1
        if exc is None:
            devs.append(dev('sum-of-different-dimensions-accepted', dict(descr, result=srepr(res)[:100])))
        return outcome(classes=classes, nontrivial=True, fp=fp, dev=devs, monitors=mon, sample=dict(descr, expected='error', observed=repr(exc)[:100]))
    if exc is not None and isinstance(exc, OverflowError) and expU is not None:
        # the factor of ONE unit of the result leaves the float range although the total does not: not a verdict
        import math as _m
        for (pp, uu), ee in expU.items():
            try:
                f1 = T.atom(pp, uu)[0]
                if f1 > 0 and abs(_m.log10(f1) * float(ee)) > 300:
                    return outcome(skip='overflow-in-single-unit-factor')
            except Exception:
                return outcome(skip='overflow-in-single-unit-factor')
    if exc is not None:
        known = None
        if number_b and left and case.get('numtype') in ('np.float64', 'np.int', 'ndarray') and isinstance(exc, AttributeError) \
                and "has no attribute 'magnitude'" in str(exc):
            known = KEY_NPLEFT
        devs.append(dev('valid-operation-raised', dict(descr, numtype=case.get('numtype'), exc='%s: %s' % (type(exc).__name__, str(exc)[:150])), known=known))
        return outcome(classes=classes, nontrivial=nontriv, fp=fp, dev=devs, monitors=mon, sample=descr)
    # result re-expressed in base dimensions through the model factor of its reported units
    r_um = U.unitmap_from_real(res.baseunits)
    try:
        Fr_, Dr_ = factor_of_map(T, r_um)
        if not (Fr_ > 0 and 1e-300 < Fr_ < 1e300):
            return outcome(skip='overflow-in-single-unit-factor')      # the model factor of the reported units leaves the float range
    except (OverflowError, ZeroDivisionError):
        return outcome(skip='overflow-in-single-unit-factor')
    except Exception as e_:
        devs.append(dev('result-units-unknown-to-tables', dict(descr, units=res.units(), exc=repr(e_)[:100])))
        return outcome(classes=classes, nontrivial=nontriv, fp=fp, dev=devs, monitors=mon, sample=descr)
    rv = res.magnitude.value
    rv = [float(z) for z in (rv.tolist() if hasattr(rv, 'tolist') and getattr(rv, 'ndim', 0) else [rv])]
    obsB = [z * Fr_ for z in rv]
    mon['base_value_compares'] = 1
    atol = 1e-9 * max(abs(z) for z in (Ba + Bb)) if op in ('add', 'sub') else 0.0
    ok = len(obsB) == len(expB) and all(close(o, e, 1e-9, atol) for o, e in zip(obsB, expB))
    d0 = len(devs)
    if not ok:
        devs.append(dev(op + '-base-value', dict(descr, observed_base=obsB, expected_base=expB, result=srepr(res)[:100])))
    mon['dimension_compares'] = 1
    realD = U.dims_from_real(res.baseunits.dimensions)
    if realD != expD or Dr_ != expD:
        devs.append(dev(op + '-dimensions', dict(descr, reported=U.fmt_dims(realD), of_reported_units=U.fmt_dims(Dr_), expected=U.fmt_dims(expD), result=srepr(res)[:100])))
    mon['unit_exponent_compares'] = 1
    if op in ('add', 'sub'):
        l_units = ((b.units() if b is not None else None) if left else a_units)
        if res.units() != l_units:
            devs.append(dev(op + '-result-units-not-left-operand', dict(descr, units=res.units(), left_units=l_units)))
    else:
        total_zero = not any(expD)
        nz = U.nonzero(expU)
        if total_zero and any(any(T.atom(p, u)[1]) for (p, u) in nz):
            classes.append('total-cancellation')
            # only dimensionless units may remain, dimensional ones are folded into the number
            bad = [k for k in r_um if any(T.atom(k[0], k[1])[1])]
            if bad:
                devs.append(dev(op + '-cancelled-units-not-dropped', dict(descr, units=res.units())))
        else:
            if len(nz) < len(expU):
                classes.append('partial-cancellation')
            if r_um != nz:
                devs.append(dev(op + '-unit-exponents', dict(descr, observed={''.join(k): str(v) for k, v in r_um.items()},
                                                              expected={''.join(k): str(v) for k, v in nz.items()})))
    # known mechanism: non-integer float exponent truncated towards zero by Fraction.__mul__
    if devs and op == 'pow' and case['kind'] == 'float' and case['d'] != 1:
        e = case['n'] / case['d']
        tw = {k: Fr(int(v.numerator * e), v.denominator) for k, v in mu[3].items()}
        try:
            twf, twd = factor_of_map(T, U.nonzero(tw))
            value_ok = all(close(z, x ** e, 1e-9) for z, x in zip(rv, xa))
            if value_ok and r_um == U.nonzero(tw) or (not any(twd) and value_ok):
                devs = [dev('float-exponent-truncated', dict(descr, result=srepr(res)[:80], units=res.units()), known=KEY_FLOATEXP)]
        except Exception:
            pass
    return outcome(classes=classes, nontrivial=nontriv, fp=fp, dev=devs, monitors=mon,
                   sample=dict(descr, result=srepr(res)[:80], expected_base=expB[:3], observed_base=obsB[:3]))


def pinned(ctx):
    return [(KEY_NPLEFT, dict(op='mul', u=['a', '', 'm', 1, 1], v=None, kind='number', xa=3.0, xb=2.0, arr=False, side='left', numtype='ndarray')),
            (KEY_NPLEFT, dict(op='add', u=['a', '', '%', 1, 1], v=None, kind='number', xa=3.0, xb=2.0, arr=False, side='left', numtype='np.float64')),
            (KEY_FLOATEXP, dict(op='pow', u=['a', '', 'm', 1, 1], v=None, kind='float', n=1, d=2, xa=4.0, xb=0, arr=False, side='operator')),
            (KEY_FLOATEXP, dict(op='pow', u=['a', '', 'm', 2, 1], v=None, kind='float', n=1, d=4, xa=4.0, xb=0, arr=False, side='np.power'))]
