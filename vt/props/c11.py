"""C11 - Number and mass fractions are normalised and mutually consistent.

Algebra over public outputs only.  With the amounts n_i as given (counts of a Substance, proportions of a Material; for
Norm.MASS_FRACTION the given mass fractions w_i, i.e. n_i = w_i/m_i) and the component masses m_i as reported by
data_components(quantity=False):   x_i = 100 n_i/sum(n),  X_i = 100 n_i m_i/sum(n m),  sum x = sum X = 100.
Differential twins: all proportions scaled by a common k in [1e-6,1e6] -> same x, X;  duality: a material given by
number fractions and the material given by its reported mass fractions under Norm.MASS_FRACTION -> same x, X.
"""
import math
from vt.core import outcome, dev
from vt.util import close, plain
from vt.refmodel import materials_ref as R

ID = 'C11'
LEVEL = 'exploration'
RTOL = 1e-9
RULE = ('random mixtures of 1..8 substances (random formula trees rendered to text, all 118 elements) with proportions '
        'log-uniform over 6 decades, as Material in Norm.NUMBER_FRACTION / Norm.MASS_FRACTION given as dict or as '
        '"<f> <formula>" string, and Substances (counts) given as formula or dict, natural and most-abundant isotopes; every '
        'case is also rebuilt with all proportions times a common k in [1e-6,1e6] and (materials) through the number<->mass '
        'duality; composites produced by Material+Material, Substance+Substance, k*Material and .add() (operands sharing '
        'components) are checked with the accumulated amounts.  non-trivial = >=2 components with pairwise different amounts*masses; distinct by (kind, norm, '
        'isotope mode, component texts, amounts, k)')
SHARDS = {'quick': 16, 'thorough': 16}
MIN_NONTRIVIAL = {'quick': 250, 'thorough': 8000}
TIME_CAP = {'quick': 300, 'thorough': 3600}
REQUIRED_CLASSES = ['material-number-fraction', 'material-mass-fraction', 'substance-counts', 'dict-form', 'string-form',
                    'natural', 'most-abundant', 'single-component', 'components>=5', 'proportion-span>=1e4',
                    'scaling-k<1', 'scaling-k>1', 'duality-number-to-mass', 'duality-mass-to-number',
                    'repeated-substance-in-string', 'composite-from-addition', 'composite-from-add-method',
                    'composite-from-number-times-material', 'string-amount-in-exponent-notation-without-decimal-point', 'composite-from-material-plus-substances', 'component-substance-of-a-material', 'substance-with-own-proportion', 'shared-component-accumulated', 'operands-rechecked-after-sum']
REQUIRED_MONITORS = ['mode_twin_tables', 'fraction_rows_checked', 'sum_rows_checked', 'scaling_twins_compared', 'duality_twins_compared',
                     'table_hygiene_checks']
ASSUMPTIONS = ['component masses m_i are taken from data_components() (their correctness is C10)',
               'inside a material string the substances are written in short notation (no explicit " + " / " * "), amounts as '
               'plain decimals or d.ddde+-xx',
               'for Norm.MASS_FRACTION the given proportions are mass fractions w_i, so the amount is n_i = w_i/m_i']
EXHAUSTIVE_SUBSPACES = {'quick': [], 'thorough': []}
NRANDOM = {'quick': 1000, 'thorough': 30000}


def setup():
    import warnings
    warnings.simplefilter('ignore')
    import scinumtools.materials as M
    from vt.monitors.tables import Hygiene
    T = R.load_tables()
    ctx = dict(M=M, T=T, hyg=Hygiene())
    selftest(ctx)
    return ctx


def selftest(ctx):
    """documented examples (materials.rst): '0.2 <H2O> 0.3 <NaCl>' -> x 40/60, X 17.047121/82.952879; air example"""
    T = ctx['T']

    def mass(f):
        c, i = R.expand(f)
        return R.totals(T, c, i, True)['mass']
    sp, fm = R.sp, R.fm
    mw, ms = mass(fm([sp('H', n=2), sp('O')])), mass(fm([sp('Na'), sp('Cl')]))
    x, X = expected_fractions([0.2, 0.3], [mw, ms], 'number')
    assert close(x[0], 40, 1e-12) and abs(X[0] - 17.047121) < 1e-6 and abs(X[1] - 82.952879) < 1e-6
    x, X = expected_fractions([0.2, 0.3], [mw, ms], 'mass')
    assert abs(x[0] - 68.381526) < 1e-6 and close(X[1], 60, 1e-12)
    masses = [mass(fm([sp('N', n=2)])), mass(fm([sp('O', n=2)])), mass(fm([sp('Ar')])), mass(fm([sp('C'), sp('O', n=2)]))]
    x, X = expected_fractions([78.084, 20.946, 0.934, 0.036], masses, 'number')
    assert all(abs(a - b) < 1e-6 for a, b in zip(X, [75.517607, 23.139564, 1.288131, 0.054698]))


def expected_fractions(p, m, norm):
    n = [a / b for a, b in zip(p, m)] if norm == 'mass' else list(p)
    sn = math.fsum(n)
    snm = math.fsum(a * b for a, b in zip(n, m))
    return [100 * a / sn for a in n], [100 * a * b / snm for a, b in zip(n, m)]


# ------------------------------------------------------------------------------------ cases

def amount_text(rng):
    """a positive amount as text; float(text) is the amount as given"""
    e = rng.uniform(-3, 3)
    v = 10 ** e
    r = rng.random()
    if r < 0.15:
        return '%d' % max(1, int(round(v)))
    if r < 0.75:
        t = ('%.6f' % v).rstrip('0')
        if t.endswith('.'):
            t += '0'
        if float(t) <= 0:
            t = '0.000001'
        return t
    if r < 0.88:
        return '%.3e' % v
    # exponent notation WITHOUT a decimal point in the mantissa (what repr() prints for 2e-05), also with a capital E
    m, ex = rng.randint(1, 9), rng.choice([-5, -4, -3, -2, 2, 3])
    return rng.choice(['%de%+03d', '%de%d', '%dE%+03d', '%d.e%d']) % (m, ex)


def cases(rng, tier, shard, nshards, ctx):
    T = ctx['T']
    n = NRANDOM[tier] // nshards
    for j in range(n):
        natural = rng.random() < 0.5
        k = 10 ** rng.uniform(-6, 6)
        k = float('%.6g' % k)
        if rng.random() < 0.18:
            yield gen_arith(rng, T, natural, k)
            continue
        if rng.random() < 0.2:
            yield dict(t='substance', natural=natural, k=k, form=rng.choice(['string', 'dict']),
                       f=R.gen_formula(rng, T, dict(maxdepth=2, maxitems=5, avoid_known=True)))
            continue
        ncomp = rng.choice([1, 2, 2, 3, 3, 4, 5, 6, 8])
        form = rng.choice(['dict', 'string'])
        opts = dict(maxdepth=1, maxitems=3, pgroup=0.25, avoid_known=True, noplus=(form == 'string'))
        comps, seen = [], set()
        while len(comps) < ncomp:
            f = R.gen_formula(rng, T, opts)
            tx = R.render(f)
            if tx in seen:
                continue
            seen.add(tx)
            comps.append([f, amount_text(rng)])
        if form == 'string' and ncomp >= 2 and rng.random() < 0.15:
            comps.append([comps[0][0], amount_text(rng)])          # the same substance twice: amounts add up
        yield dict(t='material', norm=rng.choice(['number', 'mass']), natural=natural, form=form, comps=comps, k=k,
                   tight=rng.random() < 0.2)


def gen_arith(rng, T, natural, k):
    """composites that are the *result* of an operation; the operands share at least one component"""
    if rng.random() < 0.35:
        opts = dict(maxdepth=1, maxitems=3, avoid_known=True)
        f = R.gen_formula(rng, T, opts)
        g = R.gen_formula(rng, T, opts)
        shared = R.all_species(f)[0]
        extra = dict(shared); extra['n'] = R.gen_count(rng); extra['cf'] = 'n' if extra['n'] == 1 else 'i'
        g = R.fm([extra] + g['items'], [''] + g['seps']) if g['items'] else R.fm([extra])
        R._avoid_known(g)
        return dict(t='arith', kind='substance', op=rng.choice(['add', 'add', 'addmethod']), natural=natural, f=f, g=g,
                    el=R.gen_species(rng, T), n=R.gen_count(rng))
    opts = dict(maxdepth=1, maxitems=3, pgroup=0.25, avoid_known=True)
    pool, seen = [], set()
    while len(pool) < rng.choice([2, 3, 4, 5]):
        f = R.gen_formula(rng, T, opts)
        if R.render(f) not in seen:
            seen.add(R.render(f))
            pool.append(f)
    na = rng.randint(1, len(pool))
    a = [[f, amount_text(rng)] for f in pool[:na]]
    b = [[f, amount_text(rng)] for f in pool[rng.randint(0, na - 1):]]
    return dict(t='arith', kind='material', op=rng.choice(['add', 'add', 'rmul', 'addmethod', 'add-substances', 'add-substances']), norm=rng.choice(['number', 'mass']),
                natural=natural, a=a, b=b, k=k)


# ------------------------------------------------------------------------------------ oracle

def read_composite(obj, amount_col):
    """-> (order, amounts reported, masses reported, x, X, sum row) from the public tables"""
    from vt.props import mat_modes
    mat_modes.check(obj)        # both reading modes of the tables (plain numbers / default Quantity cells) agree
    dc = obj.data_components(quantity=False)
    ds = obj.data_composite(quantity=False)
    order, amt, mass, x, X = [], {}, {}, {}, {}
    for k, v in dc.items():
        d = v.data()
        order.append(k)
        amt[k] = plain(d[amount_col])
        mass[k] = plain(d['mass'])
    srow = None
    for k, v in ds.items():
        d = v.data()
        if k == 'sum':
            srow = dict(x=plain(d['x']), X=plain(d['X']))
        elif k != 'avg':
            x[k] = plain(d['x'])
            X[k] = plain(d['X'])
    return order, amt, mass, x, X, srow


def check_fractions(tag, given, norm, obs, devs, mon):
    """given: {text: amount as given}; obs from read_composite"""
    order, amt, mass, x, X, srow = obs
    if set(order) != set(given) or set(x) != set(given):
        devs.append(dev(tag + 'components-differ', dict(reported=order, rows=list(x), given=list(given))))
        return False
    bad = {k: (amt[k], given[k]) for k in given if not close(amt[k], given[k], RTOL)}
    if bad:
        devs.append(dev(tag + 'amount-not-as-given', dict(reported_vs_given=bad)))
        return False
    keys = list(given)
    ex, eX = expected_fractions([given[k] for k in keys], [mass[k] for k in keys], norm)
    ok = True
    for k, a, b in zip(keys, ex, eX):
        mon['fraction_rows_checked'] += 1
        if not close(x[k], a, RTOL):
            devs.append(dev(tag + 'x-not-proportional-to-amount', dict(component=k, observed=x[k], expected=a, norm=norm)))
            ok = False
        if not close(X[k], b, RTOL):
            devs.append(dev(tag + 'X-not-proportional-to-amount-times-mass', dict(component=k, observed=X[k], expected=b, norm=norm)))
            ok = False
    sx, sX = math.fsum(x.values()), math.fsum(X.values())
    mon['sum_rows_checked'] += 1
    if not close(sx, 100, RTOL) or not close(sX, 100, RTOL):
        devs.append(dev(tag + 'fractions-do-not-sum-to-100', dict(sum_x=sx, sum_X=sX)))
        ok = False
    if srow is None or not close(srow['x'], 100, RTOL) or not close(srow['X'], 100, RTOL):
        devs.append(dev(tag + 'sum-row-not-100', dict(sum_row=srow)))
        ok = False
    return ok


def same_fractions(tag, a, b, devs, what):
    """x, X of two objects that must agree"""
    _, _, _, xa, Xa, _ = a
    _, _, _, xb, Xb, _ = b
    if set(xa) != set(xb):
        devs.append(dev(tag + '-components-differ', dict(a=list(xa), b=list(xb))))
        return
    for k in xa:
        if not close(xa[k], xb[k], RTOL):
            devs.append(dev(tag + '-changes-x', dict(component=k, base=xa[k], twin=xb[k], **what)))
            return
        if not close(Xa[k], Xb[k], RTOL):
            devs.append(dev(tag + '-changes-X', dict(component=k, base=Xa[k], twin=Xb[k], **what)))
            return


def normalised(tag, obs, devs, mon):
    """x and X of ANY composite each sum to 100 % (rows and the 'sum' row)"""
    _, _, _, x, X, srow = obs
    sx, sX = math.fsum(x.values()), math.fsum(X.values())
    mon['sum_rows_checked'] += 1
    if not close(sx, 100, RTOL) or not close(sX, 100, RTOL) or srow is None or not close(srow['x'], 100, RTOL) or not close(srow['X'], 100, RTOL):
        devs.append(dev(tag + '-fractions-do-not-sum-to-100', dict(sum_x=sx, sum_X=sX, sum_row=srow)))
        return False
    return True


def _finish(ctx, out):
    leak = ctx['hyg'].check_restore()
    out['monitors']['table_hygiene_checks'] = out['monitors'].get('table_hygiene_checks', 0) + 1
    out['monitors']['table_leaks_restored'] = out['monitors'].get('table_leaks_restored', 0) + (1 if leak else 0)
    return out


def substances_ok(M, texts, natural):
    """is every component formula accepted on its own?  (a rejected formula is C10's business, not C11's)"""
    for t in texts:
        try:
            M.Substance(t, natural=natural)
        except Exception as e:
            return '%s: %r' % (t, e)
    return None


class CUT(Exception):
    """an exception raised by the code under test where the property needs a result"""


def cut(what, fn):
    try:
        return fn()
    except Exception as e:
        raise CUT(what, e)


def run_case(case, ctx):
    from vt.props import mat_modes
    return mat_modes.drain(_run_case_outer(case, ctx))


def _run_case_outer(case, ctx):
    mon = dict(fraction_rows_checked=0, sum_rows_checked=0, scaling_twins_compared=0, duality_twins_compared=0)
    devs, classes = [], set()
    try:
        return _run_case(case, ctx, classes, mon, devs)
    except CUT as c:
        what, e = c.args
        devs.append(dev('%s-raises:%s' % (what, type(e).__name__), dict(exc=repr(e)[:300])))
        return _finish(ctx, outcome(classes=sorted(classes), nontrivial=False, fp=repr(case)[:400], dev=devs, monitors=mon,
                                    sample=dict(case=case['t'], deviations=[d['mech'] for d in devs])))


def _run_case(case, ctx, classes, mon, devs):
    M, T = ctx['M'], ctx['T']
    natural, k = case['natural'], case.get('k', 1.0)
    classes.add('natural' if natural else 'most-abundant')
    if case['t'] == 'arith':
        return _finish(ctx, run_arith(case, ctx, classes, mon, devs))
    classes.add('scaling-k<1' if k < 1 else 'scaling-k>1')
    if case['t'] == 'substance':
        return _finish(ctx, run_substance(case, ctx, classes, mon, devs))
    norm = case['norm']
    NORM = M.Norm.NUMBER_FRACTION if norm == 'number' else M.Norm.MASS_FRACTION
    classes.add('material-number-fraction' if norm == 'number' else 'material-mass-fraction')
    classes.add(case['form'] + '-form')
    texts = [R.render(f) for f, _ in case['comps']]
    for f, _ in case['comps']:
        c, idents = R.expand(f)
        if any(R.ident_data(T, i, natural) is None for i in idents.values()):
            return _finish(ctx, outcome(skip='species-without-defined-data'))
    given = {}
    for t, (f, a) in zip(texts, case['comps']):
        given[t] = given.get(t, 0.0) + float(a)
    import re as _re
    if case['form'] == 'string' and any(_re.match(r'^\d+\.?[eE]', str(a)) for _, a in case['comps']):
        classes.add('string-amount-in-exponent-notation-without-decimal-point')
    if len(given) < len(texts):
        classes.add('repeated-substance-in-string')
    if len(given) == 1:
        classes.add('single-component')
    if len(given) >= 5:
        classes.add('components>=5')
    if max(given.values()) / min(given.values()) >= 1e4:
        classes.add('proportion-span>=1e4')
    if case['form'] == 'dict':
        spec = {t: float(a) for t, (f, a) in zip(texts, case['comps'])}
        shown = spec
    else:
        sep = '' if case.get('tight') else ' '
        spec = ' '.join('%s%s<%s>' % (a, sep, t) for t, (f, a) in zip(texts, case['comps']))
        shown = spec
    sample = dict(kind='material', norm=norm, natural=natural, spec=shown, k=k)
    fp = 'material|%s|%s|%r|%r' % (norm, natural, shown, k)
    try:
        A = M.Material(spec, natural=natural, norm_type=NORM)
        obsA = read_composite(A, 'fraction')
    except Exception as e:
        why = substances_ok(M, texts, natural)
        if why:
            return _finish(ctx, outcome(skip='component formula rejected (C10 domain)'))
        devs.append(dev('material-construction-raises:' + type(e).__name__, dict(spec=shown, exc=repr(e)[:300])))
        return _finish(ctx, outcome(classes=sorted(classes), nontrivial=False, fp=fp, dev=devs, monitors=mon, sample=sample))
    ok = check_fractions('', given, norm, obsA, devs, mon)
    order, amt, mass, x, X, srow = obsA
    sample.update(masses=mass, observed_x=x, observed_X=X, sum_row=srow)
    if ok:
        ex, eX = expected_fractions([given[t] for t in given], [mass[t] for t in given], norm)
        sample.update(expected_x=dict(zip(given, ex)), expected_X=dict(zip(given, eX)))
        # ---- the substances the material holds are composites of their own ("for every composite"): each carries its amount in
        # the material as its own proportion, and its element table is that of the same formula standing alone
        classes.add('component-substance-of-a-material')
        for t in list(given)[:4]:
            held = A.components.get(t)
            if held is None or not hasattr(held, 'data_composite'):
                continue
            oh = cut('component-substance-tables', lambda: read_composite(held, 'count'))
            oa = cut('standalone-substance-tables', lambda: read_composite(M.Substance(t, natural=natural), 'count'))
            mon['component_substances_read'] = mon.get('component_substances_read', 0) + 1
            if normalised('component-substance', oh, devs, mon):
                same_fractions('component-substance-differs-from-the-formula-alone', oa, oh, devs, dict(component=t, proportion=plain(held.proportion)))
        # ---- scaling twin
        obsB = cut('scaled-material', lambda: read_composite(
            M.Material({t: k * a for t, a in given.items()}, natural=natural, norm_type=NORM), 'fraction'))
        mon['scaling_twins_compared'] += 1
        same_fractions('scaling', obsA, obsB, devs, dict(k=k, norm=norm))
        # ---- duality twin
        if norm == 'number':
            classes.add('duality-number-to-mass')
            D = lambda: M.Material({t: X[t] for t in given}, natural=natural, norm_type=M.Norm.MASS_FRACTION)
            tag = 'duality-number-to-mass'
        else:
            classes.add('duality-mass-to-number')
            D = lambda: M.Material({t: x[t] for t in given}, natural=natural, norm_type=M.Norm.NUMBER_FRACTION)
            tag = 'duality-mass-to-number'
        obsD = cut('dual-material', lambda: read_composite(D(), 'fraction'))
        mon['duality_twins_compared'] += 1
        same_fractions(tag, obsA, obsD, devs, dict(norm=norm))
        sample.update(dual_x=obsD[3], dual_X=obsD[4])
    prods = sorted((given[t] if norm == 'mass' else given[t] * mass[t]) for t in given)
    nontrivial = len(given) >= 2 and all(not close(a, b, 1e-6) for a, b in zip(prods, prods[1:]))
    if devs:
        sample['deviations'] = [d['mech'] for d in devs]
    return _finish(ctx, outcome(classes=sorted(classes), nontrivial=nontrivial, fp=fp, dev=devs, monitors=mon, sample=sample))


def run_substance(case, ctx, classes, mon, devs):
    M, T = ctx['M'], ctx['T']
    natural, k, f = case['natural'], case['k'], case['f']
    classes.add('substance-counts')
    classes.add(case['form'] + '-form')
    text = R.render(f)
    counts, idents = R.expand(f)
    if any(R.ident_data(T, i, natural) is None for i in idents.values()):
        return outcome(skip='species-without-defined-data')
    fp = 'substance|%s|%s|%s|%r' % (case['form'], natural, text, k)
    sample = dict(kind='substance', form=case['form'], formula=text, natural=natural, counts=counts, k=k)
    try:
        A = M.Substance(text if case['form'] == 'string' else dict(counts), natural=natural)
    except Exception as e:
        return outcome(skip='component formula rejected (C10 domain)')
    obsA = cut('substance-tables', lambda: read_composite(A, 'count'))
    given = {t: float(c) for t, c in counts.items()}
    if len(given) == 1:
        classes.add('single-component')
    if len(given) >= 5:
        classes.add('components>=5')
    ok = check_fractions('substance:', given, 'number', obsA, devs, mon)
    order, amt, mass, x, X, srow = obsA
    sample.update(masses=mass, observed_x=x, observed_X=X, sum_row=srow)
    if ok:
        ex, eX = expected_fractions([given[t] for t in given], [mass[t] for t in given], 'number')
        sample.update(expected_x=dict(zip(given, ex)), expected_X=dict(zip(given, eX)))
        obsB = cut('substance*k', lambda: read_composite(A * k, 'count'))
        mon['scaling_twins_compared'] += 1
        same_fractions('substance-scaling(*k)', obsA, obsB, devs, dict(k=k))
        obsC = cut('scaled-substance', lambda: read_composite(M.Substance({t: k * c for t, c in given.items()}, natural=natural), 'count'))
        mon['scaling_twins_compared'] += 1
        same_fractions('substance-scaling(dict)', obsA, obsC, devs, dict(k=k))
        # the substance given an amount of its own (what it has as a component of a material): its element table does not change
        classes.add('substance-with-own-proportion')
        obsP = cut('substance-with-proportion', lambda: read_composite(
            M.Substance(text if case['form'] == 'string' else dict(counts), natural=natural, proportion=k), 'count'))
        mon['scaling_twins_compared'] += 1
        if normalised('substance-with-own-proportion', obsP, devs, mon):
            same_fractions('substance-own-proportion', obsA, obsP, devs, dict(k=k))
    prods = sorted(given[t] * mass[t] for t in given) if set(mass) == set(given) else []
    nontrivial = len(given) >= 2 and all(not close(a, b, 1e-6) for a, b in zip(prods, prods[1:]))
    if devs:
        sample['deviations'] = [d['mech'] for d in devs]
    return outcome(classes=sorted(classes), nontrivial=nontrivial, fp=fp, dev=devs, monitors=mon, sample=sample)


def run_arith(case, ctx, classes, mon, devs):
    """x and X of composites that come out of +, k* and .add(): amounts accumulate, the fractions must follow"""
    M, T = ctx['M'], ctx['T']
    natural, op = case['natural'], case['op']
    if case['kind'] == 'substance':
        classes.add('substance-counts')
        ca, ia = R.expand(case['f'])
        cb, ib = R.expand(case['g'])
        ids = dict(ia); ids.update(ib)
        et = R.species_text(case['el'])
        if op == 'addmethod':
            ids[et] = R.species_ident(case['el'])
        if any(R.ident_data(T, i, natural) is None for i in ids.values()):
            return outcome(skip='species-without-defined-data')
        ta, tb = R.render(case['f']), R.render(case['g'])
        try:
            A, B = M.Substance(ta, natural=natural), M.Substance(tb, natural=natural)
        except Exception:
            return outcome(skip='component formula rejected (C10 domain)')
        given = {t: float(c) for t, c in ca.items()}
        if op == 'add':
            classes.add('composite-from-addition')
            C = cut('substance+substance', lambda: A + B)
            for t, c in cb.items():
                given[t] = given.get(t, 0.0) + c
            shown = '%s + %s' % (ta, tb)
        else:
            classes.add('composite-from-add-method')
            first = list(ca)[0]
            cut('substance.add', lambda: (A.add(et, case['n']), A.add(first, case['n'])))
            C = A
            given[et] = given.get(et, 0.0) + case['n']
            given[first] = given.get(first, 0.0) + case['n']
            shown = 'Substance(%r).add(%r,%d).add(%r,%d)' % (ta, et, case['n'], first, case['n'])
        classes.add('shared-component-accumulated')
        col, norm, tag = 'count', 'number', 'substance-result:'
    else:
        norm = case['norm']
        NORM = M.Norm.NUMBER_FRACTION if norm == 'number' else M.Norm.MASS_FRACTION
        classes.add('material-number-fraction' if norm == 'number' else 'material-mass-fraction')
        for f, _ in case['a'] + case['b']:
            if any(R.ident_data(T, i, natural) is None for i in R.expand(f)[1].values()):
                return outcome(skip='species-without-defined-data')
        da = {R.render(f): float(a) for f, a in case['a']}
        db = {R.render(f): float(a) for f, a in case['b']}
        why = substances_ok(M, list(da) + list(db), natural)
        if why:
            return outcome(skip='component formula rejected (C10 domain)')
        A = cut('material-construction', lambda: M.Material(dict(da), natural=natural, norm_type=NORM))
        given = dict(da)
        if op == 'add':
            classes.add('composite-from-addition')
            C = cut('material+material', lambda: A + M.Material(dict(db), natural=natural, norm_type=NORM))
            for t, c in db.items():
                given[t] = given.get(t, 0.0) + c
            if set(da) & set(db):
                classes.add('shared-component-accumulated')
            shown = 'Material(%r) + Material(%r)' % (da, db)
        elif op == 'add-substances':
            # the Python-level sum of a material and SUBSTANCES, each carrying its amount as its own proportion: a component of
            # that amount joins (or tops up) the mixture - the substance is one component, not a bag of its elements
            classes.add('composite-from-material-plus-substances')
            C = A
            for t, c in db.items():
                C = cut('material+substance', lambda: C + M.Substance(t, natural=natural, proportion=c))
                given[t] = given.get(t, 0.0) + c
            if set(da) & set(db):
                classes.add('shared-component-accumulated')
            shown = 'Material(%r) + %s' % (da, ' + '.join('Substance(%r, proportion=%r)' % (t, c) for t, c in db.items()))
        elif op == 'rmul':
            classes.add('composite-from-number-times-material')
            C = cut('number*material', lambda: case['k'] * A)
            given = {t: case['k'] * c for t, c in da.items()}
            shown = '%r * Material(%r)' % (case['k'], da)
        else:
            classes.add('composite-from-add-method')
            for t, c in db.items():
                cut('material.add', lambda: A.add(t, c))
                given[t] = given.get(t, 0.0) + c
            if set(da) & set(db):
                classes.add('shared-component-accumulated')
            C = A
            shown = 'Material(%r).add(..%r)' % (da, db)
        col, tag = 'fraction', 'material-result:'
    obs = cut('result-tables', lambda: read_composite(C, col))
    check_fractions(tag, given, norm, obs, devs, mon)
    if op == 'add':
        # the operands of a sum must still describe the mixtures they were built from (x and X normalised, proportional)
        classes.add('operands-rechecked-after-sum')
        own_a = {t: float(c) for t, c in ca.items()} if case['kind'] == 'substance' else dict(da)
        check_fractions('left-operand-after-sum:', own_a, norm, cut('left-operand-tables', lambda: read_composite(A, col)), devs, mon)
        if case['kind'] == 'substance':
            check_fractions('right-operand-after-sum:', {t: float(c) for t, c in cb.items()}, norm,
                            cut('right-operand-tables', lambda: read_composite(B, col)), devs, mon)
        # ... also after the RESULT is extended in place by a component the left operand holds
        first = list(own_a)[0]
        cut('result.add', lambda: C.add(first, 2 if case['kind'] == 'substance' else 0.25))
        check_fractions('left-operand-after-result-add:', own_a, norm, cut('left-operand-tables', lambda: read_composite(A, col)), devs, mon)
    order, amt, mass, x, X, srow = obs
    sample = dict(kind=case['kind'] + ' ' + op, natural=natural, norm=norm, expression=shown, accumulated_amounts=given,
                  masses=mass, observed_x=x, observed_X=X, sum_row=srow)
    if set(mass) == set(given):
        ex, eX = expected_fractions([given[t] for t in given], [mass[t] for t in given], norm)
        sample.update(expected_x=dict(zip(given, ex)), expected_X=dict(zip(given, eX)))
    if devs:
        sample['deviations'] = [d['mech'] for d in devs]
    return outcome(classes=sorted(classes), nontrivial=len(given) >= 2, fp='arith|%s|%s|%s' % (natural, norm, shown), dev=devs,
                   monitors=mon, sample=sample)


def pinned(ctx):
    return []
