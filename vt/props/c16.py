"""C16 — parse() returns only environments that satisfy every declared constraint.

Monitor 1: generated constraint programs (vt.refmodel.dip_ref_c16) with final values exactly on, within 1e-9 of,
or >= 1e-3 (relative) off every boundary; an independent three-valued evaluator (exact fractions, own unit table)
decides accept / reject; the real parser sees only the rendered text.  Both directions are verdicts.
Monitor 2: icontract post-condition on the real DIP.parse: every node of every returned environment is re-checked
against the constraints stored on it (options, condition, format, dimension, declared) by the same evaluator.
"""
from vt.core import outcome, dev
from vt.util import exc_sig
from vt.refmodel import dip_ref_c16 as R
from vt.refmodel.dip_ref_c15 import StepBudget, StepBudgetExceeded

ID = 'C16'
LEVEL = 'exploration'
RULE = ('programs of 1-3 nodes; every node carries a combination of option lists (per-line and !options list form, '
        'with units from a hard-coded exact table), numeric / boolean / string !condition on {?}, anchored !format, '
        'dimension bounds or a bare declaration; the final value (after 0-2 modifications, possibly in another unit) '
        'lies exactly on, within 1e-9 of, or >= 1e-3 relative off each boundary, magnitudes >= 1e-3; expected verdict '
        'from an independent evaluator; non-trivial = program with at least one constraint whose boundary the final '
        'value touches or misses (i.e. every generated program except bare declarations); distinct by rendered text')
SHARDS = {'quick': 16, 'thorough': 16}
MIN_NONTRIVIAL = {'quick': 2000, 'thorough': 50000}
REQUIRED_CLASSES = ['edge:constraint-in-an-offset-or-logarithmic-unit', 'edge:offset-constraint:condition', 'edge:offset-constraint:option-int', 'edge:value-rank-versus-declared-dimensions', 'edge:rank:vector-for-matrix', 'edge:rank:control-matrix-inside', 'edge:bare-number-in-condition', 'edge:bare-number-accept', 'edge:bare-number-reject', 'edge:bare-number:node-then-bare', 'format-on-empty-string-violated', 'staged-base', 'staged-base:inherited-condition-violated-through-another-node', 'edge:int-options-in-another-unit', 'edge:int-option-member', 'edge:int-option-non-member', 'edge:constraint-on-imported-copy', 'edge:import-condition', 'edge:import-format', 'edge:import-options', 'edge:import-remote', 'foreign-workload:C13', 'foreign-workload:C14', 'foreign-workload:C17', 'foreign-workload:C18', 'edge:sliced-injection-into-bounded-array', 'edge:slice-within-bounds', 'edge:slice-outside-bounds', 'expected-accept', 'expected-reject', 'option-per-line', 'option-list-form', 'option-in-other-unit',
                    'option-on', 'option-near', 'option-all-off', 'str-option-member', 'str-option-not-member',
                    'cond-le-on', 'cond-le-near', 'cond-lt-on', 'cond-ge-above', 'cond-eq-near', 'cond-ne-on',
                    'condition-compound', 'condition-constant-in-other-unit', 'bool-condition-satisfied',
                    'bool-condition-violated', 'str-condition-satisfied', 'str-condition-violated', 'format-match',
                    'format-violated', 'dimension-bounds', 'dimension-on-bound', 'dimension-just-outside',
                    'dimension-2d', 'declared-without-value', 'declared-then-assigned', 'modified',
                    'final-value-in-other-unit', 'combination-of-constraint-kinds', 'int-node-fractional-constant']
REQUIRED_MONITORS = ['foreign_workload_cases', 'parses', 'parse_postcondition_evaluations', 'postcondition_node_checks', 'step_budget_guarded_parses']
ASSUMPTIONS = ['unanchored formats, values inside the tolerance band (1e-8 .. 1e-4 relative), strict comparisons and != '
               'on a boundary reached through a unit conversion, and comparisons of plain numbers with dimensional '
               'values are not generated (the statement does not fix them)',
               'only the final value is constrained (intermediate assignments may violate the constraints)',
               'unit factors mm, cm, m, km, g, kg, s, ms are exact powers of ten (hard-coded, not read from the repository)',
               'python re is trusted for anchored patterns; "parsing fails" = parse() raises any exception',
               'option lists are rendered in tight JSON form with double quotes (the single-quoted / loose lists shown in '
               'docs/source/dip/syntax/properties.rst are not accepted by the parser)']
EXHAUSTIVE_SUBSPACES = {'quick': [], 'thorough': []}
NPROG = {'quick': 4800, 'thorough': 110000}

_uid = [0]


def setup():
    import warnings
    warnings.filterwarnings('ignore')
    from scinumtools.dip import DIP
    from vt.monitors.tables import Hygiene
    R.attach_parse_contract('record')
    from scinumtools.dip import DIP as D2
    return dict(DIP=D2, hyg=Hygiene(), steps=StepBudget(), nodechecks=0)


def cases(rng, tier, shard, nshards, ctx):
    if tier == 'thorough' and shard == nshards - 1:
        yield dict(t='repotests')
    from vt.props import dip_edge
    # the workloads of the other DIP checks, run under the parse post-condition (one batch per check and shard)
    for pid in ('C13', 'C14', 'C17', 'C18'):
        if (('C13', 'C14', 'C17', 'C18').index(pid) + shard) % 4 == 0 or tier == 'thorough':
            yield dict(t='foreign', pid=pid, seed=rng.randrange(1 << 30), n=40 if tier == 'quick' else 500)
    for i in range(NPROG[tier] // nshards):
        yield R.gen_program(rng)
        if i % 8 == 0:
            yield dip_edge.gen_c16(rng)
        if i % 8 == 4:
            yield dip_edge.gen_c16_import(rng)
        if i % 8 == 6:
            yield dip_edge.gen_c16_intopt(rng)
        if i % 8 == 1:
            yield dip_edge.gen_c16_bare(rng)
        if i % 8 == 3:
            yield dip_edge.gen_c16_rank(rng)
        if i % 8 == 5:
            yield dip_edge.gen_c16_offset(rng)
        if i % 8 == 2:
            # programs parsed on top of a base environment: constraints sitting on INHERITED nodes still hold in what is returned
            from vt.props import c17_base
            c = c17_base.gen(rng)
            c['base'] = rng.choice(['nodes', 'nodes-and-units'])
            yield dict(edge='c16-staged-base', stbase=c)


def run_real(text, ctx):
    _uid[0] += 1
    keep = []
    steps = ctx['steps']

    def go():
        p = ctx['DIP'](name='c16n%d' % _uid[0])
        keep.append(p)
        p.add_string(text)
        env = p.parse()
        keep.append(env)
        return env
    try:
        env = steps.run(go)
    except StepBudgetExceeded:
        return ('budget', steps.count), keep
    except Exception as e:
        return ('exc', type(e).__name__, [str(a)[:160] for a in e.args[:2]]), keep
    steps.accepted()
    return ('env', env), keep


def _reject_kind(obs):
    t, args = obs[1], obs[2]
    a0 = args[0] if args else ''
    if t == 'Exception':
        if "doesn't match with any option" in a0:
            return 'options'
        if a0.startswith('Node does not fullfil a condition'):
            return 'condition'
        if a0.startswith('Node value does not match the format'):
            return 'format'
        if 'has invalid dimension' in a0:
            return 'dimension'
        if a0.startswith('Node value must be defined'):
            return 'defined'
        return 'other-exception'
    return 'crash-' + t


def _toplevel_eq(c):
    while c['e'] == 'not':
        c = c['a']
    return c['e'] == 'cmp' and c['op'] == '=='


def judge(prog, exp, bad, obs):
    """exp in accept / reject; bad = violated constraints by the evaluator"""
    if obs[0] == 'budget':
        return [dev('no-result-within-step-budget', dict(steps=obs[1]))]
    nodes = {nd['name']: nd for nd in prog['nodes']}
    if exp == 'reject' and obs[0] == 'env':
        kinds = sorted(set(k for _, k in bad))
        used = {}
        for n, k in bad:
            nd = nodes[n]
            if k == 'condition' and nd['ty'] in ('bool', 'str'):
                # known: conditions are only evaluated for int / float nodes
                used[R.KEY_COND_IGNORED] = 'wrongly-accepted:condition-on-bool-or-str'
            elif k == 'condition' and nd['ty'] == 'int' and all(
                    True in R.twin_truths(p['c'], 'int', R.final_value(nd), nd.get('unit'))
                    for p in nd['props'] if p['p'] == 'cond'):
                # known: constants of a condition on an int node are cast to int before the comparison (twin evaluation)
                used[R.KEY_INT_TRUNC] = 'wrongly-accepted:int-condition-constant-cast-to-int'
            else:
                return [dev('wrongly-accepted:' + '+'.join(kinds), dict(violated=bad))]
        return [dev(m, dict(violated=bad), known=k) for k, m in sorted(used.items())]
    if exp == 'accept' and obs[0] == 'exc':
        kind = _reject_kind(obs)
        msg = ' '.join(obs[2])
        conds = [(nd, p['c']) for nd in prog['nodes'] for p in nd['props'] if p['p'] == 'cond']
        if kind == 'crash-AttributeError' and ("'numpy.bool_' object has no attribute" in msg or
                                                "'bool' object has no attribute" in msg) \
                and any(_toplevel_eq(c) for _, c in conds):
            return [dev('wrongly-rejected:equality-condition-crashes', dict(exc=obs[1:]), known=R.KEY_EQ_BARE_BOOL)]
        if kind == 'crash-ValueError' and 'truth value of an array' in msg and \
                any(nd.get('dims') and any(_count(m['v']) > 1 for m in nd['mods']) for nd in prog['nodes']):
            return [dev('wrongly-rejected:array-modification-crashes', dict(exc=obs[1:]), known=R.KEY_ARRAY_MOD)]
        intconds = [(nd, c) for nd, c in conds if nd['ty'] == 'int' and not nd.get('dims')]
        if kind == 'crash-ValueError' and 'invalid literal for int() with base 10' in msg and \
                any(_has_fractional_constant(c) for _, c in intconds):
            # same mechanism, other symptom: a non-integral literal in the node's own unit is passed to int()
            return [dev('wrongly-rejected:int-condition-constant-cast-to-int', dict(exc=obs[1:]), known=R.KEY_INT_TRUNC)]
        if kind == 'condition':
            # twin of the int cast: a satisfied condition is judged violated with truncated constants
            failing = obs[2][1] if len(obs[2]) > 1 else None       # the exception names the node
            for nd, c in intconds:
                if nd['name'] == failing and False in R.twin_truths(c, 'int', R.final_value(nd), nd.get('unit')):
                    return [dev('wrongly-rejected:int-condition-constant-cast-to-int', dict(exc=obs[1:]), known=R.KEY_INT_TRUNC)]
        return [dev('wrongly-rejected:' + kind, dict(exc=obs[1:]))]
    return []


def _has_fractional_constant(c):
    if c['e'] == 'cmp':
        try:
            return R.frac(c['c']).denominator != 1
        except Exception:
            return False
    if c['e'] == 'not':
        return _has_fractional_constant(c['a'])
    if c['e'] in ('and', 'or'):
        return _has_fractional_constant(c['a']) or _has_fractional_constant(c['b'])
    return False


def _count(v):
    if isinstance(v, list):
        return sum(_count(x) for x in v)
    return 1


def run_repo_tests(case, ctx):
    """the repository's own DIP tests, run on a scratch copy with the post-condition recording on DIP.parse"""
    import os, sys, json, shutil, tempfile, subprocess
    repo = os.environ.get('VERIF_REPO', '/repo')
    tmp = tempfile.mkdtemp(prefix='vt_c16_')
    try:
        shutil.copytree(os.path.join(repo, 'tests'), os.path.join(tmp, 'tests'))
        if os.path.isdir(os.path.join(repo, 'docs')):
            shutil.copytree(os.path.join(repo, 'docs'), os.path.join(tmp, 'docs'))
        rec = os.path.join(tmp, 'record.json')
        env = dict(os.environ, VT_C16_RECORD=rec)
        try:
            p = subprocess.run([sys.executable, '-m', 'pytest', '-q', '-p', 'no:cacheprovider', '-p',
                                'vt.props.c16_pytest_plugin', 'tests/dip'], cwd=tmp, env=env, capture_output=True,
                               text=True, timeout=900)
        except subprocess.TimeoutExpired:
            return outcome(skip='repository tests under contract did not finish (not a verdict)')
        if not os.path.exists(rec):
            return outcome(skip='repository tests under contract produced no record')
        data = json.load(open(rec))
    finally:
        shutil.rmtree(tmp, ignore_errors=True)
    devs = [dev('repo-tests:' + d['kind'], dict(node=d['node'], detail=d['detail']), known=d.get('known'))
            for d in data['deviations']]
    tail = (p.stdout or '').strip().splitlines()[-1:] or ['']
    return outcome(classes=['repo-tests-under-contract'], nontrivial=True, fp='repo tests under contract', dev=devs,
                   monitors={'parse_postcondition_evaluations': data['evaluations'], 'repo_tests_under_contract': 1},
                   sample=dict(text='pytest tests/dip with the C16 post-condition on DIP.parse (record mode)',
                               expected='no returned environment violates its constraints',
                               observed=dict(postcondition_evaluations=data['evaluations'],
                                             deviations=len(data['deviations']), pytest=tail[0])))


def run_foreign(case, ctx):
    import os, sys, json, subprocess
    p = subprocess.run([sys.executable, '-m', 'vt.props.c16_foreign', case['pid'], str(case['seed']), str(case['n'])],
                       capture_output=True, text=True, timeout=3000, env=dict(os.environ))
    line = [l for l in p.stdout.splitlines() if l.startswith('{')]
    if not line:
        raise RuntimeError('foreign workload %s produced no result: %s' % (case['pid'], (p.stderr or p.stdout)[-400:]))
    data = json.loads(line[-1])
    devs = [dev('foreign-workload:' + str(d['kind']), dict(workload=case['pid'], node=d['node'], detail=d['detail']), known=d.get('known'))
            for d in data['deviations']]
    return outcome(classes=['foreign-workload', 'foreign-workload:' + case['pid']], nontrivial=True,
                   fp='foreign %s %d %d' % (case['pid'], case['seed'], case['n']), dev=devs,
                   monitors={'parse_postcondition_evaluations': data['evaluations'], 'foreign_workload_cases': data['cases'],
                             'foreign_workload_harness_errors': data['harness_errors']},
                   sample=dict(text='%d generated cases of the %s workload parsed with the C16 post-condition on DIP.parse' % (data['cases'], case['pid']),
                               expected='no returned environment violates its constraints',
                               observed=dict(postcondition_evaluations=data['evaluations'], deviations=len(data['deviations']))))


def run_case(case, ctx):
    if case.get('t') == 'repotests':
        return run_repo_tests(case, ctx)
    if case.get('t') == 'foreign':
        return run_foreign(case, ctx)
    if case.get('edge') == 'c16-staged-base':
        from vt.props import c17_base
        keep = []

        def real_parse(ctx_, text, base=None, tag='m', file=None):
            from scinumtools.dip import DIP
            _uid[0] += 1
            p = DIP(base, name='c16sb%d' % _uid[0]) if base is not None else DIP(name='c16sb%d' % _uid[0])
            keep.append(p)
            p.add_string(text)
            try:
                return 'ok', p.parse()
            except Exception as e:
                return 'exc', e
        out = c17_base.run(case['stbase'], ctx, real_parse)
        R.drain_parse_deviations()
        if ctx.get('hyg') is not None and ctx['hyg'].check_restore():
            out['monitors']['table_leaks_restored'] = 1
        return out
    if case.get('edge'):
        from vt.props import dip_edge
        out = {'c16-slice': dip_edge.run_c16, 'c16-import': dip_edge.run_c16_import, 'c16-intopt': dip_edge.run_c16_intopt, 'c16-bare': dip_edge.run_c16_bare, 'c16-rank': dip_edge.run_c16_rank, 'c16-offset': dip_edge.run_c16_offset}[case['edge']](case, ctx)
        R.drain_parse_deviations()
        if ctx.get('hyg') is not None and ctx['hyg'].check_restore():
            out['monitors']['table_leaks_restored'] = 1
        return out
    text = R.render(case)
    exp, bad, allc = R.verdict(case)
    if exp == 'undecided':
        return outcome(skip='evaluator undecided (value inside a tolerance band or unit outside the table)')
    obs, keep = run_real(text, ctx)
    nev, pdevs = R.drain_parse_deviations()
    mons = {'parses': 1, 'step_budget_guarded_parses': 1, 'parse_postcondition_evaluations': nev}
    if obs[0] == 'env':
        mons['postcondition_node_checks'] = len(obs[1].nodes)
    leak = ctx['hyg'].check_restore()
    mons['table_hygiene_checks'] = 1
    if leak:
        mons['table_leaks_restored'] = 1
    devs = judge(case, exp, bad, obs)
    # monitor 2: deviations of the returned environment found by the post-condition
    for d in pdevs:
        devs.append(dev(d['kind'], dict(node=d['node'], **d['detail']), known=d.get('known')))
    # one mechanism, one report: the post-condition and the verdict monitor see the same known defect
    seen, uniq = set(), []
    for d in devs:
        k = (d.get('known'), d['mech'] if not d.get('known') else None)
        if k in seen:
            continue
        seen.add(k)
        uniq.append(d)
    devs = uniq
    classes = set(case.get('gen_classes', []))
    classes.add('expected-' + exp)
    kinds = set(k for nd in case['nodes'] for k in _kinds(nd))
    if any(len(_kinds(nd)) >= 2 for nd in case['nodes']):
        classes.add('combination-of-constraint-kinds')
    for k in kinds:
        classes.add('constraint-' + k)
    observed = 'accepted' if obs[0] == 'env' else list(obs)
    if obs[0] == 'env':
        try:
            vals = {}
            for n in obs[1].nodes:
                v = n.value.value
                vals[n.name] = [v.tolist() if hasattr(v, 'tolist') else v, getattr(n.value, 'unit', None)]
            observed = dict(accepted=vals)
        except Exception as e:
            devs.append(dev('returned-environment-unreadable', dict(exc=exc_sig(e))))
    sample = dict(text=text, expected=exp, violated_constraints=bad, observed=observed,
                  deviations=[d.get('known') or d['mech'] for d in devs])
    for d in devs:
        d['detail'] = dict(d.get('detail') or {}, text=text, expected=exp)
    del keep
    trivial = all(not nd['props'] and not nd.get('dims') for nd in case['nodes'])
    return outcome(classes=sorted(classes), nontrivial=not trivial, fp=text, dev=devs, monitors=mons, sample=sample)


def _kinds(nd):
    ks = set()
    if nd.get('dims'):
        ks.add('dimension')
    for p in nd['props']:
        ks.add({'optline': 'options', 'optlist': 'options', 'cond': 'condition', 'format': 'format'}[p['p']])
    return ks


def _node(name, ty, value, unit=None, props=(), mods=(), dims=None):
    return dict(name=name, ty=ty, unit=unit, dims=dims, value=value, vunit=None, props=list(props), mods=list(mods))


def pinned(ctx):
    cmp = lambda op, c, u=None, s=False: {'e': 'cmp', 'op': op, 'c': c, 'u': u, 'flip': False, 'str': s}
    return [
        (R.KEY_COND_IGNORED, dict(t='c16', nodes=[_node('b', 'bool', False, props=[{'p': 'cond', 'c': cmp('==', True)}])])),
        (R.KEY_EQ_BARE_BOOL, dict(t='c16', nodes=[_node('x', 'int', 5, props=[{'p': 'cond', 'c': cmp('==', '5')}])])),
        (R.KEY_INT_TRUNC, dict(t='c16', nodes=[_node('x', 'int', 5, 'm', props=[{'p': 'cond', 'c': cmp('>=', '501', 'cm')}])])),
        (R.KEY_ARRAY_MOD, dict(t='c16', nodes=[_node('v', 'int', None, dims=[[2, 3]], mods=[{'v': [1, 2], 'u': None}])])),
    ]


def teardown(ctx):
    return {'monitors': {}, 'step_budget': {'max_events_accepted_parse': ctx['steps'].max_ok, 'limit': ctx['steps'].limit}}
