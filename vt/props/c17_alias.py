"""C17 side family: references after the referenced node took part in a unit-aware comparison, and imported copies that
receive constraints of their own.  The oracle is closed-form (no interpreter): comparing two nodes must not change either
of them, so every later injection / import of the left operand still delivers (x, unit_a); an option added to an imported
copy must not become an option of the source."""
from vt.core import outcome, dev
from vt.util import close

UNITS = {'length': [('m', 1.0), ('cm', 1e-2), ('km', 1e3), ('mm', 1e-3)], 'time': [('s', 1.0), ('ms', 1e-3), ('min', 60.0)],
         'mass': [('g', 1.0), ('kg', 1e3), ('mg', 1e-3)]}
OPS = ['>', '<', '>=', '<=', '==', '!=']


def gen(rng):
    if rng.random() < 0.75:
        dim = rng.choice(list(UNITS))
        (ua, fa), (ub, fb) = rng.sample(UNITS[dim], 2)
        x = rng.choice([1, 2, 5, 12, 0.5, 250])
        y = rng.choice([1, 3, 50, 700, 0.25])
        return dict(kind='compare-then-reference', ua=ua, ub=ub, x=x, y=y, op=rng.choice(OPS), form=rng.choice(['case', 'bool-node', 'condition', 'case-else']),
                    typ=rng.choice(['float', 'float', 'int']) if float(x).is_integer() and float(y).is_integer() else 'float',
                    refs=rng.sample(['inject', 'inject-other-unit', 'import', 'import-group', 'inject-later-twice'], rng.randint(1, 3)),
                    uc=rng.choice([u for u, _ in UNITS[dim]]))
    return dict(kind='import-then-option', opts=rng.sample([1, 2, 3, 4, 5], 2), extra=rng.choice([7, 8, 9]), form=rng.choice(['list', 'lines']),
                typ=rng.choice(['int', 'float']), then=rng.choice(['modify-source', 'modify-copy']))


def render(c):
    L = []
    if c['kind'] == 'compare-then-reference':
        t = c['typ']
        va = lambda v: ('%d' % v if t == 'int' else repr(float(v)))
        cmp_ = '{?a} %s {?b}' % c['op']
        if c['form'] == 'condition':
            L += ['b %s = %s %s' % (t, va(c['y']), c['ub']), 'a %s = %s %s' % (t, va(c['x']), c['ua']), '  !condition ("{?} %s {?b}")' % c['op']]
        else:
            L += ['a %s = %s %s' % (t, va(c['x']), c['ua']), 'b %s = %s %s' % (t, va(c['y']), c['ub'])]
        if c['form'] == 'case':
            L += ['@case ("%s")' % cmp_, '  z int = 1', '@end']
        elif c['form'] == 'case-else':
            L += ['@case ("%s")' % cmp_, '  z int = 1', '@else', '  z int = 2', '@end']
        elif c['form'] == 'bool-node':
            L += ['t bool = ("%s")' % cmp_]
        for r in c['refs']:
            if r == 'inject':
                L.append('c %s = {?a}' % t)
            elif r == 'inject-other-unit':
                L.append('d float = 0 %s' % c['uc'])
                L.append('d = {?a}')
            elif r == 'import':
                L.append('h {?a}')
            elif r == 'import-group':
                L += ['grp', '  {?a}']
            elif r == 'inject-later-twice':
                L += ['e1 %s = {?a}' % t, 'e2 %s = {?a}' % t]
    else:
        t = c['typ']
        L.append('mode %s = %s' % (t, c['opts'][0]))
        if c['form'] == 'list':
            L.append('  !options [%s]' % ','.join(str(o) for o in c['opts']))
        else:
            L += ['  = %s' % o for o in c['opts']]
        L += ['alt {?mode}', '  = %s' % c['extra']]
        L.append(('mode = %s' if c['then'] == 'modify-source' else 'alt.mode = %s') % c['extra'])
    return '\n'.join(L) + '\n'


def holds(c):
    fa = dict(sum(UNITS.values(), []))
    a, b = c['x'] * fa[c['ua']], c['y'] * fa[c['ub']]
    return {'>': a > b, '<': a < b, '>=': a >= b, '<=': a <= b, '==': a == b, '!=': a != b}[c['op']]


def run(case, ctx, real_parse):
    c = case['alias']
    text = render(c)
    devs = []
    mon = dict(alias_programs_compared=1)
    classes = ['alias:' + c['kind']]
    kind, res = real_parse(ctx, text, tag='al')
    Format = ctx['Format']
    if c['kind'] == 'compare-then-reference':
        classes += ['alias:form-' + c['form']] + ['alias:ref-' + r for r in c['refs']]
        fa = dict(sum(UNITS.values(), []))
        truth = holds(c)
        near = close(c['x'] * fa[c['ua']], c['y'] * fa[c['ub']], 1e-3)
        if near and c['op'] in ('>', '<', '!=', '==', '>=', '<='):
            return outcome(skip='alias-comparison-inside-tolerance-band')
        if c['form'] == 'condition' and not truth:
            if kind == 'ok':
                devs.append(dev('alias:violated-condition-accepted', dict(text=text)))
            return outcome(classes=classes, nontrivial=True, fp='alias ' + text, dev=devs, monitors=mon, sample=dict(text=text, expected='rejected'))
        if kind != 'ok':
            devs.append(dev('alias:valid-program-rejected', dict(text=text, outcome=kind, exc=repr(res)[:200])))
            return outcome(classes=classes, nontrivial=True, fp='alias ' + text, dev=devs, monitors=mon, sample=dict(text=text))
        data = res.data(Format.TUPLE)
        x = c['x']
        exp = {'a': (x, c['ua']), 'b': (c['y'], c['ub'])}
        for r in c['refs']:
            if r == 'inject':
                exp['c'] = (x, c['ua'])
            elif r == 'inject-other-unit':
                exp['d'] = (x * fa[c['ua']] / fa[c['uc']], c['uc'])
            elif r == 'import':
                exp['h.a'] = (x, c['ua'])
            elif r == 'import-group':
                exp['grp.a'] = (x, c['ua'])
            elif r == 'inject-later-twice':
                exp['e1'] = exp['e2'] = (x, c['ua'])
        if c['form'] == 'bool-node':
            if bool(data.get('t')) != truth:
                devs.append(dev('alias:comparison-value-differs', dict(text=text, observed=data.get('t'), expected=truth)))
        if c['form'] in ('case', 'case-else'):
            ez = 1 if truth else (2 if c['form'] == 'case-else' else None)
            if data.get('z') != ez:
                devs.append(dev('alias:case-selection-differs', dict(text=text, observed=data.get('z'), expected=ez)))
        for k, (v, u) in exp.items():
            o = data.get(k)
            if not (isinstance(o, tuple) and len(o) == 2 and close(o[0], v, 1e-9) and o[1] == u):
                devs.append(dev('alias:reference-after-comparison-delivers-changed-node' if k not in ('a', 'b') else 'alias:comparison-changed-its-operand',
                                dict(text=text, node=k, observed=o, expected=(v, u))))
        return outcome(classes=classes, nontrivial=True, fp='alias ' + text, dev=devs, monitors=mon,
                       sample=dict(text=text, expected={k: list(v) for k, v in exp.items()}, observed={k: data.get(k) for k in exp}))
    # import-then-option
    classes.append('alias:' + c['then'])
    if c['then'] == 'modify-source':
        if kind == 'ok':
            devs.append(dev('alias:option-added-to-imported-copy-accepted-for-source', dict(text=text, data=res.data())))
        exp = 'rejected'
    else:
        if kind != 'ok':
            devs.append(dev('alias:valid-program-rejected', dict(text=text, exc=repr(res)[:200])))
        else:
            d = res.data()
            if d.get('mode') != c['opts'][0] or d.get('alt.mode') != c['extra']:
                devs.append(dev('alias:imported-copy-or-source-value-differs', dict(text=text, data=d)))
        exp = {'mode': c['opts'][0], 'alt.mode': c['extra']}
    return outcome(classes=classes, nontrivial=True, fp='alias ' + text, dev=devs, monitors=mon, sample=dict(text=text, expected=exp))
