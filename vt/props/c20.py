"""C20 — Table, row and grid helpers behave like their simple models.

Lock-step reference models: after every operation on the real object the whole observable
state (len, keys, items, data, index by key / position / attribute, membership, columns)
is compared with an executable model (ordered dict of records / list of rows / set of grid
cells / itertools.product).
"""
import itertools, math, collections
from vt.core import outcome, dev

ID = 'C20'
LEVEL = 'exploration'
RULE = ('lock-step histories (<=40 ops) on ParameterTable (keyed and positional) and RowCollector '
        '(list and numpy mode) against dict/list models, all grids n<=N x ncols<=12 x {normal,transposed} '
        'x {list,dict}, all combinations of <=4 lists of <=4 items by shape; non-trivial = history with '
        '>=1 overwrite/delete/sort, grid with incomplete last row, combination of >=2 lists; '
        'distinct by canonical op sequence / (n,ncols,transpose,kind) / shape')
SHARDS = {'quick': 8, 'thorough': 16}
MIN_NONTRIVIAL = {'quick': 1500, 'thorough': 50000}
REQUIRED_CLASSES = ['rows-dataframe-readouts', 'rows-lazy-columns-array-mode', 'table-keyed', 'table-list', 'rows-list', 'rows-array', 'grid', 'grid-transposed', 'combination',
                    'rows-sort', 'table-delete', 'table-overwrite', 'table-reinsert', 'table-positional-after-delete',
                    'table-empty-keyed', 'table-empty-list', 'table-emptied-by-delete',
                    'combination-items:duplicates', 'combination-items:numbers', 'combination-items:mixed', 'combination-items:numpy']
REQUIRED_MONITORS = ['table_state_compares', 'rows_state_compares', 'grid_cells_checked', 'combination_tuples_checked']
ASSUMPTIONS = ['keys are strings that are not attribute names of the class',
               'row-collector columns are type-homogeneous scalars representable in the declared dtype',
               'tie order after sort() is unspecified; only monotonicity and the multiset of whole rows are demanded']
EXHAUSTIVE_SUBSPACES = {'quick': ['grids n<=40 x ncols<=12 x transpose x {list,dict}', 'combination shapes <=3 lists of <=3 items'],
                        'thorough': ['grids n<=120 x ncols<=16 x transpose x {list,dict}', 'combination shapes <=4 lists of <=4 items']}

NQUICK = dict(table=900, rows=900)
NTHOR = dict(table=40000, rows=40000)


def setup():
    import scinumtools as snt
    import numpy as np
    return dict(snt=snt, np=np)


# ---------------------------------------------------------------- generators

def cases(rng, tier, shard, nshards, ctx):
    N = NQUICK if tier == 'quick' else NTHOR
    # exhaustive grids, partitioned over shards
    nmax, cmax = (40, 12) if tier == 'quick' else (120, 16)
    i = 0
    for n in range(0, nmax + 1):
        for ncols in range(1, cmax + 1):
            for kind in ('list', 'dict'):
                i += 1
                if i % nshards == shard:
                    yield dict(t='grid', n=n, ncols=ncols, kind=kind)
    lmax, imax = (3, 3) if tier == 'quick' else (4, 4)
    for k in range(0, lmax + 1):
        for shape in itertools.product(range(0, imax + 1), repeat=k):
            i += 1
            if i % nshards == shard:
                yield dict(t='comb', shape=list(shape))
                if k >= 1 and max(shape) >= 2:
                    # the same shape once more with item lists that hold equal elements, numbers, tuples and arrays
                    yield dict(t='comb', shape=list(shape), variety=rng.choice(['duplicates', 'numbers', 'mixed', 'numpy']))
    for _ in range(N['table'] // nshards):
        yield gen_table(rng)
    for _ in range(N['rows'] // nshards):
        yield gen_rows(rng)


def gen_table(rng):
    keyed = rng.random() < 0.65
    nf = rng.randint(1, 4)
    fields = ['f%d' % j for j in range(nf)]
    nkeys = rng.randint(2, 6)
    ops = []
    init = None
    if rng.random() < 0.4:
        if keyed:
            init = [['k%d' % rng.randrange(nkeys), [rng.randint(-9, 9) for _ in fields]] for _ in range(rng.randint(1, 4))]
        else:
            init = [[rng.randint(-9, 9) for _ in fields] for _ in range(rng.randint(1, 4))]
    for _ in range(rng.randint(3, 40)):
        r = rng.random()
        vals = [rng.choice([rng.randint(-99, 99), round(rng.uniform(-5, 5), 3), 's%d' % rng.randrange(50), True, None]) for _ in fields]
        if keyed:
            k = 'k%d' % rng.randrange(nkeys)
            if r < 0.35:
                ops.append(['append', k, vals])
            elif r < 0.6:
                ops.append(['set', k, vals])
            elif r < 0.85:
                ops.append(['del', k])
            else:
                ops.append(['del', 'k%d' % rng.randrange(nkeys + 2)])   # possibly missing key
        else:
            if r < 0.65:
                ops.append(['append', None, vals])
            else:
                ops.append(['del', rng.randrange(-2, 8)])
    return dict(t='table', keyed=keyed, fields=fields, init=init, ops=ops)


def gen_rows(rng):
    array = rng.random() < 0.45
    ncol = rng.randint(1, 4)
    cols = ['c%d' % j for j in range(ncol)]
    kinds = [rng.choice(['int', 'float', 'str']) for _ in cols]
    dtypes = None
    if array:
        if rng.random() < 0.6:
            dtypes = {c: {'int': 'int64', 'float': 'float64', 'str': 'U8'}[k] for c, k in zip(cols, kinds)}
        else:
            kinds = [rng.choice(['int', 'float']) for _ in cols]   # default dtype float64 holds both exactly

    def val(k):
        if k == 'int':
            return rng.randint(-6, 6)       # few values -> ties
        if k == 'float':
            return rng.choice([rng.randint(-3, 3) + 0.5, round(rng.uniform(-10, 10), 4)])
        if k == 'mixed':
            return rng.choice([rng.randint(-6, 6), rng.randint(-3, 3) + 0.25, True])
        return 's' + rng.choice('abcdefgh') * rng.randint(0, 3)
    lazy = rng.random() < 0.15     # columns defined by the first dict row (list mode, and array mode with the default float64 columns)
    if lazy and array:
        dtypes = None
        kinds = ['mixed'] * ncol                    # whole numbers and fractions in one column, the first row whole
    ops = []
    init = None
    if not lazy and rng.random() < 0.4:
        init = [[val(k) for k in kinds] for _ in range(rng.randint(1, 4))]
    for _ in range(rng.randint(2, 40)):
        r = rng.random()
        row = [val(k) for k in kinds]
        if lazy and not ops:
            if array:
                row = [rng.randint(0, 6) for _ in kinds]          # a first row of whole numbers
            ops.append(['appd', list(range(ncol)), row])
        elif r < 0.5:
            ops.append(['appl', None, row])
        elif r < 0.78:
            order = list(range(ncol))
            rng.shuffle(order)
            ops.append(['appd', order, row])
        else:
            ops.append(['sort', rng.randrange(ncol), rng.random() < 0.4])
    return dict(t='rows', array=array, cols=cols, kinds=kinds, dtypes=dtypes, lazy=lazy, init=init, ops=ops)


# ---------------------------------------------------------------- oracles

def plain(v):
    return v.item() if hasattr(v, 'item') else v


def run_case(case, ctx):
    return {'grid': run_grid, 'comb': run_comb, 'table': run_table, 'rows': run_rows}[case['t']](case, ctx)


def run_grid(case, ctx):
    snt = ctx['snt']
    n, ncols, kind = case['n'], case['ncols'], case['kind']
    data = list(range(100, 100 + n)) if kind == 'list' else {'key%d' % i: 100 + i for i in range(n)}
    devs, cells = [], 0
    classes = ['grid']
    g = snt.DataPlotGrid(data, ncols=ncols)
    nrows = -(-n // ncols)
    if g.nrows != nrows or g.ncols != ncols or g.ndata != n:
        devs.append(dev('grid-shape', dict(nrows=g.nrows, expected=nrows)))
    for transpose in (False, True):
        if transpose:
            classes.append('grid-transposed')
        items = list(g.items(transpose=transpose))
        miss = list(g.items(missing=True, transpose=transpose))
        seen = {}
        bad = None
        for j, it in enumerate(items):
            i, r, c = it[0], it[1], it[2]
            payload = it[3:]
            exp_payload = (100 + j,) if kind == 'list' else ('key%d' % j, 100 + j)
            if i != j or tuple(payload) != exp_payload:
                bad = bad or ('grid-item-index-or-payload', it)
            if not (isinstance(r, int) and isinstance(c, int) and 0 <= r < max(nrows, 1) and 0 <= c < ncols):
                bad = bad or ('grid-cell-out-of-range', it)
            if (r, c) in seen:
                bad = bad or ('grid-cell-assigned-twice', it)
            seen[(r, c)] = i
            cells += 1
        for j, it in enumerate(miss):
            i, r, c = it
            if i != n + j:
                bad = bad or ('grid-missing-index', it)
            if not (0 <= r < nrows and 0 <= c < ncols):
                bad = bad or ('grid-cell-out-of-range', it)
            if (r, c) in seen:
                bad = bad or ('grid-cell-assigned-twice', it)
            seen[(r, c)] = i
            cells += 1
        if len(items) != n:
            bad = bad or ('grid-item-count', len(items))
        if len(seen) != nrows * ncols or set(seen) != {(r, c) for r in range(nrows) for c in range(ncols)}:
            bad = bad or ('grid-not-covered-exactly-once', dict(cells=len(seen), expected=nrows * ncols))
        # order: normal fills row by row, transposed column by column
        for (r, c), i in seen.items():
            exp = (i // ncols, i % ncols) if not transpose else (i % nrows, i // nrows)
            if (r, c) != exp:
                bad = bad or ('grid-order', dict(i=i, cell=(r, c), expected=exp, transpose=transpose))
        if bad:
            devs.append(dev(bad[0], dict(transpose=transpose, item=bad[1])))
    return outcome(classes=classes, nontrivial=(n % ncols != 0), fp='grid %d %d %s' % (n, ncols, kind), dev=devs,
                   monitors={'grid_cells_checked': cells},
                   sample=dict(case=case, nrows=nrows, first_items=[list(x) for x in list(g.items())[:3]],
                               missing=[list(x) for x in g.items(missing=True)][:3]))


def run_comb(case, ctx):
    snt = ctx['snt']
    shape = case['shape']
    lists = [['i%d_%d' % (a, b) for b in range(m)] for a, m in enumerate(shape)]
    var = case.get('variety')
    classes = ['combination']
    if var == 'duplicates':
        lists = [[('i%d_%d' % (a, b % 2)) for b in range(m)] for a, m in enumerate(shape)]          # x, y, x, y
    elif var == 'numbers':
        lists = [[[10, 20, 10, 0.5][b % 4] for b in range(m)] for a, m in enumerate(shape)]
    elif var == 'mixed':
        lists = [[[0, 1, True, 0.0, 'a', (1, 2)][(a + b) % 6] for b in range(m)] for a, m in enumerate(shape)]    # 1 == True, 0 == 0.0
    elif var == 'numpy':
        import numpy as np
        lists = [np.array([b * 1.5 for b in range(m)]) for a, m in enumerate(shape)]
    if var:
        classes.append('combination-items:' + var)
    dc = snt.DataCombination(lists)
    keys, values, items = list(dc.keys()), list(dc.values()), list(dc.items())
    exp_keys = list(itertools.product(*[range(m) for m in shape]))
    exp_vals = list(itertools.product(*[list(l) for l in lists]))
    devs = []

    def ident(t):
        # values are compared by identity of type and value (1 and True are different items)
        return tuple((type(x).__name__, repr(x)) for x in t)
    if [tuple(k) for k in keys] != exp_keys:
        devs.append(dev('comb-keys', dict(got=keys[:5], expected=exp_keys[:5])))
    if [ident(v) for v in values] != [ident(v) for v in exp_vals]:
        devs.append(dev('comb-values', dict(got=repr(values[:5]), expected=repr(exp_vals[:5]))))
    if [(tuple(k), ident(v)) for k, v in items] != [(k, ident(v)) for k, v in zip(exp_keys, exp_vals)]:
        devs.append(dev('comb-items', dict(got=repr(items[:5]), expected=repr(list(zip(exp_keys, exp_vals))[:5]))))
    for k, v in items:
        if ident(tuple(lists[a][k[a]] for a in range(len(shape)))) != ident(tuple(v)):
            devs.append(dev('comb-index-mismatch', dict(k=repr(k), v=repr(v))))
            break
    return outcome(classes=classes, nontrivial=len(shape) >= 2, fp='comb %r %s' % (shape, var), dev=devs,
                   monitors={'combination_tuples_checked': len(items) + len(keys) + len(values)},
                   sample=dict(shape=shape, n=len(items), first=[list(map(list, x)) for x in items[:2]]))


def table_state(pt, keyed, fields):
    """Everything observable of the real table, or ('raise', type)."""
    st = {}
    st['len'] = len(pt)
    st['shape'] = tuple(pt.shape())
    if keyed:
        st['keys'] = list(pt.keys())
        st['items'] = [(k, v.data()) for k, v in pt.items()]
        st['data'] = pt.data()
        st['data_order'] = list(pt.data().keys())
        st['bykey'] = {k: pt[k].data() for k in st['keys']}
        st['bypos'] = [pt[i].data() for i in range(len(pt))]
        st['byattr'] = {k: getattr(pt, k).data() for k in st['keys']}
        st['fields'] = {k: [(pt[k][f], getattr(pt[k], f)) for f in fields] for k in st['keys']}
        st['contains'] = {('k%d' % j): (('k%d' % j) in pt) for j in range(8)}
    else:
        st['items'] = [(k, v.data()) for k, v in pt.items()]
        st['data'] = pt.data()
        st['bypos'] = [pt[i].data() for i in range(len(pt))]
    # iteration and the ends of positional access (also on the empty table)
    st['iter'] = [v.data() for v in pt]
    # iterations of ONE table that overlap in time are independent of each other (a sequence: each loop has its own position)
    n_pairs = sum(1 for a in pt for b in pt)
    zipped = [(a.data(), b.data()) for a, b in zip(pt, pt)]
    it = iter(pt)
    head = [next(it).data()] if len(pt) else []
    inner = [v.data() for v in pt]                          # a full traversal while `it` is half consumed
    tail = [v.data() for v in it]
    st['overlapping_iterations'] = dict(nested_pairs=n_pairs, zip_with_itself=[a == b for a, b in zipped], zip_first=[a for a, _ in zipped],
                                        resumed_after_inner_traversal=head + tail, inner_traversal=inner)
    st['last'] = pt[-1].data() if len(pt) else None
    try:
        pt[len(pt)]
        st['beyond'] = 'returns'
    except IndexError:
        st['beyond'] = 'IndexError'
    except Exception as e:
        st['beyond'] = type(e).__name__
    return st


def model_state(model, keyed, fields):
    st = {}
    if keyed:
        recs = {k: dict(zip(fields, v)) for k, v in model.items()}
        st['len'] = len(model)
        st['shape'] = (len(model), len(fields))
        st['keys'] = list(model.keys())
        st['items'] = [(k, recs[k]) for k in model]
        st['data'] = recs
        st['data_order'] = list(model.keys())
        st['bykey'] = dict(recs)
        st['bypos'] = [recs[k] for k in model]
        st['byattr'] = dict(recs)
        st['fields'] = {k: [(recs[k][f], recs[k][f]) for f in fields] for k in model}
        st['contains'] = {('k%d' % j): (('k%d' % j) in model) for j in range(8)}
    else:
        recs = [dict(zip(fields, v)) for v in model]
        st['len'] = len(model)
        st['shape'] = (len(model), len(fields))
        st['items'] = list(enumerate(recs))
        st['data'] = recs
        st['bypos'] = recs
    st['iter'] = list(st['bypos'])
    n = len(st['bypos'])
    st['overlapping_iterations'] = dict(nested_pairs=n * n, zip_with_itself=[True] * n, zip_first=list(st['bypos']),
                                        resumed_after_inner_traversal=list(st['bypos']), inner_traversal=list(st['bypos']))
    st['last'] = st['bypos'][-1] if st['bypos'] else None
    st['beyond'] = 'IndexError'
    return st


def run_table(case, ctx):
    snt = ctx['snt']
    keyed, fields = case['keyed'], case['fields']
    devs, compares = [], 0
    classes = ['table-keyed' if keyed else 'table-list']
    deleted = set()
    nontrivial = False
    if keyed:
        model = {}
        init = None
        if case['init']:
            init = {}
            for k, v in case['init']:
                init[k] = v
            model = dict(init)
        pt = snt.ParameterTable(fields, init, keys=True)
    else:
        model = [list(v) for v in (case['init'] or [])]
        pt = snt.ParameterTable(fields, case['init'])
    after_delete = False
    for n, op in enumerate([['init']] + case['ops']):
        exc = None
        mexc = False
        if op[0] == 'append':
            if keyed:
                if op[1] in model:
                    classes.append('table-overwrite'); nontrivial = True
                elif op[1] in deleted:
                    classes.append('table-reinsert')
                model[op[1]] = op[2]
                pt.append(op[1], op[2])
            else:
                model.append(op[2])
                pt.append(op[2])
        elif op[0] == 'set':
            if op[1] in model:
                classes.append('table-overwrite'); nontrivial = True
            elif op[1] in deleted:
                classes.append('table-reinsert')
            model[op[1]] = op[2]
            pt[op[1]] = op[2]
        elif op[0] == 'del':
            try:
                del model[op[1]]
                if keyed:
                    deleted.add(op[1])
                classes.append('table-delete'); nontrivial = True
                after_delete = True
            except (KeyError, IndexError):
                mexc = True
            try:
                del pt[op[1]]
            except Exception as e:
                exc = e
            if mexc != (exc is not None):
                devs.append(dev('table-delete-error-mismatch', dict(op=op, step=n, model_raises=mexc, real=repr(exc))))
                break
        try:
            real = table_state(pt, keyed, fields)
        except Exception as e:
            devs.append(dev('table-state-unreadable', dict(step=n, op=op, exc=repr(e))))
            break
        exp = model_state(model, keyed, fields)
        compares += 1
        if after_delete and len(model) > 0:
            classes.append('table-positional-after-delete')
        if len(model) == 0:
            classes.append('table-empty-keyed' if keyed else 'table-empty-list')
            if after_delete:
                classes.append('table-emptied-by-delete')
        if real != exp:
            diff = [k for k in exp if real.get(k) != exp[k]]
            devs.append(dev('table-state-differs:' + ','.join(diff), dict(step=n, op=op, real={k: real.get(k) for k in diff},
                                                                          expected={k: exp[k] for k in diff})))
            break
    return outcome(classes=sorted(set(classes)), nontrivial=nontrivial, fp=repr(case), dev=devs,
                   monitors={'table_state_compares': compares},
                   sample=dict(keyed=keyed, fields=fields, ops=case['ops'][:6], final=model_state(model, keyed, fields)['data']))


def same_scalar(a, b):
    a, b = plain(a), plain(b)
    if isinstance(a, str) or isinstance(b, str):
        return str(a) == str(b) and isinstance(a, str) and isinstance(b, str)
    if isinstance(a, bool) or isinstance(b, bool):
        return a == b
    return float(a) == float(b)


def run_rows(case, ctx):
    snt, np = ctx['snt'], ctx['np']
    cols, array = case['cols'], case['array']
    ncol = len(cols)
    classes = ['rows-array' if array else 'rows-list']
    devs, compares = [], 0
    nontrivial = False
    model = [list(r) for r in (case['init'] or [])]
    if case['lazy']:
        rc = snt.RowCollector(array=True) if array else snt.RowCollector()
        classes.append('rows-lazy-columns')
        if array:
            classes.append('rows-lazy-columns-array-mode')
    elif array and case['dtypes']:
        rc = snt.RowCollector({c: dict(dtype=case['dtypes'][c]) for c in cols}, case['init'], array=True)
    else:
        rc = snt.RowCollector(list(cols), case['init'], array=array)

    def observe():
        d = rc.to_dict()
        lens = {c: len(d[c]) for c in d}
        return d, lens

    for n, op in enumerate([['init']] + case['ops']):
        if op[0] == 'appl':
            model.append(list(op[2]))
            rc.append(list(op[2]))
        elif op[0] == 'appd':
            model.append(list(op[2]))
            rc.append({cols[j]: op[2][j] for j in op[1]})
            classes.append('rows-append-dict')
        elif op[0] == 'sort':
            classes.append('rows-sort'); nontrivial = True
            rc.sort(cols[op[1]], reverse=op[2])
        if case['lazy'] and n == 0:
            continue
        try:
            d, lens = observe()
        except Exception as e:
            devs.append(dev('rows-unreadable', dict(step=n, op=op, exc=repr(e))))
            break
        compares += 1
        if list(d.keys()) != cols:
            devs.append(dev('rows-columns', dict(step=n, got=list(d.keys()), expected=cols)))
            break
        if len(set(lens.values())) > 1 or (lens and list(lens.values())[0] != len(model)) or rc.size() != len(model) \
                or len(rc) != len(model) or tuple(rc.shape()) != (ncol, len(model)):
            devs.append(dev('rows-length', dict(step=n, op=op, lens=lens, expected=len(model), shape=rc.shape())))
            break
        rows = [[plain(d[c][i]) for c in cols] for i in range(len(model))]
        for c in cols:
            if not (same_obj_col(getattr(rc, c), d[c]) and same_obj_col(rc[c], d[c])):
                devs.append(dev('rows-accessors-disagree', dict(step=n, col=c)))
        if op[0] == 'sort':
            col = [r[op[1]] for r in rows]
            mono = all((col[i] >= col[i + 1]) if op[2] else (col[i] <= col[i + 1]) for i in range(len(col) - 1))
            if not mono:
                devs.append(dev('rows-sort-not-monotone', dict(step=n, op=op, column=col[:12])))
                break
            key = lambda r: tuple((type(plain(x)).__name__ == 'str', str(x) if isinstance(x, str) else float(x)) for x in r)
            if sorted(map(key, rows)) != sorted(map(key, model)):
                devs.append(dev('rows-sort-changes-multiset', dict(step=n, op=op, rows=rows[:6], model=model[:6])))
                break
            model = [list(r) for r in rows]     # tie order is the implementation's choice
        else:
            ok = len(rows) == len(model) and all(same_scalar(a, b) for r, m in zip(rows, model) for a, b in zip(r, m))
            if not ok:
                devs.append(dev('rows-not-preserved', dict(step=n, op=op, rows=rows[-3:], model=model[-3:])))
                break
    # the other read-outs of the same rows (data frame: all columns, a selection in another order, renamed columns; text)
    if not devs and model:
        try:
            classes.append('rows-dataframe-readouts')
            d, _ = observe()
            want = {c: [plain(x) for x in d[c]] for c in cols}
            df = rc.to_dataframe()
            got = {c: [plain(x) for x in df[c].tolist()] for c in df.columns}
            sel = list(reversed(cols))[:max(1, ncol - 1)]
            df2 = rc.to_dataframe(columns=sel)
            got2 = {c: [plain(x) for x in df2[c].tolist()] for c in df2.columns}
            ren = {c: 'T_' + c for c in sel}
            df3 = rc.to_dataframe(columns=ren)
            got3 = {c: [plain(x) for x in df3[c].tolist()] for c in df3.columns}
            compares += 3
            if list(df.columns) != cols or got != want:
                devs.append(dev('rows-dataframe-differs-from-the-rows', dict(columns=list(df.columns), expected_columns=cols)))
            if list(df2.columns) != sel or got2 != {c: want[c] for c in sel}:
                devs.append(dev('rows-dataframe-selection-differs', dict(selection=sel, columns=list(df2.columns))))
            if list(df3.columns) != [ren[c] for c in sel] or got3 != {ren[c]: want[c] for c in sel}:
                devs.append(dev('rows-dataframe-renamed-columns-differ', dict(renaming=ren, columns=list(df3.columns))))
            if len(rc.to_text().splitlines()) != len(model) + 1:
                devs.append(dev('rows-text-readout-has-another-number-of-lines', dict(lines=len(rc.to_text().splitlines()), rows=len(model))))
        except Exception as e:
            devs.append(dev('rows-readout-raises:' + type(e).__name__, dict(exc=repr(e)[:200])))
    return outcome(classes=sorted(set(classes)), nontrivial=nontrivial, fp=repr(case), dev=devs,
                   monitors={'rows_state_compares': compares},
                   sample=dict(array=array, dtypes=case['dtypes'], ops=case['ops'][:5], final_rows=model[:4]))


def same_obj_col(a, b):
    try:
        return len(a) == len(b) and all(plain(x) == plain(y) for x, y in zip(a, b))
    except Exception:
        return False


def pinned(ctx):
    return []
