"""External readers for the DIP configuration exporters (property C19).

Every reader takes the *exported text* (exactly as returned by ``ExportConfigX.parse()``) and a list of
expected symbol specs and returns what the format's own reader / interpreter / compiler makes of it::

    spec   = dict(name='BOX_WIDTH', kind='bool'|'int'|'float'|'str', unsigned=bool, shape=None|[2,3],
                  none=bool, form='const'|'constexpr'|'define'|None)
    result = dict(status='ok' | 'compile-error' | 'run-error' | 'load-error',
                  message='<compiler / loader message>',
                  blamed={symbol: [messages]},      # compile errors located on that symbol's line
                  unattributed=[messages],          # compile errors that could not be mapped to a symbol
                  symbols={symbol: rec},            # what was read back (status 'ok' only)
                  defined=[names the file defines], # from the interpreter (bash, loaders, DIP) or a line scan
                  compiles=n)
    rec    = dict(type='<type name as the reader reports it>', cat='bool'|'int'|'float'|'str'|'other',
                  bits=int|None, signed=bool|None, shape=None|[..], values=[flat, row-major] ,
                  unit=str|None, macro=bool, extra={...})

The spec only steers *how a symbol is printed* (which printf conversion, how many index loops); type names,
sizes, shapes and values come from the compiled program.  One compile per call: all symbols of a file are
batched into one printer program.  A missing tool or a timeout raises HarnessProblem (=> INCONCLUSIVE).
All scratch files live in a tempfile.mkdtemp() directory that is removed before returning.
"""
import os, re, json, shutil, subprocess, tempfile, itertools

TIMEOUT = 120


def _tool_env():
    env = dict(os.environ)
    env['LC_ALL'] = 'C'
    env['LANG'] = 'C'
    env['PATH'] = env.get('PATH', '') + ':/usr/local/bin:/usr/bin:/bin:' + os.path.expanduser('~/.cargo/bin')
    for k in ('PYTHONPATH', 'PYTHONHASHSEED'):
        env.pop(k, None)
    return env


MINI_ENV = _tool_env()


class HarnessProblem(Exception):
    pass


def _which(tool):
    p = shutil.which(tool) or shutil.which(tool, path=MINI_ENV['PATH'])
    if not p:
        raise HarnessProblem('tool not found: ' + tool)
    return p


def _run(cmd, cwd, env=None):
    env = dict(MINI_ENV if env is None else env)
    if env is not None and 'TMPDIR' not in env:
        env['TMPDIR'] = cwd
    try:
        p = subprocess.run(cmd, cwd=cwd, capture_output=True, timeout=TIMEOUT, env=env)
    except FileNotFoundError:
        raise HarnessProblem('tool not found: %r' % (cmd[0],))
    except subprocess.TimeoutExpired:
        raise HarnessProblem('timeout after %ds: %r' % (TIMEOUT, cmd[:3]))
    return p.returncode, p.stdout.decode('utf8', 'replace'), p.stderr.decode('utf8', 'replace')


def _result(status='ok', message='', blamed=None, unattributed=None, symbols=None, defined=None, compiles=0):
    lines = None
    if defined and isinstance(defined[0], tuple):
        lines = {n: ln for ln, n in defined}
        defined = [n for ln, n in defined]
    return dict(status=status, message=message[-3000:], blamed=blamed or {}, unattributed=unattributed or [],
                symbols=symbols or {}, defined=defined, decl_lines=lines, compiles=compiles)


def _unhex(s):
    if s == 'NULL':
        return None
    assert s.startswith('h'), s
    return bytes.fromhex(s[1:]).decode('utf8', 'replace')


def _ident_ok(name):
    return re.match(r'^[A-Za-z_][A-Za-z0-9_]*$', name) is not None


def _line_of_symbol(decls):
    """line number (1-based) -> symbol declared on that line of the exported text"""
    return {ln: n for ln, n in decls}


def _attribute(errors, cfgfile, cfglines, prgfile, prglines):
    """errors: [(file, line, msg)] -> (blamed {sym: [msg]}, unattributed [msg])"""
    blamed, un = {}, []
    if any(os.path.basename(f) == cfgfile for f, ln, msg in errors):
        # errors in the reader program are then consequences (symbol not declared ...): judged in the next round
        errors = [e for e in errors if os.path.basename(e[0]) == cfgfile]
    for f, ln, msg in errors:
        f = os.path.basename(f)
        sym = None
        if f == cfgfile:
            sym = cfglines.get(ln)
        elif f == prgfile:
            sym = prglines.get(ln)
        if sym is None:
            un.append('%s:%s: %s' % (f, ln, msg))
        else:
            blamed.setdefault(sym, []).append(('%s:%d: %s' % (f, ln, msg))[:300])
    return blamed, un


# =========================================================================== C / C++

C_TYPES = ['_Bool', 'char', 'signed char', 'unsigned char', 'short', 'unsigned short', 'int', 'unsigned int', 'long',
           'unsigned long', 'long long', 'unsigned long long', 'float', 'double', 'long double', 'char*', 'const char*']


def _c_cat(tname):
    t = tname.replace('_Bool', 'bool')
    if t == 'bool':
        return 'bool', None
    if t in ('char*', 'const char*'):
        return 'str', None
    if t in ('float', 'double', 'long double'):
        return 'float', None
    if t == 'other':
        return 'other', None
    return 'int', not t.startswith('unsigned')


def scan_c_defined(text):
    """names the header defines, by its rigid line format (guard excluded)"""
    names, guard = [], None
    for ln, line in enumerate(text.split('\n'), 1):
        m = re.match(r'^#ifndef\s+(\S+)', line)
        if m and guard is None:
            guard = m.group(1)
            continue
        m = re.match(r'^#define\s+([^\s(]+)', line)
        if m:
            if m.group(1) != guard:
                names.append((ln, m.group(1)))
            continue
        m = re.match(r'^(?:static\s+)?(?:const|constexpr)\s+[^=]*?([A-Za-z_][\w.]*)\s*(?:\[[^=]*\])?\s*=', line)
        if m:
            names.append((ln, m.group(1)))
    return names


def _c_value_print(spec, expr, cpp):
    k = spec['kind']
    if k == 'str':
        return 'zq_hx(%s);' % expr
    if k == 'float':
        return 'printf("%%.21Lg", (long double)(%s));' % expr
    if k == 'int' and spec.get('unsigned'):
        return 'printf("%%llu", (unsigned long long)(%s));' % expr
    return 'printf("%%lld", (long long)(%s));' % expr


def _c_program(specs, cpp):
    L = []
    if cpp:
        L += ['#include <cstdio>', '#include <cstddef>', '#include <type_traits>', '#include "config.h"',
              'template<class T> struct zq_tn { static const char* n(){ return "other"; } };',
              '#define ZQ_DEF(T) template<> struct zq_tn<T> { static const char* n(){ return #T; } };']
        L += ['ZQ_DEF(%s)' % t for t in C_TYPES if t != '_Bool'] + ['ZQ_DEF(bool)']
        L += ['template<class T> using zq_scal = std::remove_cv_t<std::decay_t<T>>;',
              'template<class T> using zq_elem = std::remove_cv_t<std::remove_all_extents_t<std::remove_reference_t<T>>>;']
    else:
        L += ['#include <stdio.h>', '#include <stddef.h>', '#include "config.h"',
              '#define ZQ_TN(x) _Generic((x), ' + ', '.join('%s:"%s"' % (t, t) for t in C_TYPES) + ', default:"other")']
    L += ['#define ZQ_XSTR(x) ZQ_STR(x)', '#define ZQ_STR(x) #x',
          'static void zq_hx(const char* s){ if(!s){ printf("NULL"); return; } printf("h"); '
          'for(; *s; ++s) printf("%02x", (unsigned char)*s); }',
          'int main(void){']
    owner = {}

    def emit(sym, line):
        L.append(line)
        owner[len(L)] = sym

    for sp in specs:
        n = sp['name']
        emit(n, '#ifdef %s' % n)
        emit(n, ' printf("M|%s|1|"); zq_hx(ZQ_XSTR(%s)); printf("\\n");' % (n, n))
        emit(n, '#else')
        emit(n, ' printf("M|%s|0|\\n");' % n)
        emit(n, '#endif')
        if sp.get('none') and sp.get('form') == 'define':
            continue                      # an empty macro is not an expression
        rank = len(sp['shape']) if sp.get('shape') else 0
        el = n + ''.join('[0]' for _ in range(rank))
        if cpp:
            tex = ('zq_scal<decltype(%s)>' % n) if rank == 0 else ('zq_elem<decltype(%s)>' % n)
            emit(n, ' printf("T|%s|%%s|%%zu|%%zu\\n", zq_tn<%s>::n(), sizeof(%s), sizeof(%s));' % (n, tex, el, n))
            if sp.get('ctype'):
                emit(n, ' printf("I|%s|%%d\\n", (int)std::is_same<%s, %s>::value);' % (n, tex, sp['ctype']))
        else:
            emit(n, ' printf("T|%s|%%s|%%zu|%%zu\\n", ZQ_TN(%s), sizeof(%s), sizeof(%s));' % (n, el, el, n))
        if rank == 0:
            emit(n, ' printf("S|%s|\\n");' % n)
            emit(n, ' printf("V|%s||"); %s printf("\\n");' % (n, _c_value_print(sp, n, cpp)))
        else:
            dims = []
            for d in range(rank):
                a = n + ''.join('[0]' for _ in range(d))
                dims.append('sizeof(%s)/sizeof(%s[0])' % (a, a))
            emit(n, ' { size_t zq_n[%d] = {%s}; size_t zq_i[%d];' % (rank, ', '.join(dims), rank))
            emit(n, '  printf("S|%s|%s\\n", %s);' % (n, ','.join(['%zu'] * rank), ', '.join('zq_n[%d]' % d for d in range(rank))))
            loops = ' '.join('for(zq_i[%d]=0; zq_i[%d]<zq_n[%d]; ++zq_i[%d])' % (d, d, d, d) for d in range(rank))
            idx = ''.join('[zq_i[%d]]' % d for d in range(rank))
            emit(n, '  %s { printf("V|%s|%s|", %s); %s printf("\\n"); } }' % (
                loops, n, ','.join(['%zu'] * rank), ', '.join('zq_i[%d]' % d for d in range(rank)),
                _c_value_print(sp, n + idx, cpp)))
    L += [' return 0;', '}']
    return '\n'.join(L) + '\n', owner


def _parse_records(out):
    recs = {}
    for line in out.split('\n'):
        if not line or '|' not in line:
            continue
        parts = line.split('|')
        recs.setdefault(parts[1], []).append(parts)
    return recs


def _gcc_errors(stderr):
    errs = []
    for line in stderr.split('\n'):
        m = re.match(r'^([^:\s]+):(\d+):(?:\d+:)?\s*(?:fatal )?error:\s*(.*)$', line)
        if m:
            errs.append((m.group(1), int(m.group(2)), m.group(3)))
    return errs


def read_c(text, specs, cpp=False):
    specs = [s for s in specs]
    bad = [s['name'] for s in specs if not _ident_ok(s['name'])]
    tmp = tempfile.mkdtemp(prefix='vt_c19_')
    try:
        with open(os.path.join(tmp, 'config.h'), 'w') as f:
            f.write(text)
        prog, owner = _c_program([s for s in specs if s['name'] not in bad], cpp)
        src = 'main.cpp' if cpp else 'main.c'
        with open(os.path.join(tmp, src), 'w') as f:
            f.write(prog)
        cc = [_which('g++'), '-std=c++17'] if cpp else [_which('gcc'), '-std=c11']
        rc, out, err = _run(cc + ['-Wall', '-O0', '-o', 'reader', src], tmp)
        defined = scan_c_defined(text)
        if rc != 0:
            errors = _gcc_errors(err)
            blamed, un = _attribute(errors, 'config.h', _line_of_symbol(defined), src, owner)
            if not errors:
                un.append(err[-600:])
            return _result('compile-error', err, blamed, un, defined=defined, compiles=1)
        rc, out, err2 = _run([os.path.join(tmp, 'reader')], tmp)
        if rc != 0:
            return _result('run-error', 'reader exited with %d: %s' % (rc, err2), defined=defined, compiles=1)
        recs = _parse_records(out)
        symbols = {}
        for sp in specs:
            n = sp['name']
            r = recs.get(n)
            if not r:
                continue
            rec = dict(type=None, cat='other', bits=None, signed=None, shape=None, values=[], unit=None, macro=False,
                       extra={})
            vals = {}
            for p in r:
                if p[0] == 'M':
                    rec['macro'] = p[2] == '1'
                    if rec['macro']:
                        rec['extra']['expansion'] = _unhex(p[3])
                elif p[0] == 'T':
                    rec['type'] = p[2].replace('_Bool', 'bool')
                    rec['cat'], rec['signed'] = _c_cat(p[2])
                    rec['bits'] = int(p[3]) * 8
                    rec['extra']['sizeof'] = int(p[4])
                elif p[0] == 'I':
                    rec['extra']['is_same'] = p[2] == '1'
                elif p[0] == 'S':
                    rec['shape'] = [int(x) for x in p[2].split(',')] if p[2] else None
                elif p[0] == 'V':
                    key = tuple(int(x) for x in p[2].split(',')) if p[2] else ()
                    vals[key] = '|'.join(p[3:])
            kind = sp['kind']
            if rec['type'] is None and rec['macro']:
                rec['type'] = 'macro'
            flat = []
            for key in sorted(vals):
                v = vals[key]
                if kind == 'str':
                    flat.append(_unhex(v))
                elif kind == 'float':
                    flat.append(v)                      # decimal text with 21 significant digits
                else:
                    flat.append(int(v))
            rec['values'] = flat
            symbols[n] = rec
        return _result('ok', err, symbols=symbols, defined=defined, compiles=1)
    finally:
        shutil.rmtree(tmp, ignore_errors=True)


def read_cpp(text, specs):
    return read_c(text, specs, cpp=True)


# =========================================================================== Fortran

_F_INT = [1, 2, 4, 8, 16]
_F_REAL = [4, 8, 10, 16]
_F_LOG = [1, 2, 4, 8, 16]


def _fortran_types_module():
    L = ['module zq_reader_types', '  implicit none', '  interface zq_tcode']
    names = ['zq_ti%d' % k for k in _F_INT] + ['zq_tr%d' % k for k in _F_REAL] + ['zq_tl%d' % k for k in _F_LOG] + ['zq_tc']
    L.append('    module procedure ' + ', '.join(names))
    L += ['  end interface', 'contains']
    for k in _F_INT:
        L += ['  elemental function zq_ti%d(x) result(c)' % k, '    integer(kind=%d), intent(in) :: x' % k,
              '    integer :: c', '    c = 1', '  end function']
    for k in _F_REAL:
        L += ['  elemental function zq_tr%d(x) result(c)' % k, '    real(kind=%d), intent(in) :: x' % k,
              '    integer :: c', '    c = 2', '  end function']
    for k in _F_LOG:
        L += ['  elemental function zq_tl%d(x) result(c)' % k, '    logical(kind=%d), intent(in) :: x' % k,
              '    integer :: c', '    c = 3', '  end function']
    L += ['  elemental function zq_tc(x) result(c)', '    character(len=*), intent(in) :: x', '    integer :: c',
          '    c = 4', '  end function', 'end module zq_reader_types']
    return L


def scan_fortran_defined(text):
    names = []
    for ln, line in enumerate(text.split('\n'), 1):
        m = re.match(r'^\s*[a-zA-Z][^:"\']*::\s*([A-Za-z_][\w.]*)\s*=', line)
        if m:
            names.append((ln, m.group(1)))
    return names


def _fortran_program(specs, module):
    L = _fortran_types_module()
    L += ['program zq_reader', '  use zq_reader_types', '  use %s' % module, '  implicit none',
          '  integer :: zq_i1, zq_i2, zq_i3, zq_k']
    owner = {}

    def emit(sym, line):
        L.append(line)
        owner[len(L)] = sym

    for sp in specs:
        n = sp['name']
        rank = len(sp['shape']) if sp.get('shape') else 0
        first = n + ('(' + ','.join(['1'] * rank) + ')' if rank else '')
        emit(n, "  write(*,'(A,I0,A,I0,A,I0)') 'T|%s|', zq_tcode(%s), '|', kind(%s), '|', rank(%s)" % (n, first, n, n))
        emit(n, "  write(*,'(A,*(I0,:,\",\"))') 'S|%s|', shape(%s)" % (n, n))
        idxv = ['zq_i%d' % (d + 1) for d in range(rank)]
        el = n + ('(' + ','.join(idxv) + ')' if rank else '')
        for d in range(rank):
            emit(n, '  do %s = 1, size(%s, %d)' % (idxv[d], n, d + 1))
        if rank:
            head = "'V|%s|', %s, '|'" % (n, ", ',', ".join('%s-1' % v for v in idxv))
            hfmt = 'A,' + ',A,'.join(['I0'] * rank) + ',A'
        else:
            head = "'V|%s||'" % n
            hfmt = 'A'
        k = sp['kind']
        if k == 'str':
            emit(n, "  write(*,'(%s,I0,A,*(Z2.2))') %s, len(%s), '|', (iachar(%s(zq_k:zq_k)), zq_k=1,len(%s))" % (
                hfmt, head, el, el, el))
        elif k == 'float':
            emit(n, "  write(*,'(%s,ES46.36E4)') %s, real(%s, kind=16)" % (hfmt, head, el))
        elif k == 'bool':
            emit(n, "  write(*,'(%s,I0)') %s, merge(1, 0, %s)" % (hfmt, head, el))
        else:
            emit(n, "  write(*,'(%s,I0)') %s, int(%s, kind=8)" % (hfmt, head, el))
        for d in range(rank):
            emit(n, '  end do')
    L.append('end program zq_reader')
    return '\n'.join(L) + '\n', owner


def _gfortran_errors(stderr):
    errs, loc = [], None
    for line in stderr.split('\n'):
        m = re.match(r'^([^:\s]+):(\d+):(\d+):\s*$', line)
        if m:
            loc = (m.group(1), int(m.group(2)))
            continue
        m = re.match(r'^([^:\s]+):(\d+):\s*$', line)
        if m:
            loc = (m.group(1), int(m.group(2)))
            continue
        m = re.match(r'^(Fatal Error|Error):\s*(.*)$', line)
        if m:
            errs.append((loc[0] if loc else '?', loc[1] if loc else 0, m.group(2)))
    return errs


def read_fortran(text, specs, module='ConfigurationModule'):
    """gfortran is run with -ffree-line-length-none: the 132-column limit is not part of the property."""
    tmp = tempfile.mkdtemp(prefix='vt_c19_')
    try:
        with open(os.path.join(tmp, 'config.f90'), 'w') as f:
            f.write(text + '\n')
        defined = scan_fortran_defined(text)
        fc = [_which('gfortran'), '-ffree-line-length-none', '-O0']
        cfglines = _line_of_symbol(defined)
        rc, out, err = _run(fc + ['-c', 'config.f90'], tmp)
        if rc != 0:
            errors = _gfortran_errors(err)
            blamed, un = _attribute(errors, 'config.f90', cfglines, 'reader.f90', {})
            if not errors:
                un.append(err[-600:])
            return _result('compile-error', err, blamed, un, defined=defined, compiles=1)
        ok = [s for s in specs if _ident_ok(s['name'])]
        prog, owner = _fortran_program(ok, module)
        with open(os.path.join(tmp, 'reader.f90'), 'w') as f:
            f.write(prog)
        rc, out, err = _run(fc + ['-o', 'reader', 'config.o', 'reader.f90'], tmp)
        if rc != 0:
            errors = _gfortran_errors(err)
            blamed, un = _attribute(errors, 'config.f90', cfglines, 'reader.f90', owner)
            if not errors:
                un.append(err[-600:])
            return _result('compile-error', err, blamed, un, defined=defined, compiles=2)
        rc, out, err2 = _run([os.path.join(tmp, 'reader')], tmp)
        if rc != 0:
            return _result('run-error', 'reader exited with %d: %s' % (rc, err2), defined=defined, compiles=2)
        recs = _parse_records(out)
        symbols = {}
        for sp in specs:
            n = sp['name']
            r = recs.get(n)
            if not r:
                continue
            rec = dict(type=None, cat='other', bits=None, signed=None, shape=None, values=[], unit=None, macro=False,
                       extra={})
            vals = {}
            for p in r:
                if p[0] == 'T':
                    code, kind = int(p[2]), int(p[3])
                    rec['cat'] = {1: 'int', 2: 'float', 3: 'bool', 4: 'str'}.get(code, 'other')
                    rec['type'] = {1: 'integer', 2: 'real', 3: 'logical', 4: 'character'}.get(code, 'other') + '(kind=%d)' % kind
                    rec['bits'] = kind * 8 if code in (1, 2, 3) else None
                    rec['signed'] = True if code == 1 else None
                    rec['extra']['rank'] = int(p[4])
                elif p[0] == 'S':
                    rec['shape'] = [int(x) for x in p[2].split(',')] if p[2].strip() else None
                elif p[0] == 'V':
                    key = tuple(int(x) for x in p[2].split(',')) if p[2] else ()
                    vals[key] = p[3:]
            flat = []
            for key in sorted(vals):
                v = vals[key]
                if sp['kind'] == 'str':
                    ln = int(v[0])
                    s = bytes.fromhex(v[1].strip()).decode('utf8', 'replace')
                    rec['extra'].setdefault('len', []).append(ln)
                    flat.append(s)
                elif sp['kind'] == 'float':
                    flat.append(v[0].strip())
                else:
                    flat.append(int(v[0]))
            rec['values'] = flat
            symbols[n] = rec
        return _result('ok', err, symbols=symbols, defined=defined, compiles=2)
    finally:
        shutil.rmtree(tmp, ignore_errors=True)


# =========================================================================== Rust

RUST_PRELUDE = r'''#![allow(warnings)]
mod zq_cfg { include!("config.rs"); }
use zq_cfg::*;
fn zq_tn<T>(_: &T) -> &'static str { std::any::type_name::<T>() }
trait ZqFl { fn fl(&self, out: &mut Vec<String>); }
macro_rules! zq_im { ($($t:ty),*) => { $(impl ZqFl for $t { fn fl(&self, out: &mut Vec<String>) { out.push(format!("{}", self)); } })* } }
zq_im!(i8, i16, i32, i64, i128, isize, u8, u16, u32, u64, u128, usize);
impl ZqFl for bool { fn fl(&self, out: &mut Vec<String>) { out.push(String::from(if *self {"1"} else {"0"})); } }
impl ZqFl for f32 { fn fl(&self, out: &mut Vec<String>) { out.push(format!("{:e}", *self as f64)); } }
impl ZqFl for f64 { fn fl(&self, out: &mut Vec<String>) { out.push(format!("{:e}", self)); } }
impl ZqFl for &str { fn fl(&self, out: &mut Vec<String>) { let mut s = String::from("h"); for b in self.bytes() { s.push_str(&format!("{:02x}", b)); } out.push(s); } }
impl<T: ZqFl, const N: usize> ZqFl for [T; N] { fn fl(&self, out: &mut Vec<String>) { for x in self.iter() { x.fl(out); } } }
fn zq_show<T: ZqFl>(name: &str, x: &T) {
    println!("T|{}|{}|{}", name, zq_tn(x), std::mem::size_of_val(x));
    let mut out: Vec<String> = Vec::new();
    x.fl(&mut out);
    for (k, v) in out.iter().enumerate() { println!("V|{}|{}|{}", name, k, v); }
}
fn main() {
'''


def scan_rust_defined(text):
    names = []
    for ln, line in enumerate(text.split('\n'), 1):
        m = re.match(r'^\s*pub\s+(?:const|static)\s+([A-Za-z_][\w.]*)\s*:', line)
        if m:
            names.append((ln, m.group(1)))
    return names


def _rust_type(tname):
    """'[[i32; 3]; 2]' -> ('i32', [2, 3])"""
    dims = []
    t = tname.strip()
    while t.startswith('['):
        m = re.match(r'^\[(.*);\s*(\d+)\]$', t)
        if not m:
            break
        dims.append(int(m.group(2)))
        t = m.group(1).strip()
    return t, (dims or None)


def _rustc_errors(stderr):
    errs, msg = [], None
    for line in stderr.split('\n'):
        m = re.match(r'^error(?:\[E\d+\])?:\s*(.*)$', line)
        if m:
            msg = m.group(1)
            continue
        m = re.match(r'^\s*-->\s*(\S+?):(\d+):(\d+)', line)
        if m and msg is not None:
            errs.append((m.group(1), int(m.group(2)), msg))
            msg = None
    return errs


def read_rust(text, specs):
    tmp = tempfile.mkdtemp(prefix='vt_c19_')
    try:
        with open(os.path.join(tmp, 'config.rs'), 'w') as f:
            f.write(text + '\n')
        defined = scan_rust_defined(text)
        L = RUST_PRELUDE.split('\n')
        owner = {}
        for sp in specs:
            if not _ident_ok(sp['name']):
                continue
            L.append('    zq_show("%s", &%s);' % (sp['name'], sp['name']))
            owner[len(L)] = sp['name']
        L.append('}')
        with open(os.path.join(tmp, 'main.rs'), 'w') as f:
            f.write('\n'.join(L) + '\n')
        rc, out, err = _run([_which('rustc'), '--edition', '2021', '-C', 'debuginfo=0', '-C', 'opt-level=0',
                             '-o', 'reader', 'main.rs'], tmp)
        if rc != 0:
            errors = _rustc_errors(err)
            errors = [e for e in errors if not e[2].startswith('aborting due to')]
            blamed, un = _attribute(errors, 'config.rs', _line_of_symbol(defined), 'main.rs', owner)
            if not errors:
                un.append(err[-600:])
            return _result('compile-error', err, blamed, un, defined=defined, compiles=1)
        rc, out, err2 = _run([os.path.join(tmp, 'reader')], tmp)
        if rc != 0:
            return _result('run-error', 'reader exited with %d: %s' % (rc, err2), defined=defined, compiles=1)
        recs = _parse_records(out)
        symbols = {}
        for sp in specs:
            n = sp['name']
            r = recs.get(n)
            if not r:
                continue
            rec = dict(type=None, cat='other', bits=None, signed=None, shape=None, values=[], unit=None, macro=False,
                       extra={})
            vals = {}
            for p in r:
                if p[0] == 'T':
                    tname = '|'.join(p[2:-1])
                    rec['type'] = tname
                    el, dims = _rust_type(tname)
                    rec['shape'] = dims
                    rec['extra']['size_of_val'] = int(p[-1])
                    m = re.match(r'^([iuf])(\d+)$', el)
                    if el == 'bool':
                        rec['cat'] = 'bool'
                    elif el == '&str':
                        rec['cat'] = 'str'
                    elif m:
                        rec['cat'] = 'float' if m.group(1) == 'f' else 'int'
                        rec['bits'] = int(m.group(2))
                        rec['signed'] = (m.group(1) == 'i') if m.group(1) != 'f' else None
                elif p[0] == 'V':
                    vals[int(p[2])] = '|'.join(p[3:])
            flat = []
            for key in sorted(vals):
                v = vals[key]
                if v.startswith('h') and rec['cat'] == 'str':
                    flat.append(_unhex(v))
                elif rec['cat'] == 'float':
                    flat.append(v)
                else:
                    try:
                        flat.append(int(v))
                    except ValueError:
                        flat.append(v)
            rec['values'] = flat
            symbols[n] = rec
        return _result('ok', err, symbols=symbols, defined=defined, compiles=1)
    finally:
        shutil.rmtree(tmp, ignore_errors=True)


# =========================================================================== Bash

BASH_SCRIPT = r'''
zq_before=$(compgen -v)
source "$1" 2>"$2"
zq_rc=$?
printf 'RC\0%s\0' "$zq_rc"
for zq_v in $(compgen -v); do
  case "$zq_v" in zq_*|_|BASH_ARGC|BASH_ARGV|BASH_LINENO|BASH_SOURCE|BASH_REMATCH|PIPESTATUS|FUNCNAME|LINENO|RANDOM|SECONDS|EPOCHSECONDS|EPOCHREALTIME|SRANDOM|BASH_COMMAND|BASH_SUBSHELL|COMP_WORDBREAKS) continue;; esac
  zq_new=1
  for zq_o in $zq_before; do if [ "$zq_o" = "$zq_v" ]; then zq_new=0; break; fi; done
  [ "$zq_new" = 1 ] || continue
  zq_decl=$(declare -p "$zq_v" 2>/dev/null)
  zq_attr=${zq_decl#declare }
  zq_attr=${zq_attr%% *}
  printf 'VAR\0%s\0%s\0' "$zq_v" "$zq_attr"
  case "$zq_attr" in
    *a*|*A*)
      declare -n zq_ref="$zq_v"
      for zq_k in "${!zq_ref[@]}"; do printf 'EL\0%s\0%s\0' "$zq_k" "${zq_ref[$zq_k]}"; done
      unset -n zq_ref
      ;;
    *)
      printf 'EL\0\0%s\0' "${!zq_v}"
      ;;
  esac
done
printf 'END\0'
'''


def read_bash(text, specs):
    """source the file in a clean non-interactive bash with an empty PATH (no external command can run);
    reports every variable the file created, with its declare attributes and every element"""
    tmp = tempfile.mkdtemp(prefix='vt_c19_')
    try:
        with open(os.path.join(tmp, 'config.sh'), 'w') as f:
            f.write(text + '\n')
        bash = _which('bash')
        env = {'PATH': '/nonexistent-zq', 'LC_ALL': 'C'}
        try:
            p = subprocess.run([bash, '--norc', '--noprofile', '-c', BASH_SCRIPT, 'zq', 'config.sh', 'stderr.txt'],
                               cwd=tmp, capture_output=True, timeout=TIMEOUT, env=env)
        except subprocess.TimeoutExpired:
            raise HarnessProblem('bash timeout')
        errtxt = ''
        if os.path.exists(os.path.join(tmp, 'stderr.txt')):
            errtxt = open(os.path.join(tmp, 'stderr.txt'), errors='replace').read()
        out = p.stdout.decode('utf8', 'replace')
        toks = out.split('\0')
        if not toks or 'END' not in toks:
            return _result('run-error', 'bash rc=%s stderr=%s %s' % (p.returncode, p.stderr.decode('utf8', 'replace')[-500:], errtxt[-800:]),
                           compiles=1)
        symbols, i, rc = {}, 0, None
        cur = None
        while i < len(toks):
            t = toks[i]
            if t == 'RC':
                rc = int(toks[i + 1]); i += 2
            elif t == 'VAR':
                cur = dict(type='declare ' + toks[i + 2], cat='str', bits=None, signed=None, shape=None, values=[], unit=None,
                           macro=False, extra=dict(attrs=toks[i + 2], elements={}))
                symbols[toks[i + 1]] = cur
                i += 3
            elif t == 'EL':
                cur['extra']['elements'][toks[i + 1]] = toks[i + 2]
                i += 3
            elif t == 'END':
                break
            else:
                i += 1
        for n, rec in symbols.items():
            el = rec['extra']['elements']
            attrs = rec['extra']['attrs']
            if 'A' in attrs:
                keys = []
                okk = True
                for k in el:
                    try:
                        keys.append(tuple(int(x) for x in k.split(',')))
                    except ValueError:
                        okk = False
                if okk and keys:
                    rank = len(keys[0])
                    if all(len(k) == rank for k in keys):
                        shape = [max(k[d] for k in keys) + 1 for d in range(rank)]
                        full = list(itertools.product(*[range(s) for s in shape]))
                        if sorted(keys) == full:
                            rec['shape'] = shape
                            rec['values'] = [el[','.join(str(x) for x in k)] for k in full]
                            continue
                rec['shape'] = 'irregular'
                rec['values'] = sorted(el.items())
            elif 'a' in attrs:
                ks = sorted(int(k) for k in el)
                rec['shape'] = [len(ks)] if ks == list(range(len(ks))) else 'irregular'
                rec['values'] = [el[str(k)] for k in ks]
            else:
                rec['shape'] = None
                rec['values'] = [el.get('', '')]
        return _result('ok', ('rc=%s ' % rc) + errtxt, symbols=symbols, defined=sorted(symbols), compiles=1)
    finally:
        shutil.rmtree(tmp, ignore_errors=True)


# =========================================================================== data formats

def _describe(v):
    """python value from a loader -> rec"""
    rec = dict(type=None, cat='other', bits=None, signed=None, shape=None, values=[], unit=None, macro=False, extra={})
    if isinstance(v, dict) and set(v) <= {'value', 'unit'} and v:
        rec['unit'] = v.get('unit')
        rec['extra']['unit_form'] = True
        if 'value' not in v:
            rec['extra']['value_missing'] = True
            v = None
        else:
            v = v['value']
    shape = []
    cur = v
    while isinstance(cur, (list, tuple)):
        shape.append(len(cur))
        if not cur:
            break
        cur = cur[0]

    def flat(x, d):
        if d == len(shape):
            return [x]
        if not isinstance(x, (list, tuple)) or len(x) != shape[d]:
            raise ValueError('ragged')
        out = []
        for y in x:
            out += flat(y, d + 1)
        return out
    try:
        vals = flat(v, 0)
    except ValueError:
        rec['shape'] = 'irregular'
        rec['values'] = [repr(v)]
        return rec
    rec['shape'] = shape or None
    rec['values'] = vals
    cats = set()
    for x in vals:
        if x is None:
            cats.add('none')
        elif isinstance(x, bool):
            cats.add('bool')
        elif isinstance(x, int):
            cats.add('int')
        elif isinstance(x, float):
            cats.add('float')
        elif isinstance(x, str):
            cats.add('str')
        else:
            cats.add('other')
    rec['cat'] = cats.pop() if len(cats) == 1 else 'mixed:' + ','.join(sorted(cats))
    rec['type'] = rec['cat']
    return rec


def _read_loader(text, loader, label):
    try:
        data = loader(text)
    except Exception as e:
        return _result('load-error', '%s: %s: %s' % (label, type(e).__name__, str(e)[:500]), compiles=1)
    if data is None:
        data = {}
    if not isinstance(data, dict):
        return _result('load-error', '%s: top level is %s, not a mapping' % (label, type(data).__name__), compiles=1)
    return _result('ok', '', symbols={str(k): _describe(v) for k, v in data.items()}, defined=[str(k) for k in data],
                   compiles=1)


def read_json(text, specs=None):
    return _read_loader(text, json.loads, 'json.loads')


def read_yaml(text, specs=None):
    import yaml
    return _read_loader(text, yaml.safe_load, 'yaml.safe_load')


def read_toml(text, specs=None):
    try:
        import tomllib
        return _read_loader(text, tomllib.loads, 'tomllib.loads')
    except ImportError:
        import toml
        return _read_loader(text, toml.loads, 'toml.loads')


# =========================================================================== DIP text

_DIP_SEQ = [0]
_DIP_KEEP = []


def read_dip(text, specs=None):
    """re-parse the exported text with the real DIP parser (the format's own reader)"""
    from scinumtools.dip import DIP
    _DIP_SEQ[0] += 1
    try:
        dip = DIP(name='zq_c19_reader_%d_%d' % (os.getpid(), _DIP_SEQ[0]))
        dip.add_string(text)
        env = dip.parse()
    except Exception as e:
        return _result('load-error', 'DIP re-parse: %s: %s' % (type(e).__name__, str(e)[:500]), compiles=1)
    _DIP_KEEP.append((dip, env))
    del _DIP_KEEP[:-8]
    symbols = {}
    for node in env.nodes:
        v = node.value
        rec = _describe(None if v is None else v.value)
        kw = node.keyword
        rec['extra']['keyword'] = kw
        rec['cat'] = {'bool': 'bool', 'int': 'int', 'float': 'float', 'str': 'str'}.get(kw, 'other')
        if v is not None and kw in ('int', 'float'):
            rec['bits'] = int(getattr(v, 'precision', 0) or 0)
            rec['unit'] = getattr(v, 'unit', None)
        if v is not None and kw == 'int':
            rec['signed'] = not bool(getattr(v, 'unsigned', False))
        rec['type'] = ('u' if rec['signed'] is False else '') + kw + (str(rec['bits']) if rec['bits'] else '')
        if v is None or v.value is None:
            rec['extra']['is_none'] = True
            rec['values'] = [None]
        symbols[node.name] = rec
    return _result('ok', '', symbols=symbols, defined=[n.name for n in env.nodes], compiles=1)


def scan_defined(backend, text):
    """names declared by a C / C++ / Fortran / Rust file (line scan of the rigid one-declaration-per-line layout)"""
    f = dict(c=scan_c_defined, cpp=scan_c_defined, fortran=scan_fortran_defined, rust=scan_rust_defined)[backend]
    return [n for ln, n in f(text)]


READERS = dict(c=read_c, cpp=read_cpp, fortran=read_fortran, rust=read_rust, bash=read_bash, json=read_json,
               yaml=read_yaml, toml=read_toml, dip=read_dip)


# =========================================================================== tool self-test

_SELFTEST = {}


def selftest(backend):
    """compile / load a trivial known-good file once per process; a failure is a harness problem, not a finding"""
    if backend in _SELFTEST:
        return
    if backend in ('c', 'cpp'):
        r = read_c('#ifndef G_H\n#define G_H\n\nconst int ZQ_OK = 7;\n\n#endif /* G_H */', [dict(name='ZQ_OK', kind='int')],
                   cpp=(backend == 'cpp'))
    elif backend == 'fortran':
        r = read_fortran('module ConfigurationModule\n  implicit none\n\n  integer, parameter :: ZQ_OK = 7;\n\n'
                         'end module ConfigurationModule', [dict(name='ZQ_OK', kind='int')])
    elif backend == 'rust':
        r = read_rust('pub const ZQ_OK: i32 = 7;', [dict(name='ZQ_OK', kind='int')])
    elif backend == 'bash':
        r = read_bash('export ZQ_OK=7', [])
    elif backend == 'json':
        r = read_json('{"ZQ_OK": 7}')
    elif backend == 'yaml':
        r = read_yaml('ZQ_OK: 7')
    elif backend == 'toml':
        r = read_toml('ZQ_OK = 7')
    elif backend == 'dip':
        r = read_dip('ZQ_OK int = 7')
    else:
        raise HarnessProblem('unknown back-end ' + backend)
    v = r['symbols'].get('ZQ_OK', {}).get('values')
    if r['status'] != 'ok' or v not in ([7], ['7']):
        raise HarnessProblem('reader self-test failed for %s: %s %s' % (backend, r['status'], r['message'][-600:]))
    _SELFTEST[backend] = True
