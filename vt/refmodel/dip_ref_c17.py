"""Reference semantics for DIP references (property C17): value injections, node imports, sources.

A *program* is a structure, never text that the repo parsed:

    dict(base=[stmt..]|None, remote=[stmt..]|None, main=[stmt..], extra=dict(stmt=.., expect='fail'|'fail-or-noop', kind=..)|None)

    stmt kinds:  unit, source, group, def, mod, inj (mode def|mod), imp
    base   : text parsed first; main is parsed on top of the resulting environment (DIP(env0))
    remote : text of a second file, bound by `$source r = <file>` (in main, or in base)

`render(stmts, files)` gives the DIP text; `run_model(program, flags, with_extra)` gives what the statement of C17
demands (flags = empty set) or what the recorded defects produce (flags = subset of F_*), see `interp`.

Also here (shared by C17 and C18): StepGuard, the logical-step budget (sys.monitoring tool id 3, PY_START|JUMP).
"""
import sys, copy, math
from vt.refmodel.dip_ref_c18 import (unit_fd, render_unit, apply_slice, render_slice, render_items, shape_of, NODIM)


# ----------------------------------------------------------------------------- step budget

class StepBudgetExceeded(BaseException):
    pass


class StepGuard:
    """counts PY_START and JUMP events of everything called through run(); raises inside the monitored code when the
    budget max(floor, factor * largest accepted count) is exceeded"""
    TOOL = 3

    def __init__(self, floor=5_000_000, factor=200):
        self.mon = sys.monitoring
        self.floor, self.factor = floor, factor
        self.max_ok = 0
        self.runs = 0
        self.st = [0, 0, False, False]           # count, limit, active, tripped
        try:
            self.mon.use_tool_id(self.TOOL, 'vt-step-budget')
        except ValueError:
            self.mon.free_tool_id(self.TOOL)
            self.mon.use_tool_id(self.TOOL, 'vt-step-budget')
        st = self.st

        own = StepGuard.run.__code__       # events of the guard's own frame never count and never raise

        def on_start(code, offset):
            if code is own:
                return
            st[0] += 1
            if st[2] and st[0] > st[1]:
                st[3] = True
                st[1] += 50_000             # raise again later if the code under test swallows the exception
                raise StepBudgetExceeded(st[0])

        def on_jump(code, src, dst):
            if code is own:
                return
            st[0] += 1
            if st[2] and st[0] > st[1]:
                st[3] = True
                st[1] += 50_000
                raise StepBudgetExceeded(st[0])
        ev = self.mon.events
        self.mon.register_callback(self.TOOL, ev.PY_START, on_start)
        self.mon.register_callback(self.TOOL, ev.JUMP, on_jump)
        self.events = ev.PY_START | ev.JUMP

    def run(self, fn):
        """-> (kind, result, steps): ('ok', value) | ('exc', exception) | ('budget', None)"""
        st = self.st
        st[0], st[1], st[3] = 0, max(self.floor, self.factor * self.max_ok), False
        self.runs += 1
        res = None
        kind = 'ok'
        self.mon.set_events(self.TOOL, self.events)
        st[2] = True
        try:
            try:
                res = fn()
            except StepBudgetExceeded:
                kind = 'budget'
            except Exception as e:         # noqa
                kind, res = 'exc', e
        finally:
            st[2] = False
            self.mon.set_events(self.TOOL, 0)
        n = st[0]
        if st[3]:
            kind, res = 'budget', None
        else:
            self.max_ok = max(self.max_ok, n)
        return kind, res, n

    def take_runs(self):
        n, self.runs = self.runs, 0
        return n

    def close(self):
        try:
            self.mon.set_events(self.TOOL, 0)
            self.mon.free_tool_id(self.TOOL)
        except Exception:
            pass


# ----------------------------------------------------------------------------- recorded defect mechanisms (twin flags)

F_STALE = 'C17-injection-after-modification-delivers-definition-value'
F_EMPTY = 'C17-empty-import-leaves-unreadable-entry'
F_STRSLICE = 'C17-string-slice-injection-json-error'
F_REINJECT = 'C17-import-of-injection-defined-node-reinjects'
F_MODSLICE = 'C17-slice-in-modification-injection-fails'
F_UNITDEF = 'C17-custom-unit-definition-drops-unit-magnitude'
F_RESIDUE = 'C17-multi-axis-slice-residue-reapplied-on-import-or-modification'
# second shape of the same defect: once plain strings can be sliced at all, the slice of a modification is dropped
# silently for strings as well (instead of the JSON error of the first shape)
F_MODSLICE_B = F_MODSLICE + '#string-slice-dropped'
ALL_FLAGS = [F_STALE, F_EMPTY, F_STRSLICE, F_REINJECT, F_MODSLICE, F_MODSLICE_B, F_UNITDEF, F_RESIDUE]


def key_of(flag):
    return flag.split('#')[0]

SIG_COUNT = ['Path returned invalid number of nodes:', 'Local nodes are not available for DIP import:',
             'Source with the following name does not exist:']
SIG_CAST = ['Could not convert raw value to type:', 'Array value set to scalar node:', 'has invalid dimension',
            'IndexError', 'ValueError', 'TypeError']


SIG_RES = ['has invalid dimension', 'IndexError', 'Array value set to scalar node:']


class ModelFail(Exception):
    """the program must be rejected (flags empty) / is rejected by a recorded defect (flags non-empty)"""

    def __init__(self, reason, sigs=None, flag=None, payload=None, who=None, line=None):
        Exception.__init__(self, reason)
        self.line = line            # exact source line of the statement whose own node object fails to cast
        self.reason, self.sigs, self.flag = reason, sigs, flag
        self.payload = payload      # the value the real code is expected to choke on (third argument of its exception)
        self.who = who              # path of the node whose cast fails (its source line is the second argument)


# ----------------------------------------------------------------------------- rendering

def lit_text(st):
    if st.get('items') is not None:
        if st.get('type') == 'str':
            return '[' + ','.join('"%s"' % x for x in st['items']) + ']'
        return render_items(st['items'])
    t = st['text']
    if st.get('type') == 'str' and ' ' in t:
        return '"%s"' % t
    return t


def render_stmt(st, files):
    k = st['k']
    ind = ' ' * st.get('indent', 0)
    if k == 'unit':
        return ['$unit %s = %s %s' % (st['name'], st['text'], render_unit(st['unit']))]
    if k == 'source':
        return ['$source %s = %s' % (st['name'], files[st['name']])]
    if k == 'group':
        return [ind + st['name']]
    if k == 'def':
        decl = st['type'] + ('[%s]' % ','.join(str(x) for x in st['dim']) if st.get('dim') else '')
        u = render_unit(st.get('unit'))
        lines = [ind + '%s %s = %s%s' % (st['name'], decl, lit_text(st), (' ' + u) if u else '')]
        sub = ind + '  '
        if st.get('opts'):
            if st.get('optform') == 'list':
                ou = render_unit(st['opts'][0][1])
                lines.append(sub + '!options [%s]%s' % (','.join(o[0] for o in st['opts']), (' ' + ou) if ou else ''))
            else:
                for t, ou in st['opts']:
                    ou = render_unit(ou)
                    lines.append(sub + '= %s%s' % (t, (' ' + ou) if ou else ''))
        if st.get('cond'):
            op, t, cu = st['cond']
            cu = render_unit(cu)
            lines.append(sub + '!condition ("{?} %s %s%s")' % (op, t, (' ' + cu) if cu else ''))
        if st.get('const'):
            lines.append(sub + '!constant')
        return lines
    if k == 'mod':
        u = render_unit(st.get('unit'))
        return ['%s = %s%s' % (st['path'], lit_text(st), (' ' + u) if u else '')]
    if k == 'inj':
        ref = '{%s?%s}%s' % (st.get('src') or '', st['query'], render_slice(st.get('slice')))
        u = render_unit(st.get('unit'))
        if st['mode'] == 'def':
            decl = st['type'] + ('[%s]' % ','.join(str(x) for x in st['dim']) if st.get('dim') else '')
            return [ind + '%s %s = %s%s' % (st['name'], decl, ref, (' ' + u) if u else '')]
        return ['%s = %s%s' % (st['path'], ref, (' ' + u) if u else '')]
    if k == 'imp':
        ref = '{%s?%s}' % (st.get('src') or '', st['query'])
        if st['form'] == 'root':
            return [ref]
        if st['form'] == 'inline':
            return ['%s %s' % (st['into'], ref)]
        return [st['into'], '  ' + ref]
    raise ValueError(st)


def render(stmts, files=None):
    out = []
    for st in stmts:
        out += render_stmt(st, files or {})
    return '\n'.join(out) + '\n'


# ----------------------------------------------------------------------------- values

def py_value(typ, st):
    def one(t):
        if typ == 'float':
            return float(t)
        if typ == 'int':
            return int(t)
        if typ == 'bool':
            return t == 'true'
        return t
    if st.get('items') is not None:
        def conv(x):
            return [conv(y) for y in x] if isinstance(x, list) else one(x)
        return conv(st['items'])
    return one(st['text'])


def vshape(v):
    s = []
    while isinstance(v, list):
        s.append(len(v))
        v = v[0] if v else None
    return s


def vmap(v, fn):
    return [vmap(x, fn) for x in v] if isinstance(v, list) else fn(v)


def cast(v, typ):
    if typ == 'float':
        return vmap(v, float)
    if typ == 'int':
        return vmap(v, int)
    return v


def convert(v, u_from, u_to, customs):
    """linear conversion into the host's definition unit; no-op when either side has no unit or they are the same"""
    if not u_from or not u_to or render_unit(u_from) == render_unit(u_to):
        return v
    f1, d1 = unit_fd(u_from, customs)
    f2, d2 = unit_fd(u_to, customs)
    if d1 != d2:
        raise ModelFail('conversion across dimensions', ['Unsupported conversion between units:'])
    return vmap(v, lambda x: x * f1 / f2)


class MNode:
    __slots__ = ('path', 'type', 'value', 'unit', 'opts', 'cond', 'const', 'raw', 'ref', 'origin', 'nmod', 'src_mod', 'used',
                 'residue')

    def __init__(self, **kw):
        self.opts = self.cond = self.ref = None
        self.const = False
        self.nmod = 0
        self.src_mod = False
        self.used = False
        self.residue = []       # axes of a multi-axis injection slice the real node object still carries
        for k, v in kw.items():
            setattr(self, k, v)

    def clone(self):
        n = MNode()
        for k in self.__slots__:
            setattr(n, k, copy.deepcopy(getattr(self, k)))
        return n


class MEnv:
    def __init__(self):
        self.nodes = {}        # insertion ordered
        self.units = {}        # '[name]' -> (factor, dims)
        self.unit_defs = []    # names in order
        self.sources = {}      # name -> MEnv
        self.unreadable = 0    # entries left by empty imports (twin only)
        self.classes = set()

    def clone(self):
        e = MEnv()
        e.nodes = {k: v.clone() for k, v in self.nodes.items()}
        e.units = dict(self.units)
        e.unit_defs = list(self.unit_defs)
        e.sources = dict(self.sources)
        return e


def query(nodes, q):
    """-> [(relative name, node)] : exact path, children wildcard 'path.*', global wildcard '*'"""
    if q == '*':
        return [(p, n) for p, n in nodes.items()]
    if q.endswith('.*'):
        pre = q[:-1]
        return [(p[len(pre):], n) for p, n in nodes.items() if p.startswith(pre)]
    return [(p.split('.')[-1], n) for p, n in nodes.items() if p == q]


def resolve(env, src, q):
    if src:
        if src not in env.sources:
            raise ModelFail('unknown source', SIG_COUNT)
        return query(env.sources[src].nodes, q)
    return query(env.nodes, q)


def check_constraints(env, customs):
    for p, n in env.nodes.items():
        if n.opts and not isinstance(n.value, list):
            ok = False
            for ov, ou in n.opts:
                if n.type == 'str':
                    ok = ok or ov == n.value
                else:
                    a = float(convert(ov, ou or n.unit, n.unit, customs))
                    b = float(n.value)
                    ok = ok or abs(a - b) <= 1e-6 * max(abs(a), abs(b))
            if not ok:
                raise ModelFail('value not among options', ["doesn't match with any option"])
        if n.cond and not isinstance(n.value, list):
            op, t, cu = n.cond
            f1, _ = unit_fd(n.unit, customs)
            f2, _ = unit_fd(cu, customs)
            a, b = float(n.value) * f1, float(t) * f2
            if not (a < b if op == '<' else a > b):
                raise ModelFail('condition violated', ['Node does not fullfil a condition:'])


def fit_host(v, D, typ, sl, flags, who=None):
    """shape of a delivered value against the host's declared shape D.  Documented semantics: they must agree.
    With the stale-raw-value defect the real checks decide: only the declared axes are compared (extra axes pass), a
    scalar str host takes the source text of an array as it was written, anything else fails to cast."""
    S = vshape(v)
    if S == D:
        return v
    if F_STALE not in flags:
        raise ModelFail('delivered shape %r does not fit host %r' % (S, D), SIG_CAST)
    if not D:
        if typ == 'str' and not sl and isinstance(v, list) and all(isinstance(x, str) for x in v):
            return lit_text(dict(items=v, type='str'))
        raise ModelFail('array delivered to a scalar host',
                        ['Array value set to scalar node:'] if sl else ['Could not convert raw value to type:'],
                        F_STALE, payload=None if sl else v, who=who)
    if len(S) < len(D):
        raise ModelFail('delivered value has fewer axes than the host', ['IndexError'], F_STALE)
    if S[:len(D)] != D:
        raise ModelFail('delivered shape %r does not fit host %r' % (S, D), ['has invalid dimension'], F_STALE, who=who)
    return v


def residue_cast(node, v, flags):
    """recorded defect: only the first axis of the slice of `x = {ref}[i,j]` is consumed at definition; the rest is
    applied again whenever the node object casts a value (modification, re-creation of an imported copy)"""
    if F_RESIDUE not in flags or not node.residue:
        return v
    res, node.residue = node.residue, node.residue[1:]
    try:
        r = apply_slice(v, res)
    except (IndexError, TypeError):
        raise ModelFail('slice residue does not fit', SIG_RES, F_RESIDUE)
    if vshape(r) != vshape(node.value):
        raise ModelFail('slice residue changes the shape', SIG_RES, F_RESIDUE)
    return r


def interp(stmts, env, flags, remotes, where='main'):
    """run statements on env (mutated).  Raises ModelFail when the text must be / is rejected."""
    C = env.classes
    for st in stmts:
        k = st['k']
        customs = env.units
        if k == 'unit':
            f, d = unit_fd(st['unit'], customs)
            if F_UNITDEF in flags:
                f = 1e-3 ** d[1]       # only <value> x the library's base units (m, g, s) survive the definition
            env.units = dict(env.units)
            env.units['[' + st['name'] + ']'] = (float(st['text']) * f, d)
            env.unit_defs.append('[' + st['name'] + ']')
            C.add('custom-unit-defined')
        elif k == 'source':
            r = remotes.get(st['name'])
            if isinstance(r, ModelFail):
                raise ModelFail('remote source rejected: ' + r.reason, r.sigs, r.flag, r.payload, r.who, r.line)
            env.sources[st['name']] = r
        elif k == 'group':
            pass
        elif k == 'def':
            v = py_value(st['type'], st)
            n = MNode(path=st['path'], type=st['type'], value=v, unit=st.get('unit'), raw=copy.deepcopy(v), origin='def')
            if st.get('opts'):
                n.opts = [(py_value(st['type'], dict(text=t)), ou) for t, ou in st['opts']]
                # the real code keeps float options converted into the node's unit; the model compares physically
            if st.get('cond'):
                n.cond = tuple(st['cond'])
            n.const = bool(st.get('const'))
            env.nodes[st['path']] = n
        elif k == 'mod':
            h = env.nodes.get(st['path'])
            if h is None:
                raise ModelFail('modification of an undefined node', ['Modifying undefined node:'])
            if h.const:
                raise ModelFail('modification of a constant', ['is constant and cannot be modified'])
            v = cast(py_value(h.type, st), h.type)
            v = residue_cast(h, v, flags)
            h.value = convert(v, st.get('unit'), h.unit, customs)
            h.nmod += 1
            C.add('plain-modification')
            if h.used:
                C.add('source-modified-after-injection')
            if h.origin == 'inj':
                C.add('host-modified-after-injection')
            if h.origin == 'imp':
                C.add('imported-copy-modified-later')
            if st.get('unit') and h.unit and render_unit(st['unit']) != render_unit(h.unit):
                C.add('modification-converts-unit')
        elif k == 'inj':
            ms = resolve(env, st.get('src'), st['query'])
            if len(ms) != 1:
                raise ModelFail('injection request selects %d nodes' % len(ms), SIG_COUNT)
            m = ms[0][1]
            srcval = m.raw if F_STALE in flags else m.value
            sl = st.get('slice')
            isstr = m.type == 'str' and not isinstance(m.value, list)
            C.add('injection')
            C.add('source-remote' if st.get('src') else ('source-base' if st['query'] in env.base_paths else 'source-local'))
            m.used = True
            if m.nmod:
                C.add('source-modified-before-injection')
            if sl:
                C.add('slice')
                C.add('slice-string' if isstr else 'slice-%dd' % len(vshape(m.value)))
                if any(a is None or a != b for a, b in sl):
                    C.add('slice-range')
                else:
                    C.add('slice-index')
            if st['mode'] == 'def':
                if sl and isstr and F_STRSLICE in flags:
                    raise ModelFail('string slice', ['JSONDecodeError'], F_STRSLICE, line=render_stmt(st, {})[0])
                try:
                    v = apply_slice(srcval, sl)
                except (IndexError, TypeError):
                    raise ModelFail('slice does not fit the delivered value', SIG_CAST, F_STALE)
                v = fit_host(v, list(st.get('dim') or []), st['type'], sl, flags, st['path'])
                unit = st.get('unit') or m.unit
                try:
                    val = cast(v, st['type'])
                except (ValueError, TypeError):
                    raise ModelFail('value cannot be cast', SIG_CAST, F_STALE if F_STALE in flags else None)
                n = MNode(path=st['path'], type=st['type'], value=val, unit=unit, raw=copy.deepcopy(m.raw),
                          origin='inj', ref=(st.get('src'), st['query']))
                n.src_mod = bool(m.nmod)
                if sl and len(sl) >= 2:
                    n.residue = [list(x) for x in sl[1:]]
                    C.add('host-of-multi-axis-slice')
                env.nodes[st['path']] = n
                C.add('host-own-unit' if st.get('unit') else ('host-adopts-unit' if m.unit else 'host-and-source-unitless'))
                C.add('injection-in-definition')
                C.add('injected-' + ('array' if isinstance(val, list) else st['type']))
            else:
                h = env.nodes.get(st['path'])
                if h is None:
                    raise ModelFail('modification of an undefined node', ['Modifying undefined node:'])
                if h.const:
                    raise ModelFail('modification of a constant', ['is constant and cannot be modified'])
                C.add('injection-in-modification')
                if sl:
                    C.add('slice-in-modification')
                if sl and isstr and F_MODSLICE in flags:
                    raise ModelFail('string slice in a modification', ['JSONDecodeError'], F_MODSLICE,
                                    line=render_stmt(st, {})[0])
                if sl and isstr and F_MODSLICE_B in flags:
                    v = srcval
                    if isinstance(v, list):
                        raise ModelFail('array delivered to a scalar host', SIG_CAST, F_STALE, payload=v, who=h.path)
                elif sl and (F_MODSLICE in flags or F_MODSLICE_B in flags) and not isstr:
                    try:
                        part = apply_slice(srcval, sl)
                    except (IndexError, TypeError):
                        raise ModelFail('slice does not fit', SIG_CAST, F_MODSLICE)
                    if isinstance(part, list):
                        raise ModelFail('slice of a modification yields an array', ['Array value set to scalar node:'], F_MODSLICE)
                    v = srcval          # the slice is dropped, the whole raw value is cast onto the host
                    if F_RESIDUE in flags and h.residue:
                        v = residue_cast(h, v, flags)    # ... through whatever slice residue the host still carries
                    if vshape(v) != vshape(h.value):
                        raise ModelFail('unsliced value does not fit host', SIG_CAST, F_MODSLICE, payload=v, who=h.path)
                else:
                    try:
                        v = apply_slice(srcval, sl)
                    except (IndexError, TypeError):
                        raise ModelFail('slice does not fit the delivered value', SIG_CAST, F_STALE)
                    v = fit_host(v, vshape(h.value), h.type, sl, flags, h.path)
                try:
                    v = cast(v, h.type)
                except (ValueError, TypeError):
                    raise ModelFail('value cannot be cast', SIG_CAST, F_STALE if F_STALE in flags else None)
                u = st.get('unit') or m.unit
                v = residue_cast(h, v, flags)
                h.value = convert(v, u, h.unit, customs)
                h.nmod += 1
                C.add('host-own-unit' if st.get('unit') else ('host-adopts-unit' if m.unit else 'host-and-source-unitless'))
                if u and h.unit and render_unit(u) != render_unit(h.unit):
                    C.add('injection-converted-into-definition-unit')
        elif k == 'imp':
            ms = resolve(env, st.get('src'), st['query'])
            q = st['query']
            form = 'import-all' if q == '*' else ('import-children' if q.endswith('.*') else 'import-single')
            if not ms:
                C.add('empty-import')
                if F_EMPTY in flags:
                    env.unreadable += 1
                continue
            C.add(form)
            C.add('import-remote' if st.get('src') else 'import-local')
            C.add('import-form-' + st['form'])
            for rel, m in ms:
                newpath = (st['into'] + '.' + rel) if st['into'] else rel
                if not st.get('src') and m.path in env.base_paths:
                    C.add('import-base')
                n = m.clone()
                n.path = newpath
                n.origin = 'imp'
                n.nmod = 0
                n.used = False
                if m.nmod:
                    C.add('import-of-modified-node')
                if m.residue:
                    C.add('import-of-multi-axis-slice-host')
                n.value = residue_cast(n, n.value, flags)
                if m.ref is not None:
                    C.add('import-of-injection-defined-node')
                    if F_REINJECT in flags:
                        rs = resolve(env, m.ref[0], m.ref[1])
                        if len(rs) != 1:
                            raise ModelFail('re-injection on import selects %d nodes' % len(rs), SIG_COUNT, F_REINJECT)
                        n.raw = copy.deepcopy(rs[0][1].raw)
                        if not n.unit:
                            n.unit = rs[0][1].unit      # ... and a unit-less copy adopts the unit of whatever it found
                if m.opts:
                    C.add('import-with-options')
                if m.cond:
                    C.add('import-with-condition')
                if m.const:
                    C.add('import-of-constant')
                if newpath in env.nodes:
                    raise ModelFail('import collides with an existing node (generator error)', [])
                env.nodes[newpath] = n
        else:
            raise ValueError(st)
    check_constraints(env, env.units)
    return env


def run_model(prog, flags=frozenset(), with_extra=False):
    """-> dict(kind='ok'|'fail', env=MEnv|None, base=MEnv|None, remote=MEnv|ModelFail|None, fail=ModelFail|None)"""
    flags = frozenset(flags)
    out = dict(kind='ok', env=None, base=None, remote=None, fail=None, classes=set())
    remotes = {}
    if prog.get('remote') is not None:
        try:
            r = interp(prog['remote'], MEnv(), flags, {}, 'remote')
            out['classes'] |= {'remote:' + c for c in r.classes if c in ('plain-modification', 'injection')}
        except ModelFail as f:
            r = f
        remotes['r'] = r
        out['remote'] = r
    try:
        if prog.get('base') is not None:
            b = interp(prog['base'], MEnv(), flags, remotes, 'base')
            out['base'] = b
            env = b.clone()
            env.base_paths = set(b.nodes)
            env.classes = set()
            where = 'main-on-base'
        else:
            env = MEnv()
            env.base_paths = set()
            where = 'main'
        main = list(prog['main'])
        if with_extra and prog.get('extra'):
            main = main + [prog['extra']['stmt']] + list(prog['extra'].get('tail', []))
        out['env'] = env
        interp(main, env, flags, remotes, where)
        out['classes'] |= env.classes
    except ModelFail as f:
        out['kind'], out['fail'] = 'fail', f
        if out['env'] is not None:
            out['classes'] |= out['env'].classes
    return out


MEnv.base_paths = frozenset()


# ----------------------------------------------------------------------------- generator

NAME_POOL = ['g', 'gx', 'ga', 'a', 'ab', 'b', 'box', 'bo', 'sub', 's', 'n', 'nn', 'v', 'vv', 'w', 'x', 'xy', 'k', 'kap']
FLOATS = ['1.5', '2', '3', '4.5', '7', '12', '0.25', '25', '1e2', '2.5e1', '-3', '-1.5', '6', '0.5', '40', '8.75']
INTS = ['1', '2', '3', '5', '8', '12', '-4', '20', '7', '150']
WORDS = ['abc', 'hello', 'standard', 'Will Smith', 'config', 'north', 'xyz', 'alphabet', 'two words']
UNITSETS = [['mm', 'cm', 'm', 'km'], ['g', 'kg', 'mg'], ['s', 'ms', 'min']]


class Gen:
    def __init__(self, rng):
        self.rng = rng
        self.hostn = 0

    # ---- literals
    def scalar_text(self, typ, avoid=None):
        rng = self.rng
        for _ in range(20):
            t = (rng.choice(FLOATS) if typ == 'float' else rng.choice(INTS) if typ == 'int' else
                 rng.choice(['true', 'false']) if typ == 'bool' else rng.choice(WORDS))
            if t != avoid:
                return t
        return t

    def items(self, typ, shape):
        if len(shape) == 1:
            return [self.scalar_text(typ) for _ in range(shape[0])]
        return [self.items(typ, shape[1:]) for _ in range(shape[0])]

    def unit(self, custom):
        rng = self.rng
        if custom and rng.random() < 0.3:
            return [(rng.choice(custom), 1)]
        if rng.random() < 0.08:
            return [('m', 1), ('s', -1)] if rng.random() < 0.5 else [('km', 1), ('h', -1)]
        return [(rng.choice(rng.choice(UNITSETS)), 1)]

    def other_unit(self, u, customs, env_units):
        """another unit of the same dimension (or the same one)"""
        rng = self.rng
        f, d = unit_fd(u, env_units)
        cands = []
        for us in UNITSETS:
            for s in us:
                if unit_fd([(s, 1)], None)[1] == d:
                    cands.append([(s, 1)])
        for s, (cf, cd) in (env_units or {}).items():
            if cd == d:
                cands.append([(s, 1)])
        if d == (1, 0, -1):
            cands += [[('m', 1), ('s', -1)], [('km', 1), ('h', -1)], [('cm', 1), ('ms', -1)]]
        return rng.choice(cands) if cands else u

    # ---- tree of definitions
    def tree(self, custom_syms, env_units, allow_constraints=True):
        """-> list of def/group statements of a random hierarchy"""
        rng = self.rng
        stmts = []
        names = NAME_POOL[:]
        rng.shuffle(names)

        def node(name, path, indent, children_ok):
            typ = rng.choice(['float'] * 9 + ['int'] * 4 + ['str'] * 3 + ['bool'] * 2)
            st = dict(k='def', name=name, path=path, indent=indent, type=typ, dim=None, unit=None)
            r = rng.random()
            if r < 0.22 and typ in ('float', 'int', 'str'):
                shape = rng.choice([[3], [4], [2, 2], [2, 3]]) if typ != 'str' else rng.choice([[2], [3]])
                st['dim'] = shape
                st['items'] = self.items(typ, shape) if typ != 'str' else self._str_items(shape)
            else:
                st['text'] = self.scalar_text(typ)
            if typ == 'float' and rng.random() < 0.75:
                st['unit'] = self.unit(custom_syms)
            elif typ == 'int' and rng.random() < 0.3:
                st['unit'] = self.unit(None)
            if allow_constraints and st['dim'] is None:
                c = rng.random()
                if typ in ('float', 'int') and c < 0.2:
                    others = []
                    while len(others) < rng.choice([1, 2]):
                        t = self.scalar_text(typ)
                        if t != st['text'] and t not in others:
                            others.append(t)
                    opts = [[st['text'], st['unit']]] + [[t, st['unit']] for t in others]
                    rng.shuffle(opts)
                    st['opts'] = opts
                    st['optform'] = rng.choice(['list', 'lines'])
                elif typ == 'str' and c < 0.2:
                    others = [w for w in WORDS if w != st['text'] and ' ' not in w]
                    if ' ' not in st['text']:
                        st['opts'] = [[st['text'], None]] + [[w, None] for w in rng.sample(others, 2)]
                        st['optform'] = 'lines'
                elif typ == 'float' and c < 0.38:
                    v = float(st['text'])
                    cu = st['unit']
                    if rng.random() < 0.5:
                        st['cond'] = ['<', '1e3', cu]
                    else:
                        st['cond'] = ['>', '-1e3', cu]
                elif typ == 'int' and st['unit'] is None and c < 0.38:
                    st['cond'] = rng.choice([['<', '1000', None], ['>', '-1000', None]])
                elif c < 0.46:
                    st['const'] = True
            stmts.append(st)
            if children_ok and rng.random() < 0.2 and names:
                for _ in range(rng.choice([1, 2])):
                    if names:
                        nm = names.pop()
                        node(nm, path + '.' + nm, indent + 2, False)

        def group(name, path, indent, depth):
            stmts.append(dict(k='group', name=name, indent=indent))
            n = rng.choice([1, 2, 2, 3])
            for _ in range(n):
                if not names:
                    break
                nm = names.pop()
                if depth < 2 and rng.random() < 0.3:
                    group(nm, path + '.' + nm, indent + 2, depth + 1)
                else:
                    node(nm, path + '.' + nm, indent + 2, depth < 2)

        for _ in range(rng.choice([2, 3, 3, 4])):
            if not names:
                break
            nm = names.pop()
            if rng.random() < 0.55:
                group(nm, nm, 0, 0)
            else:
                node(nm, nm, 0, True)
        if not any(s['k'] == 'def' for s in stmts):
            node('solo', 'solo', 0, False)
        return stmts

    def _str_items(self, shape):
        rng = self.rng
        return [rng.choice([w for w in WORDS if ' ' not in w]) for _ in range(shape[0])]

    # ---- actions on a running (correct) model
    def new_value_for(self, h):
        """literal statement fields (text|items) of a new value for model node h respecting its constraints"""
        rng = self.rng
        if h.opts:
            ov, ou = rng.choice(h.opts)
            t = repr(ov) if h.type == 'float' else str(ov)
            if h.type == 'float':
                t = ('%g' % ov)
            return dict(text=t, unit=ou), True
        if isinstance(h.value, list):
            typ = h.type
            if typ == 'str':
                return dict(items=self._str_items(vshape(h.value))), False
            return dict(items=self.items(typ, vshape(h.value))), False
        cur = None
        return dict(text=self.scalar_text(h.type, avoid=cur)), False

    def act_mod(self, env):
        rng = self.rng
        # array nodes are never modified: every modification of an array raises in set_value (C14 territory)
        cands = [n for n in env.nodes.values() if not n.const and not isinstance(n.value, list)]
        if not cands:
            return None
        h = rng.choice(cands)
        fields, fixed_unit = self.new_value_for(h)
        st = dict(k='mod', path=h.path, type=h.type)
        st.update(fields)
        if fixed_unit:
            pass
        elif h.unit and h.type == 'float':
            r = rng.random()
            st['unit'] = None if r < 0.3 else (h.unit if r < 0.5 else self.other_unit(h.unit, None, env.units))
        elif h.unit and h.type == 'int':
            st['unit'] = rng.choice([None, h.unit])
        else:
            st['unit'] = None
        return st

    def pick_source(self, env):
        """-> (src name|None, MNode) among local nodes and bound sources"""
        rng = self.rng
        spaces = []
        if env.nodes:
            spaces.append((None, list(env.nodes.values())))
        for name, r in env.sources.items():
            if isinstance(r, MEnv) and r.nodes:
                spaces.append((name, list(r.nodes.values())))
        if not spaces:
            return None
        # prefer remote/base material when it exists
        src, nodes = rng.choice(spaces)
        # prefer nodes that were modified (the interesting class) half of the time
        mod = [n for n in nodes if n.nmod]
        if mod and rng.random() < 0.5:
            return src, rng.choice(mod)
        return src, rng.choice(nodes)

    def slice_for(self, m):
        rng = self.rng
        v = m.value
        shp = vshape(v)
        if not shp:
            if m.type == 'str' and len(v) >= 3 and rng.random() < 0.3:
                L = len(v)
                c = rng.random()
                if c < 0.4:
                    return [[rng.randrange(1, L), None]]
                if c < 0.6:
                    return [[None, rng.randrange(1, L)]]
                a = rng.randrange(0, L - 1)
                return [[a, rng.randrange(a + 1, L + 1)]]
            return None
        if rng.random() < 0.3:
            return None
        sl = []
        for n in shp:
            c = rng.random()
            if c < 0.45:
                i = rng.randrange(n)
                sl.append([i, i])
            elif c < 0.6:
                sl.append([None, None])
            elif c < 0.8:
                a = rng.randrange(0, n - 1) if n > 1 else 0
                sl.append([a, None] if a else [None, None])
            else:
                a = rng.randrange(0, n)
                b = rng.randrange(a + 1, n + 1)
                sl.append([a, b] if b - a < n else [None, None])
        if all(a is None and b is None for a, b in sl):
            return None
        # a trailing full range can be left out
        while sl and sl[-1] == [None, None] and rng.random() < 0.5:
            sl.pop()
        return sl or None

    def act_inj_def(self, env):
        rng = self.rng
        ps = self.pick_source(env)
        if not ps:
            return None
        src, m = ps
        sl = self.slice_for(m)
        try:
            v = apply_slice(m.value, sl)
        except Exception:
            return None
        shp = vshape(v)
        if shp and 0 in shp:
            return None
        typ = m.type
        if typ == 'int' and rng.random() < 0.2:
            typ = 'float'
        self.hostn += 1
        name = 'h%d' % self.hostn
        unit = None
        if m.type in ('float', 'int') and rng.random() < 0.5:
            if m.unit:
                unit = self.other_unit(m.unit, None, env.units)
            elif typ == 'float':
                unit = self.unit(None)
            if typ == 'int' and unit and m.unit and render_unit(unit) != render_unit(m.unit):
                unit = m.unit
        return dict(k='inj', mode='def', indent=0, name=name, path=name, type=typ, dim=shp or None, src=src,
                    query=m.path, slice=sl, unit=unit)

    def act_inj_mod(self, env):
        rng = self.rng
        for _ in range(12):
            ps = self.pick_source(env)
            if not ps:
                return None
            src, m = ps
            sl = self.slice_for(m)
            if sl and m.type == 'str' and isinstance(m.value, list):
                continue            # (a dropped slice would silently deliver the array's source text to a str host)
            try:
                v = apply_slice(m.value, sl)
            except Exception:
                continue
            shp = vshape(v)
            hosts = [h for h in env.nodes.values()
                     if not h.const and not h.opts and not h.cond and (h is not m or src)
                     and (h.type == m.type or (h.type == 'float' and m.type == 'int'))
                     and vshape(h.value) == shp and not shp]
            rng.shuffle(hosts)
            for h in hosts:
                if m.type in ('float', 'int'):
                    unit = None
                    if h.unit is None:
                        if m.unit:
                            continue
                    else:
                        _, dh = unit_fd(h.unit, env.units)
                        if m.unit:
                            if unit_fd(m.unit, env.units)[1] != dh:
                                if rng.random() < 0.5:
                                    continue
                                unit = self.other_unit(h.unit, None, env.units)
                            elif rng.random() < 0.4:
                                unit = self.other_unit(h.unit, None, env.units)
                        else:
                            unit = self.other_unit(h.unit, None, env.units) if rng.random() < 0.6 else None
                    if h.type == 'int' and h.unit:
                        eff = unit or m.unit
                        if eff and render_unit(eff) != render_unit(h.unit):
                            continue
                    return dict(k='inj', mode='mod', path=h.path, type=h.type, src=src, query=m.path, slice=sl, unit=unit)
                return dict(k='inj', mode='mod', path=h.path, type=h.type, src=src, query=m.path, slice=sl, unit=None)
        return None

    def act_import(self, env, prefer_constrained=False):
        rng = self.rng
        spaces = []
        if env.nodes:
            spaces.append((None, env.nodes))
        for name, r in env.sources.items():
            if isinstance(r, MEnv) and r.nodes:
                spaces.append((name, r.nodes))
        if not spaces:
            return None
        src, nodes = rng.choice(spaces)
        paths = list(nodes)
        c = rng.random()
        q = None
        if prefer_constrained:
            cons = [p for p, n in nodes.items() if n.opts or n.cond or n.const]
            if cons:
                p = rng.choice(cons)
                q = p if rng.random() < 0.6 or '.' not in p else p.rsplit('.', 1)[0] + '.*'
        if q is None:
            if c < 0.2:
                q = '*'
            elif c < 0.6:
                parents = sorted({'.'.join(p.split('.')[:i]) for p in paths for i in range(1, len(p.split('.')))})
                q = (rng.choice(parents) + '.*') if parents else rng.choice(paths)
            else:
                q = rng.choice(paths)
        self.hostn += 1
        into = 'i%d' % self.hostn
        if rng.random() < 0.25:
            into += '.in'
        form = rng.choice(['block', 'inline', 'inline'])
        if form == 'block' and '.' in into:
            form = 'inline'
        ms = query(nodes, q)
        if src and rng.random() < 0.15 and not any(r in env.nodes or any(p.startswith(r + '.') or r.startswith(p + '.') for p in env.nodes) for r, _ in ms):
            form, into = 'root', ''
        return dict(k='imp', src=src, query=q, into=into, form=form)

    def violating_mod(self, env):
        """a modification of an imported, constrained node that must make parsing fail"""
        rng = self.rng
        cands = [n for n in env.nodes.values() if n.origin == 'imp' and not isinstance(n.value, list)
                 and (n.opts or n.cond or n.const)]
        if not cands:
            return None
        h = rng.choice(cands)
        if h.const:
            return dict(k='mod', path=h.path, type=h.type, text=self.scalar_text(h.type), unit=None), 'constant'
        if h.opts:
            vals = [ov for ov, ou in h.opts]
            for _ in range(30):
                t = self.scalar_text(h.type)
                v = py_value(h.type, dict(text=t))
                if h.type == 'str':
                    if v not in vals:
                        return dict(k='mod', path=h.path, type=h.type, text=t, unit=None), 'options'
                elif all(abs(float(v) - float(o)) > 1e-3 * max(abs(float(v)), abs(float(o))) for o in vals):
                    return dict(k='mod', path=h.path, type=h.type, text=t, unit=h.opts[0][1]), 'options'
            return None
        op, t, cu = h.cond
        bad = '5e3' if op == '<' else '-5e3'
        if h.type == 'int':
            bad = '5000' if op == '<' else '-5000'
        return dict(k='mod', path=h.path, type=h.type, text=bad, unit=cu), 'condition'

    def missing_query(self, nodes):
        for _ in range(10):
            q = self._missing_query(nodes)
            if not query(nodes, q) and not query(nodes, q + '.*'):
                return q
        return 'nothere'

    def _missing_query(self, nodes):
        rng = self.rng
        paths = list(nodes)
        p = rng.choice(paths) if paths else 'q'
        groups = sorted({'.'.join(x.split('.')[:i]) for x in paths for i in range(1, len(x.split('.')))} - set(paths))
        c = rng.random()
        if c < 0.3:
            return p + 'x'
        if c < 0.5 and groups:
            return rng.choice(groups)              # a group is not a node
        if c < 0.7 and len(p) > 1:
            return p[:-1] if p[:-1] not in nodes and not p[:-1].endswith('.') else 'nothere'
        return rng.choice(['nothere', 'zz.q'])

    def program(self):
        rng = self.rng
        mode = rng.choice(['local'] * 4 + ['remote'] * 3 + ['base'] * 3)
        prog = dict(base=None, remote=None, main=[], extra=None, mode=mode)
        customs = []
        flags = frozenset()

        def feed(stmts, env, st, remotes):
            """append st if the correct model accepts it"""
            trial = env.clone()
            trial.sources = dict(env.sources)
            trial.base_paths = getattr(env, 'base_paths', frozenset())
            try:
                interp([st], trial, flags, remotes, 'main')
            except ModelFail:
                return env, False
            stmts.append(st)
            return trial, True

        def seed(stmts, env, remotes, with_units):
            syms = []
            if with_units:
                u = dict(k='unit', name=rng.choice(['ua', 'len', 'ub']), text=rng.choice(['2', '2.5', '4', '0.5']),
                         unit=[(rng.choice(['m', 'cm', 'kg', 's']), 1)])
                env, _ = feed(stmts, env, u, remotes)
                syms = ['[' + u['name'] + ']']
            for st in self.tree(syms, env.units):
                env, ok = feed(stmts, env, st, remotes)
            return env

        def internal_actions(stmts, env, remotes, n):
            for _ in range(n):
                r = rng.random()
                st = self.act_mod(env) if r < 0.6 else (self.act_inj_def(env) if r < 0.85 else self.act_inj_mod(env))
                if st:
                    env, _ = feed(stmts, env, st, remotes)
            return env

        remotes = {}
        has_remote = mode == 'remote' or (mode == 'base' and rng.random() < 0.35)
        if has_remote:
            prog['remote'] = []
            renv = MEnv()
            renv = seed(prog['remote'], renv, {}, False)    # $units of a remote file are not visible to the importing text
            renv = internal_actions(prog['remote'], renv, {}, rng.choice([0, 1, 2, 3]))
            remotes['r'] = renv
        env = MEnv()
        if mode == 'base':
            prog['base'] = []
            if has_remote:
                env, _ = feed(prog['base'], env, dict(k='source', name='r'), remotes)
            env = seed(prog['base'], env, remotes, rng.random() < 0.3)
            env = internal_actions(prog['base'], env, remotes, rng.choice([0, 1, 2]))
            env = env.clone()
            env.sources = dict(env.sources)
            env.base_paths = set(env.nodes)
            if rng.random() < 0.3:
                u = dict(k='unit', name='um', text=rng.choice(['3', '1.5']), unit=[(rng.choice(['m', 'g', 's']), 1)])
                env, _ = feed(prog['main'], env, u, remotes)
        else:
            if has_remote:
                env, _ = feed(prog['main'], env, dict(k='source', name='r'), remotes)
            if mode == 'local' or rng.random() < 0.6:
                env = seed(prog['main'], env, remotes, rng.random() < 0.2)
        # ---- actions
        want_viol = rng.random() < 0.3
        for _ in range(rng.randint(4, 10)):
            r = rng.random()
            if r < 0.28:
                st = self.act_mod(env)
            elif r < 0.58:
                st = self.act_inj_def(env)
            elif r < 0.76:
                st = self.act_inj_mod(env)
            else:
                st = self.act_import(env, prefer_constrained=want_viol)
            if st:
                env, _ = feed(prog['main'], env, st, remotes)
        # ---- one extra statement that must fail (or add nothing)
        r = rng.random()
        extra = None
        if r < 0.15:
            ps_nodes = env.nodes if (not env.sources or rng.random() < 0.5) else None
            src = None
            if ps_nodes is None:
                src = rng.choice(list(env.sources))
                ps_nodes = env.sources[src].nodes
            self.hostn += 1
            extra = dict(stmt=dict(k='inj', mode='def', indent=0, name='h%d' % self.hostn, path='h%d' % self.hostn,
                                   type=rng.choice(['float', 'int', 'str']), dim=None, src=src,
                                   query=self.missing_query(ps_nodes), slice=None, unit=None),
                         expect='fail', kind='injection-zero-matches')
        elif r < 0.30:
            src = None
            nodes = env.nodes
            if env.sources and rng.random() < 0.5:
                src = rng.choice(list(env.sources))
                nodes = env.sources[src].nodes
            qs = ['*'] if len(nodes) >= 2 else []
            parents = sorted({'.'.join(p.split('.')[:i]) for p in nodes for i in range(1, len(p.split('.')))})
            qs += [p + '.*' for p in parents if len(query(nodes, p + '.*')) >= 2]
            if qs:
                self.hostn += 1
                extra = dict(stmt=dict(k='inj', mode='def', indent=0, name='h%d' % self.hostn, path='h%d' % self.hostn,
                                       type='float', dim=None, src=src, query=rng.choice(qs), slice=None, unit=None),
                             expect='fail', kind='injection-several-matches')
        elif r < 0.48:
            vm = self.violating_mod(env)
            if vm:
                extra = dict(stmt=vm[0], expect='fail', kind='violating-modification-of-import:' + vm[1])
        elif r < 0.62:
            src = None
            nodes = env.nodes
            if env.sources and rng.random() < 0.5:
                src = rng.choice(list(env.sources))
                nodes = env.sources[src].nodes
            if nodes:
                c = rng.random()
                leafs = [p for p in nodes if not query(nodes, p + '.*')]
                if c < 0.4 and leafs:
                    q = rng.choice(leafs) + '.*'
                elif c < 0.7:
                    q = self.missing_query(nodes)
                else:
                    q = self.missing_query(nodes) + '.*'
                if not query(nodes, q):
                    self.hostn += 1
                    extra = dict(stmt=dict(k='imp', src=src, query=q, into='i%d' % self.hostn,
                                           form=rng.choice(['block', 'inline'])),
                                 expect='fail-or-noop', kind='empty-import')
        if extra:
            if rng.random() < 0.4:
                extra['tail'] = [dict(k='def', name='zz', path='zz', indent=0, type='int', dim=None, text='1', unit=None)]
            prog['extra'] = extra
        return prog
