"""Reference semantics for the three DIP expression grammars (property C18).

Nothing in here imports scinumtools.  Everything is computed from *structure*:

  environment  : list of node records  {path,type,text|items,unit,...} + custom units
  numerical    : ('seq', [operand, op, operand, ...])  op in + - * /   (flat, precedence is the model's job)
                 operand = ('lit', text, unit|None) | ('ref', path) | ('par', seq) | ('fn', name, [seq,..])
  logical      : ('or', [ ('and', [item,..]), .. ])
                 item = ('cmp', op, L, R) | ('bool', path) | ('const', bool) | ('def', path)
                      | ('not', item) | ('par', or-node)         L,R = ('lit', text, unit) | ('ref', path)
  template     : [ ('text', s) | ('ref', path, slice|None, fmt|None) ]

Units: a small hard-coded table of exact linear factors to SI (m, kg, s) written here by hand, plus the
custom units of the generated text ($unit name = value unit  ->  symbol [name]).
A unit expression is a list of (symbol, integer exponent) rendered 'kg*m2*s-2'.
"""
import math
from fractions import Fraction

# ----------------------------------------------------------------------------- units

# symbol -> (exact factor to SI base as Fraction, (L, M, T))
ATOMS = {
    'mm': (Fraction(1, 1000), (1, 0, 0)), 'cm': (Fraction(1, 100), (1, 0, 0)), 'dm': (Fraction(1, 10), (1, 0, 0)),
    'm': (Fraction(1), (1, 0, 0)), 'km': (Fraction(1000), (1, 0, 0)),
    'mg': (Fraction(1, 10 ** 6), (0, 1, 0)), 'g': (Fraction(1, 1000), (0, 1, 0)), 'kg': (Fraction(1), (0, 1, 0)),
    'ms': (Fraction(1, 1000), (0, 0, 1)), 's': (Fraction(1), (0, 0, 1)), 'min': (Fraction(60), (0, 0, 1)),
    'h': (Fraction(3600), (0, 0, 1)),
    'N': (Fraction(1), (1, 1, -2)), 'kN': (Fraction(1000), (1, 1, -2)),
    'J': (Fraction(1), (2, 1, -2)), 'kJ': (Fraction(1000), (2, 1, -2)), 'mJ': (Fraction(1, 1000), (2, 1, -2)),
    'W': (Fraction(1), (2, 1, -3)), 'kW': (Fraction(1000), (2, 1, -3)),
}
BASE_BY_DIM = {0: ['mm', 'cm', 'dm', 'm', 'km'], 1: ['mg', 'g', 'kg'], 2: ['ms', 's', 'min', 'h']}
DERIVED = {(1, 1, -2): ['N', 'kN'], (2, 1, -2): ['J', 'kJ', 'mJ'], (2, 1, -3): ['W', 'kW']}
NODIM = (0, 0, 0)
U = 2.3e-16


class Undefined(Exception):
    """the reference value does not exist / is not finite / is ill-conditioned: the case says nothing"""


class DimMismatch(Exception):
    """operands of + or - have different dimensions: the real code must raise"""


def dadd(a, b, k=1):
    return tuple(x + k * y for x, y in zip(a, b))


def dmul(a, k):
    return tuple(x * k for x in a)


def render_unit(u):
    """[(sym, exp)] -> 'kg*m2*s-2' ; None/[] -> None"""
    if not u:
        return None
    return '*'.join(s + ('' if e == 1 else str(e)) for s, e in u)


def unit_fd(u, customs=None):
    """(float factor to SI, dims) of a unit expression; customs = {symbol: (float factor, dims)}"""
    if not u:
        return 1.0, NODIM
    f = Fraction(1)
    ff = 1.0
    d = NODIM
    for s, e in u:
        if customs and s in customs:
            cf, cd = customs[s]
            ff *= cf ** e
            d = dadd(d, dmul(cd, e))
        else:
            af, ad = ATOMS[s]
            f *= af ** e
            d = dadd(d, dmul(ad, e))
    return float(f) * ff, d


def customs_of(units, twin=False):
    """[{name,text,unit}] (in text order; later ones may use earlier ones) -> {'[name]': (factor, dims)}
    twin=True: the recorded defect 'definition keeps only <value> x the library base units m, g, s'"""
    out = {}
    for cu in units or []:
        f, d = unit_fd(cu['unit'], out)
        if twin:
            f = 1e-3 ** d[1]
        out['[' + cu['name'] + ']'] = (float(cu['text']) * f, d)
    return out


def bad_customs(units):
    """symbols whose factor under the recorded definition defect differs from the true one"""
    a, b = customs_of(units), customs_of(units, True)
    return {s for s in a if abs(a[s][0] / b[s][0] - 1) > 1e-12}


def unit_for_dims(rng, d, customs=None, allow_custom=True):
    """a random unit expression with dimensions d (d != NODIM)"""
    if customs and allow_custom and rng.random() < 0.5:
        cands = [s for s, (f, cd) in customs.items() if cd == d]
        if cands:
            return [(rng.choice(cands), 1)]
    if d in DERIVED and rng.random() < 0.5:
        return [(rng.choice(DERIVED[d]), 1)]
    out = []
    order = [1, 0, 2]          # mass, length, time:  kg*m2*s-2
    for i in order:
        if d[i]:
            out.append((rng.choice(BASE_BY_DIM[i]), d[i]))
    # positive exponents first (the first factor of a rendered unit should not carry a negative exponent only
    # for readability; the grammar allows it either way)
    out.sort(key=lambda p: p[1] < 0)
    return out


# ----------------------------------------------------------------------------- environment model

def py_scalar(typ, text):
    if typ == 'float':
        return float(text)
    if typ == 'int':
        return int(text)
    if typ == 'bool':
        return text == 'true'
    return text


def node_value(n):
    """python value of a node record (scalar or nested list)"""
    if n.get('items') is not None:
        def conv(x):
            return [conv(y) for y in x] if isinstance(x, list) else py_scalar(n['type'], x)
        return conv(n['items'])
    if 'value' in n:
        return n['value']
    return py_scalar(n['type'], n['text'])


def render_items(x):
    if isinstance(x, list):
        return '[' + ','.join(render_items(y) for y in x) + ']'
    return x


def shape_of(x):
    s = []
    while isinstance(x, list):
        s.append(len(x))
        x = x[0]
    return s


def render_env(env):
    """DIP text of an environment description (units first, then nodes; grouped nodes are indented)"""
    lines = []
    for cu in env.get('units', []):
        lines.append('$unit %s = %s %s' % (cu['name'], cu['text'], render_unit(cu['unit'])))
    cur = None
    for n in env['nodes']:
        parts = n['path'].split('.')
        grp = '.'.join(parts[:-1])
        if grp != cur:
            if grp:
                lines.append(grp)
            cur = grp
        ind = '  ' if grp else ''
        typ = n['type']
        if n.get('items') is not None:
            decl = '%s[%s]' % (typ, ','.join(str(k) for k in shape_of(n['items'])))
            val = render_items(n['items'])
        else:
            decl = typ
            val = n['text']
            if typ == 'str' and (' ' in val):
                val = '"%s"' % val
        u = render_unit(n.get('unit'))
        lines.append('%s%s %s = %s%s' % (ind, parts[-1], decl, val, (' ' + u) if u else ''))
    return '\n'.join(lines) + '\n'


def env_index(env):
    return {n['path']: n for n in env['nodes']}


# ----------------------------------------------------------------------------- numerical

class Q:
    __slots__ = ('v', 'd', 'e')

    def __init__(self, v, d, e):
        if not math.isfinite(v) or not math.isfinite(e):
            raise Undefined('non-finite')
        if abs(v) > 1e250 or (v != 0 and abs(v) < 1e-250):
            # the library computes in its own base units (g, m, s) and prefixes: an intermediate value can sit up to some tens
            # of orders of magnitude away from the SI value of this model and overflow / underflow there although it does not here
            raise Undefined('magnitude within 58 orders of the floating-point range')
        self.v, self.d, self.e = v, d, e


def render_operand(o):
    k = o[0]
    if k == 'lit':
        u = render_unit(o[2])
        return o[1] + ((' ' + u) if u else '')
    if k == 'ref':
        return '{?%s}' % o[1]
    if k == 'par':
        return '(' + render_num(o[1]) + ')'
    if k == 'fn':
        return o[1] + '(' + ', '.join(render_num(a) for a in o[2]) + ')'
    raise ValueError(o)


def render_num(seq):
    items = seq[1]
    out = []
    for i, x in enumerate(items):
        out.append(x if i % 2 else render_operand(x))
    return ' '.join(out)


def eval_operand(o, idx, customs):
    k = o[0]
    if k == 'lit':
        f, d = unit_fd(o[2], customs)
        v = float(o[1]) * f
        return Q(v, d, abs(v) * 2 * U)
    if k == 'ref':
        n = idx[o[1]]
        f, d = unit_fd(n.get('unit'), customs)
        v = float(node_value(n)) * f
        return Q(v, d, abs(v) * (2 * U + n.get('relerr', 0.0)))
    if k == 'par':
        return eval_num(o[1], idx, customs)
    if k == 'fn':
        name = o[1]
        args = [eval_num(a, idx, customs) for a in o[2]]
        a = args[0]
        try:
            if name == 'pow':
                n = args[1]
                if n.d != NODIM:
                    raise Undefined('dimensional exponent')
                nd = dmul(a.d, n.v)
                if any(abs(x - round(x)) > 1e-12 for x in nd):
                    raise Undefined('fractional dimension')
                if abs(a.v) <= 1000 * a.e or (a.v <= 0 and n.v != int(n.v)):
                    raise Undefined('domain')
                v = a.v ** n.v
                e = abs(v) * (abs(n.v) * a.e / abs(a.v) + (abs(math.log(abs(a.v))) * n.e)) + U * abs(v)
                return Q(v, tuple(int(round(x)) for x in nd), e)
            if name == 'sqrt':
                if a.v - 1000 * a.e <= 0 or any(x % 2 for x in a.d):
                    raise Undefined('domain')
                v = math.sqrt(a.v)
                return Q(v, tuple(x // 2 for x in a.d), a.e / (2 * v) + U * v)
            if a.d != NODIM:
                raise Undefined('dimensional argument')
            if name == 'exp':
                v = math.exp(a.v)
                return Q(v, NODIM, v * a.e + 2 * U * v)
            if name == 'log':
                if a.v - 1000 * a.e <= 0:
                    raise Undefined('domain')
                v = math.log(a.v)
                return Q(v, NODIM, a.e / a.v + 2 * U * abs(v))
            if name == 'log10':
                if a.v - 1000 * a.e <= 0:
                    raise Undefined('domain')
                v = math.log10(a.v)
                return Q(v, NODIM, a.e / a.v / math.log(10) + 2 * U * abs(v))
            if name == 'sin':
                v = math.sin(a.v)
                return Q(v, NODIM, a.e * abs(math.cos(a.v)) + 2 * U * abs(v) + U * abs(a.v))
            if name == 'cos':
                v = math.cos(a.v)
                return Q(v, NODIM, a.e * abs(math.sin(a.v)) + 2 * U * abs(v) + U * abs(a.v))
            if name == 'tan':
                v = math.tan(a.v)
                return Q(v, NODIM, (a.e + U * abs(a.v)) * (1 + v * v) + 2 * U * abs(v))
        except (OverflowError, ZeroDivisionError, ValueError):
            raise Undefined('arithmetic')
        raise ValueError(name)
    raise ValueError(o)


def eval_num(seq, idx, customs):
    """documented priorities: * and / first, left to right; then + and -, left to right"""
    items = seq[1]
    vals = [eval_operand(items[0], idx, customs)]
    ops = []
    for i in range(1, len(items), 2):
        op, x = items[i], eval_operand(items[i + 1], idx, customs)
        if op in '*/':
            a = vals[-1]
            try:
                if op == '*':
                    v = a.v * x.v
                    vals[-1] = Q(v, dadd(a.d, x.d), abs(a.v) * x.e + abs(x.v) * a.e + U * abs(v))
                else:
                    if abs(x.v) <= 1000 * x.e:
                        raise Undefined('division by zero')      # denominator not distinguishable from zero
                    v = a.v / x.v
                    vals[-1] = Q(v, dadd(a.d, x.d, -1), (a.e + abs(v) * x.e) / abs(x.v) + U * abs(v))
            except OverflowError:
                raise Undefined('overflow')
        else:
            ops.append(op)
            vals.append(x)
    acc = vals[0]
    for op, x in zip(ops, vals[1:]):
        if acc.d != x.d:
            raise DimMismatch((acc.d, x.d))
        v = acc.v + x.v if op == '+' else acc.v - x.v
        acc = Q(v, acc.d, acc.e + x.e + U * abs(v))
    return acc


def num_expected(seq, env, unit, twin=False):
    """-> (value in `unit`, absolute tolerance slack) ; raises Undefined / DimMismatch"""
    customs = customs_of(env.get('units'), twin)
    q = eval_num(seq, env_index(env), customs)
    f, d = unit_fd(unit, customs)
    if d != q.d:
        raise ValueError('generator asked for a unit of other dimensions')
    v = q.v / f
    slack = 1000 * q.e / f
    if slack > 1e-7 * abs(v) or v == 0:
        raise Undefined('ill-conditioned')
    return v, slack, q.d


def num_operators(seq, acc=None):
    """classes exercised by a numerical tree: operators, functions, adjacent priority pairs"""
    acc = acc if acc is not None else set()
    items = seq[1]
    ops = items[1::2]
    for o in ops:
        acc.add('num-op:' + o)
    for a, b in zip(ops, ops[1:]):
        acc.add('num-pair:%s then %s' % (a, b))
    for x in items[0::2]:
        if x[0] == 'par':
            acc.add('num-par')
            num_operators(x[1], acc)
        elif x[0] == 'fn':
            acc.add('num-fn:' + x[1])
            for a in x[2]:
                num_operators(a, acc)
        elif x[0] == 'ref':
            acc.add('num-ref')
        elif x[0] == 'lit':
            acc.add('num-lit')
            if x[1].startswith('-'):
                acc.add('num-negative-literal')
            if x[2] and any(s.startswith('[') for s, e in x[2]):
                acc.add('num-custom-unit-literal')
    return acc


# ---- generator

NUMTXT_POS = ['2', '3', '4', '5', '7', '12', '25', '40', '150', '1.5', '2.5', '0.75', '6.25', '12.5', '0.5', '1.25',
              '3e1', '1.5e2', '2e-1', '7.5e-1', '2e+1', '1e2']


def num_text(rng, neg_ok=True):
    t = rng.choice(NUMTXT_POS)
    if neg_ok and rng.random() < 0.15:
        t = '-' + t
    return t


DIM_POOL = [(1, 0, 0), (1, 0, 0), (0, 1, 0), (0, 0, 1), (2, 0, 0), (1, 0, -1), (1, 1, -2), (2, 1, -2), NODIM, NODIM]


class NumGen:
    def __init__(self, rng, env, allow_custom=True):
        self.rng = rng
        self.env = env
        self.customs = customs_of(env.get('units'))
        self.allow_custom = allow_custom
        self.by_dim = {}
        for n in env['nodes']:
            if n['type'] in ('float', 'int') and n.get('items') is None and not n.get('noexpr'):
                _, d = unit_fd(n.get('unit'), self.customs)
                self.by_dim.setdefault(d, []).append(n['path'])

    def ok(self, d):
        return all(abs(x) <= 3 for x in d)

    def literal(self, d, neg_ok=True):
        if d == NODIM:
            return ('lit', num_text(self.rng, neg_ok), None)
        return ('lit', num_text(self.rng, neg_ok), unit_for_dims(self.rng, d, self.customs, self.allow_custom))

    def factor(self, d, depth, positive=False):
        rng = self.rng
        r = rng.random()
        refs = self.by_dim.get(d)
        if refs and r < 0.4:
            return ('ref', rng.choice(refs))
        if depth > 0 and r < 0.75:
            c = rng.random()
            if c < 0.4:
                return ('par', self.sum(d, depth - 1))
            if d == NODIM:
                name = rng.choice(['exp', 'log', 'log10', 'sin', 'cos', 'tan', 'sqrt', 'pow'])
                if name == 'pow':
                    return ('fn', 'pow', [self.ratio(depth - 1), ('seq', [('lit', rng.choice(['2', '3', '0.5', '1.5', '-1']), None)])])
                arg = self.ratio(depth - 1)
                if name == 'exp' and rng.random() < 0.5:
                    arg = ('seq', [('lit', rng.choice(['0.5', '1.5', '2', '-1.25']), None)])
                return ('fn', name, [arg])
            c2 = rng.random()
            if c2 < 0.5 and self.ok(dmul(d, 2)):
                return ('fn', 'sqrt', [self.term(dmul(d, 2), depth - 1, positive=True)])
            for n in (2, 3):
                if all(x % n == 0 for x in d):
                    return ('fn', 'pow', [self.term(tuple(x // n for x in d), depth - 1), ('seq', [('lit', str(n), None)])])
            return ('par', self.sum(d, depth - 1))
        return self.literal(d, neg_ok=not positive)

    def ratio(self, depth):
        """a dimensionless, positive-looking quotient of two operands of one dimension (or a plain number)"""
        rng = self.rng
        if rng.random() < 0.25:
            return ('seq', [('lit', num_text(rng, False), None)])
        dims = [d for d in self.by_dim if d != NODIM] or [(1, 0, 0)]
        d = rng.choice(dims + [(1, 0, 0)])
        a = self.factor(d, 0, positive=True)
        b = self.factor(d, 0, positive=True)
        return ('seq', [a, '/', b])

    def term(self, d, depth, positive=False):
        rng = self.rng
        n = rng.choice([1, 1, 1, 2, 2, 3])
        if n == 1:
            return ('seq', [self.factor(d, depth, positive)])
        for _ in range(20):
            ops = [rng.choice('*/') for _ in range(n - 1)]
            ds = [rng.choice(DIM_POOL + list(self.by_dim)) for _ in range(n - 1)]
            # d = d0 (+/-) d1 ... ; choose the first factor's dims d0 so that the total is d
            d0 = d
            for op, dd in zip(ops, ds):
                d0 = dadd(d0, dd, -1 if op == '*' else 1)
            if self.ok(d0):
                items = [self.factor(d0, depth, positive)]
                for op, dd in zip(ops, ds):
                    items += [op, self.factor(dd, depth, positive)]
                if rng.random() < 0.2:      # a dimensionless function factor (exp, log, sin, ... live here)
                    items += [rng.choice('*/'), self.fn_nodim(depth)]
                return ('seq', items)
        return ('seq', [self.factor(d, depth, positive)])

    def fn_nodim(self, depth):
        rng = self.rng
        name = rng.choice(['exp', 'log', 'log10', 'sin', 'cos', 'tan'])
        arg = self.ratio(max(depth - 1, 0))
        if name == 'exp' and rng.random() < 0.5:
            arg = ('seq', [('lit', rng.choice(['0.5', '1.5', '2', '-1.25']), None)])
        return ('fn', name, [arg])

    def sum(self, d, depth, nterms=None):
        rng = self.rng
        n = nterms or rng.choice([1, 2, 2, 3])
        items = []
        for i in range(n):
            t = self.term(d, depth)
            if i:
                items.append(rng.choice('+-'))
            items += t[1]
        return ('seq', items)

    def mismatch(self, depth):
        """a sum with one term of another dimension; returns (seq, dims of the well-formed part)"""
        rng = self.rng
        d = rng.choice([x for x in DIM_POOL if x != NODIM] + [NODIM])
        other = rng.choice([x for x in DIM_POOL if x != d])
        n = rng.choice([2, 3])
        bad = rng.randrange(n)
        items = []
        for i in range(n):
            t = self.term(other if i == bad else d, max(depth - 1, 0))
            if i:
                items.append(rng.choice('+-'))
            items += t[1]
        seq = ('seq', items)
        if rng.random() < 0.4:     # bury it
            seq = ('seq', [('par', seq), rng.choice('*/'), self.literal(rng.choice(DIM_POOL))])
        return seq


# ----------------------------------------------------------------------------- logical

def render_cmp_operand(o):
    if o[0] == 'ref':
        return '{?%s}' % o[1]
    u = render_unit(o[2])
    return o[1] + ((' ' + u) if u else '')


def render_item(it):
    k = it[0]
    if k == 'cmp':
        return '%s %s %s' % (render_cmp_operand(it[2]), it[1], render_cmp_operand(it[3]))
    if k == 'bool':
        return '{?%s}' % it[1]
    if k == 'const':
        return 'true' if it[1] else 'false'
    if k == 'def':
        return '!{?%s}' % it[1]
    if k == 'not':
        return '~' + render_item(it[1])
    if k == 'par':
        return '(' + render_log(it[1]) + ')'
    raise ValueError(it)


def render_log(node):
    return ' || '.join(' && '.join(render_item(x) for x in a[1]) for a in node[1])


def operand_info(o, idx, customs):
    """-> dict(kind 'ref'|'lit', type 'int'|'float'|None, base value, unit factor, text)"""
    if o[0] == 'ref':
        n = idx[o[1]]
        f, d = unit_fd(n.get('unit'), customs)
        v = node_value(n)
        return dict(kind='ref', type=n['type'], raw=v, f=f, d=d, base=float(v) * f, unit=n.get('unit'))
    f, d = unit_fd(o[2], customs)
    return dict(kind='lit', type=None, raw=o[1], f=f, d=d, base=float(o[1]) * f, unit=o[2])


def reldist(a, b):
    m = max(abs(a), abs(b))
    return 0.0 if m == 0 else abs(a - b) / m


def cmp_expected(op, a, b):
    """unit-aware comparison on base values; '==' family tolerant (operands are kept outside the ambiguous band)"""
    close = reldist(a, b) <= 1e-6
    if op == '==':
        return close
    if op == '!=':
        return not close
    if op == '<':
        return a < b and not close
    if op == '>':
        return a > b and not close
    if op == '<=':
        return a < b or close
    if op == '>=':
        return a > b or close
    raise ValueError(op)


class TwinRaise(Exception):
    def __init__(self, key, sig):
        self.key, self.sig = key, sig


class LogEval:
    """evaluates a logical tree; mode None = documented semantics, mode 'twin' = semantics of the recorded defects.
    Values are (truth, bare) where bare = 'the real code would hold a plain numpy/python bool here'."""

    def __init__(self, env, twin=False, unitdef=True):
        self.idx = env_index(env)
        self.customs = customs_of(env.get('units'), twin and unitdef)
        self.bad = bad_customs(env.get('units')) if (twin and unitdef) else set()
        self.twin = twin
        self.used = set()

    def cmp(self, it):
        op = it[1]
        A, B = operand_info(it[2], self.idx, self.customs), operand_info(it[3], self.idx, self.customs)
        if A['d'] != B['d']:
            raise Undefined('comparison across dimensions')
        good = cmp_expected(op, A['base'], B['base'])
        if not self.twin:
            return good, False
        bare = (op == '==')
        if self.bad and any(s in self.bad for o in (A, B) for s, _ in (o['unit'] or [])):
            self.used.add('C18-custom-unit-definition-drops-unit-magnitude')
        # --- recorded defects, by construct
        if A['kind'] == 'lit' and B['kind'] == 'lit':
            self.used.add('C18-two-literal-comparison-untyped')
            if op in ('<', '>', '<=', '>='):
                raise TwinRaise('C18-two-literal-comparison-untyped', ('TypeError', 'not supported between instances of'))
            if op == '!=':
                return True, False       # float != str
            l, r = float(A['raw']), float(B['raw'])
            return abs(l - r) <= 1e-8 + 1e-6 * abs(r), True
        types = {A['type'], B['type']}
        if A['kind'] == 'ref' and B['kind'] == 'ref' and types == {'int', 'float'}:
            self.used.add('C18-int-node-vs-float-node-comparison-raises')
            raise TwinRaise('C18-int-node-vs-float-node-comparison-raises', ('NameError|Exception', "expr|Invalid comparison"))
        if 'int' in types and (A['kind'] == 'lit' or B['kind'] == 'lit'):
            node, lit = (A, B) if A['kind'] == 'ref' else (B, A)
            converts = bool(node['unit']) and bool(lit['unit']) and render_unit(node['unit']) != render_unit(lit['unit'])
            txt = lit['raw']
            intlike = txt.lstrip('+-').isdigit()
            if converts:
                x = float(txt) * lit['f'] / node['f']
                cands = {int(x), int(x * (1 + 1e-12)), int(x * (1 - 1e-12))}
                if cands != {x}:
                    self.used.add('C18-int-node-equals-float-raises')
                res = set()
                for c in cands:
                    l, r = (node['raw'], c) if node is A else (c, node['raw'])
                    res.add(cmp_numpy(op, float(l), float(r)))
                if len(res) > 1:
                    return ('either',), bare
                return res.pop(), bare
            if not intlike:
                self.used.add('C18-int-node-equals-float-raises')
                raise TwinRaise('C18-int-node-equals-float-raises', ('ValueError', 'invalid literal for int()'))
        return good, bare

    def item(self, it):
        k = it[0]
        if k == 'cmp':
            return self.cmp(it)
        if k == 'bool':
            return bool(node_value(self.idx[it[1]])), False
        if k == 'const':
            return it[1], False
        if k == 'def':
            return (it[1] in self.idx), False
        if k == 'par':
            return self.node(it[1])
        if k == 'not':
            v, bare = self.item(it[1])
            if self.twin and bare:
                self.used.add('C18-negated-equality-raises')
                raise TwinRaise('C18-negated-equality-raises', ('AttributeError', "object has no attribute 'logical_not'"))
            if v == ('either',):
                return v, False
            return (not v), False
        raise ValueError(it)

    def node(self, node):
        ors = []
        for a in node[1]:
            vals = [self.item(x) for x in a[1]]
            if len(vals) == 1:
                ors.append(vals[0])
            else:
                if any(v == ('either',) for v, _ in vals):
                    ors.append((('either',), False))
                else:
                    ors.append((all(v for v, _ in vals), False))
        if len(ors) == 1:
            return ors[0]
        if any(v == ('either',) for v, _ in ors):
            return ('either',), False
        return any(v for v, _ in ors), False


def cmp_numpy(op, l, r):
    """what the real comparison does once both sides are numbers (numpy.isclose with rtol 1e-6, atol 1e-8)"""
    close = abs(l - r) <= 1e-8 + 1e-6 * abs(r)
    return {'==': close, '!=': l != r, '<': l < r, '>': l > r, '<=': l < r or close, '>=': l > r or close}[op]


def log_classes(node, acc=None, top=True):
    acc = acc if acc is not None else set()
    ands = node[1]
    if len(ands) > 1:
        acc.add('log-op:||')
    for i, a in enumerate(ands):
        if len(a[1]) > 1:
            acc.add('log-op:&&')
            if len(ands) > 1:
                acc.add('log-pair:&& then ||' if i < len(ands) - 1 else 'log-pair:|| then &&')
                if 0 < i:
                    acc.add('log-pair:|| then &&')
        for it in a[1]:
            item_classes(it, acc)
    return acc


def item_classes(it, acc):
    k = it[0]
    if k == 'cmp':
        acc.add('log-cmp:' + it[1])
        kinds = (it[2][0], it[3][0])
        if kinds == ('lit', 'lit'):
            acc.add('log-two-literals')
    elif k == 'bool':
        acc.add('log-bool-ref')
    elif k == 'const':
        acc.add('log-const')
    elif k == 'def':
        acc.add('log-defined-test')
    elif k == 'par':
        acc.add('log-par')
        log_classes(it[1], acc, top=False)
    elif k == 'not':
        acc.add('log-not')
        inner = it[1]
        if inner[0] == 'def':
            acc.add('log-not-defined')
        if inner[0] == 'par':
            x = inner[1]
            while len(x[1]) == 1 and len(x[1][0][1]) == 1 and x[1][0][1][0][0] == 'par':
                x = x[1][0][1][0][1]
            if len(x[1]) == 1 and len(x[1][0][1]) == 1 and x[1][0][1][0][0] == 'cmp':
                c = x[1][0][1][0]
                acc.add('log-negated-comparison')
                if c[1] == '==':
                    acc.add('log-negated-equality')
        item_classes(inner, acc)


def fmt_num(x):
    """decimal text of x with <= 10 significant digits, never in a form DIP cannot read"""
    t = '%.10g' % x
    if 'e' in t:
        m, e = t.split('e')
        t = m + 'e' + str(int(e))
    return t


class LogGen:
    def __init__(self, rng, env, mixed=0.0, two_lit=0.0):
        self.rng = rng
        self.env = env
        self.idx = env_index(env)
        self.customs = customs_of(env.get('units'))
        self.nums = [n for n in env['nodes'] if n['type'] in ('float', 'int') and n.get('items') is None and not n.get('nocmp')]
        self.bools = [n['path'] for n in env['nodes'] if n['type'] == 'bool' and n.get('items') is None]
        self.paths = [n['path'] for n in env['nodes']]
        self.mixed = mixed
        self.two_lit = two_lit
        self.triggers = 0

    def near_unit(self, unit, d):
        """a unit of dimension d whose factor is within 1e3 of the given unit's (keeps magnitudes sane)"""
        f0, _ = unit_fd(unit, self.customs)
        for _ in range(12):
            u = unit_for_dims(self.rng, d, self.customs)
            f, _ = unit_fd(u, self.customs)
            if 1e-3 <= f / f0 <= 1e3:
                return u
        return unit

    def literal_for(self, node, op, want):
        """literal operand L such that `node op L` has the wanted truth value, operands outside the ambiguous band.
        For int nodes `self.mixed` is the probability of a float-valued literal (the mixed int/float class)."""
        rng = self.rng
        f, d = unit_fd(node.get('unit'), self.customs)
        v = float(node_value(node))
        isint = node['type'] == 'int'
        mixed = isint and self.triggers == 0 and rng.random() < self.mixed
        rel = self.relation(op, want)            # 'lt': node < literal, 'gt': node > literal, 'eq'
        if rel == 'eq' and op in ('!=', '<', '>') and node.get('computed'):
            rel = 'lt' if op != '>' else 'gt'    # no exact text exists for a computed value
            if op == '>':
                rel = 'lt'
        unit, fu = node.get('unit'), f
        if node.get('unit') and (not isint or (mixed and rng.random() < 0.5)) and rng.random() < 0.6:
            unit = self.near_unit(node['unit'], d)
            fu, _ = unit_fd(unit, self.customs)
        same_unit = render_unit(unit) == render_unit(node.get('unit'))
        delta = math.exp(rng.uniform(math.log(2e-3), math.log(0.9)))
        if isint and not mixed:
            # integer literal in the node's own unit
            step = max(1, int(abs(v) * delta))
            w = int(v) + (0 if rel == 'eq' else step if rel == 'lt' else -step)
            return ('lit', node['text'] if rel == 'eq' else str(w), node.get('unit'))
        if rel == 'eq':
            if op in ('!=', '<', '>'):
                # exactly equal, no conversion involved ('!=' is not granted a tolerance by the statement)
                txt = node['text']
                if mixed:
                    self.triggers += 1
                    txt += '' if ('.' in txt or 'e' in txt) else '.0'
                return ('lit', txt, node.get('unit'))
            txt = fmt_num(v * f / fu)
        else:
            w = v + abs(v) * delta * (1 if rel == 'lt' else -1)
            if mixed:
                w = v + max(1.0, round(abs(v) * delta)) * (1 if rel == 'lt' else -1) + (0.5 if same_unit else 0.0) * (1 if rel == 'lt' else -1)
            txt = fmt_num(w * f / fu)
        if mixed:
            self.triggers += 1
            if same_unit and '.' not in txt and 'e' not in txt:
                txt += '.0'
        return ('lit', txt, unit)

    def relation(self, op, want):
        rng = self.rng
        table = {('==', True): ['eq'], ('==', False): ['lt', 'gt'], ('!=', True): ['lt', 'gt'], ('!=', False): ['eq'],
                 ('<', True): ['lt'], ('<', False): ['gt', 'gt', 'eq'], ('>', True): ['gt'], ('>', False): ['lt', 'lt', 'eq'],
                 ('<=', True): ['lt', 'eq'], ('<=', False): ['gt'], ('>=', True): ['gt', 'eq'], ('>=', False): ['lt']}
        return rng.choice(table[(op, want)])

    def cmp(self):
        rng = self.rng
        op = rng.choice(['==', '==', '!=', '<', '>', '<=', '>='])
        if self.two_lit and rng.random() < self.two_lit and self.triggers == 0:
            self.triggers += 1
            d = rng.choice([(1, 0, 0), (0, 1, 0), (0, 0, 1), NODIM])
            fake = dict(type='float', text=num_text(rng, False), unit=None if d == NODIM else unit_for_dims(rng, d, None), path='?')
            lit = self.literal_for(fake, op, rng.random() < 0.5)
            return ('cmp', op, ('lit', fake['text'], fake['unit']), lit)
        a = rng.choice(self.nums)
        fa, da = unit_fd(a.get('unit'), self.customs)
        # node vs node when a partner of the same dimension exists
        partners = [b for b in self.nums if b is not a and unit_fd(b.get('unit'), self.customs)[1] == da
                    and (b['type'] == a['type'] or (self.mixed and self.triggers == 0 and rng.random() < self.mixed))
                    and bool(b.get('unit')) == bool(a.get('unit'))]
        if partners and rng.random() < 0.35:
            b = rng.choice(partners)
            fb, _ = unit_fd(b.get('unit'), self.customs)
            va, vb = float(node_value(a)) * fa, float(node_value(b)) * fb
            dist = reldist(va, vb)
            exact = (va == vb and render_unit(a.get('unit')) == render_unit(b.get('unit')))
            if dist >= 2e-3 or (dist <= 1e-9 and (op in ('==', '<=', '>=') or exact)):
                if min(abs(float(node_value(a))), abs(float(node_value(b)))) * min(fa / fb, fb / fa) >= 1e-3:
                    if b['type'] != a['type']:
                        self.triggers += 1
                    return ('cmp', op, ('ref', a['path']), ('ref', b['path']))
        want = rng.random() < 0.5
        lit = self.literal_for(a, op, want)
        if rng.random() < 0.2:
            # literal on the left: mirror the operator
            mirror = {'==': '==', '!=': '!=', '<': '>', '>': '<', '<=': '>=', '>=': '<='}[op]
            return ('cmp', mirror, lit, ('ref', a['path']))
        return ('cmp', op, ('ref', a['path']), lit)

    def leaf(self):
        rng = self.rng
        r = rng.random()
        if r < 0.5 and self.nums:
            return self.cmp()
        if r < 0.68 and self.bools:
            return ('bool', rng.choice(self.bools))
        if r < 0.78:
            return ('const', rng.random() < 0.5)
        if rng.random() < 0.5:
            return ('def', rng.choice(self.paths))
        return ('def', rng.choice(['nothere', 'zz.q', rng.choice(self.paths) + 'x']))

    def item(self, depth):
        rng = self.rng
        r = rng.random()
        if r < 0.22:
            # negation of: bool ref, const, definedness test, parenthesised expression / comparison
            c = rng.random()
            if c < 0.3 and self.bools:
                return ('not', ('bool', rng.choice(self.bools)))
            if c < 0.4:
                return ('not', ('const', rng.random() < 0.5))
            if c < 0.6:
                return ('not', self.leaf_def())
            if c < 0.85 and self.nums:
                # ~(A op B); a negated equality is one of the recorded defect triggers: at most one per expression
                for _ in range(12):
                    t0 = self.triggers
                    cm = self.cmp()
                    if cm[1] != '==':
                        return ('not', ('par', ('or', [('and', [cm])])))
                    if self.triggers == 0:
                        self.triggers = 1
                        return ('not', ('par', ('or', [('and', [cm])])))
                    self.triggers = t0
                return ('not', ('const', rng.random() < 0.5))
            if depth > 0:
                return ('not', ('par', self.tree(depth - 1, minitems=2)))
            return ('not', ('const', rng.random() < 0.5))
        if r < 0.4 and depth > 0:
            return ('par', self.tree(depth - 1))
        return self.leaf()

    def leaf_def(self):
        rng = self.rng
        if rng.random() < 0.5:
            return ('def', rng.choice(self.paths))
        return ('def', rng.choice(['nothere', 'zz.q', rng.choice(self.paths) + 'x']))

    def tree(self, depth, minitems=1):
        rng = self.rng
        while True:
            nor = rng.choice([1, 1, 2, 2, 3])
            ands = []
            for _ in range(nor):
                nand = rng.choice([1, 1, 2, 3])
                ands.append(('and', [self.item(depth) for _ in range(nand)]))
            if sum(len(a[1]) for a in ands) >= minitems:
                return ('or', ands)


# ----------------------------------------------------------------------------- templates

def apply_slice(value, sl):
    """Python-style slicing; sl = [[a,b],..] one entry per axis, [i,i] = index i, None = open end"""
    if not sl:
        return value
    (a, b), rest = sl[0], sl[1:]
    if a is not None and a == b:
        return apply_slice(value[a], rest)
    part = value[slice(a, b)]
    if rest:
        return [apply_slice(x, rest) for x in part]
    return part


def render_slice(sl):
    if not sl:
        return ''
    out = []
    for a, b in sl:
        if a is not None and a == b:
            out.append(str(a))
        else:
            out.append(('' if a is None else str(a)) + ':' + ('' if b is None else str(b)))
    return '[' + ','.join(out) + ']'


def render_tpl(parts):
    out = []
    for p in parts:
        if p[0] == 'text':
            out.append(p[1])
        else:
            out.append('{{?%s}%s%s}' % (p[1], render_slice(p[2]), (':' + p[3]) if p[3] else ''))
    return ''.join(out)


def tpl_expected(parts, env):
    idx = env_index(env)
    out = []
    for p in parts:
        if p[0] == 'text':
            out.append(p[1])
        else:
            n = idx[p[1]]
            v = apply_slice(node_value(n), p[2])
            txt = format(v, p[3]) if p[3] else str(v)
            if n.get('computed') and isinstance(v, float):
                # a computed value is only known to rtol 1e-9: its rendering must not depend on that
                if not p[3] or format(v * (1 + 2e-9), p[3]) != txt or format(v * (1 - 2e-9), p[3]) != txt:
                    raise Undefined('rendering of a computed value depends on rounding below the tolerance')
            out.append(txt)
    return ''.join(out)


TEXTS = ['x=', ' ', ', ', 'value: ', ' / ', ' km ', 'A-', '_', ' (', ') ', '; n=', ' {plain} ', ' = ', '. ', ' 10% ', ' [i] ']


class TplGen:
    def __init__(self, rng, env):
        self.rng = rng
        self.nodes = [n for n in env['nodes'] if not n.get('notpl')]

    def ref(self):
        rng = self.rng
        n = rng.choice(self.nodes)
        typ = n['type']
        sl = None
        if n.get('items') is not None:
            shp = shape_of(n['items'])
            sl = [[i, i] for i in (rng.randrange(k) for k in shp)]        # full index -> scalar
        elif typ == 'str':
            L = len(n['text'])
            if L >= 3 and rng.random() < 0.6:
                c = rng.random()
                if c < 0.35:
                    sl = [[rng.randrange(1, L), None]]
                elif c < 0.55:
                    sl = [[None, rng.randrange(1, L)]]
                elif c < 0.85:
                    a = rng.randrange(0, L - 1)
                    sl = [[a, rng.randrange(a + 1, L + 1)]]
                    if sl[0][0] == sl[0][1]:
                        sl = [[a, a + 1]]
                else:
                    i = rng.randrange(L)
                    sl = [[i, i]]
        fmt = None
        computed = n.get('computed')
        if typ == 'float':
            if computed or rng.random() < 0.7:
                fmt = rng.choice(['.3e', '.2f', '.1f', '.4e', '12.3e', '.0f', 'e', '010.3f'])
                if computed:
                    fmt = rng.choice(['.3e', '.2e', '.4e'])
        elif typ == 'int':
            if rng.random() < 0.7:
                fmt = rng.choice(['05d', 'd', '3d', 'b', '.2f', '.1e', '08b'])
        elif typ == 'bool':
            if rng.random() < 0.2:
                fmt = 'd'
        elif typ == 'str':
            if rng.random() < 0.3:
                fmt = rng.choice(['s', '12s', '.2s'])
        return ('ref', n['path'], sl, fmt)

    def gen(self):
        rng = self.rng
        parts = []
        for i in range(rng.randint(1, 4)):
            if rng.random() < 0.8 or i == 0:
                parts.append(('text', rng.choice(TEXTS)))
            parts.append(self.ref())
        if rng.random() < 0.5:
            parts.append(('text', rng.choice(TEXTS)))
        return parts


def tpl_classes(parts):
    acc = set()
    for p in parts:
        if p[0] == 'ref':
            acc.add('tpl-ref')
            if p[2]:
                acc.add('tpl-slice')
                if any(a is None or a != b for a, b in p[2]):
                    acc.add('tpl-slice-range')
                else:
                    acc.add('tpl-slice-index')
            if p[3]:
                acc.add('tpl-format')
                acc.add('tpl-format:' + p[3][-1])
            if p[2] and p[3]:
                acc.add('tpl-slice-and-format')
            if not p[3]:
                acc.add('tpl-str-default')
        elif '{' in p[1]:
            acc.add('tpl-plain-brace')
    return acc


# ----------------------------------------------------------------------------- environments

NAMES = ['alpha', 'beta', 'gam', 'width', 'mass', 'rate', 'e0', 'len', 'vel', 'tau', 'kap', 'rho']
STRS = ['Will Smith', 'hello', 'configuration', 'abc', 'Tina', 'output_file.dat', 'north-west']


def gen_env(rng, custom=False):
    """a random environment description for expression cases"""
    nodes, units = [], []
    customs = {}
    if custom:
        for k in range(rng.choice([1, 1, 2])):
            name = ['ua', 'ub'][k]
            d = rng.choice([(1, 0, 0), (0, 1, 0), (0, 0, 1)])
            u = unit_for_dims(rng, d, customs if rng.random() < 0.5 else None)
            units.append(dict(name=name, text=rng.choice(['2', '2.5', '4', '0.5', '12']), unit=u))
            customs = customs_of(units)
    names = NAMES[:]
    rng.shuffle(names)
    grp = rng.choice(['', '', 'const', 'box.inner'])

    def path(nm):
        return (grp + '.' + nm) if grp and rng.random() < 0.5 else nm

    def add(**kw):
        nodes.append(kw)

    # dimensional floats; pairs of equal physical value in different units
    dims = [(1, 0, 0)] + rng.sample([(0, 1, 0), (0, 0, 1), (1, 0, -1), (2, 1, -2), (2, 0, 0), (1, 1, -2)], rng.choice([1, 2, 3]))
    for d in dims:
        u = unit_for_dims(rng, d, customs)
        t = num_text(rng, neg_ok=False)
        p = path(names.pop())
        add(path=p, type='float', text=t, unit=u)
        if rng.random() < 0.6 and names:
            f, _ = unit_fd(u, customs)
            for _ in range(10):
                u2 = unit_for_dims(rng, d, customs)
                f2, _ = unit_fd(u2, customs)
                if 1e-3 <= f2 / f <= 1e3:
                    break
            else:
                u2, f2 = u, f
            if rng.random() < 0.5:
                t2 = fmt_num(float(t) * f / f2)               # the same physical value
            else:
                t2 = fmt_num(float(t) * f / f2 * math.exp(rng.uniform(-1.5, 1.5)))
                if reldist(float(t2) * f2, float(t) * f) < 2e-3:
                    t2 = fmt_num(float(t) * f / f2 * 1.5)
            add(path=path(names.pop()), type='float', text=t2, unit=u2)
    for _ in range(rng.choice([1, 2])):
        if names:
            add(path=path(names.pop()), type='float', text=num_text(rng, neg_ok=True), unit=None)
    # ints
    add(path=path('cnt'), type='int', text=str(rng.choice([3, 12, 44, 23, 7, 120])), unit=None)
    add(path=path('num'), type='int', text=str(rng.choice([2, 5, 23, 60, 250])), unit=None)
    du = rng.choice([(1, 0, 0), (0, 1, 0), (0, 0, 1)])
    add(path=path('iq'), type='int', text=str(rng.choice([4, 30, 220, 15])), unit=unit_for_dims(rng, du, customs, allow_custom=False))
    if rng.random() < 0.6:
        # a float node of the same dimension as the int node (mixed int/float node comparisons)
        add(path=path('fq'), type='float', text=num_text(rng, False), unit=unit_for_dims(rng, du, customs, allow_custom=False))
    # bools, strings, arrays
    add(path=path('on'), type='bool', text='true')
    add(path=path('off'), type='bool', text='false')
    if rng.random() < 0.5:
        add(path=path('flag'), type='bool', text=rng.choice(['true', 'false']))
    for nm in ('name', 'tag'):
        add(path=path(nm), type='str', text=rng.choice(STRS))
    n = rng.choice([2, 3, 4])
    add(path=path('arr'), type='float', items=[num_text(rng, False) for _ in range(n)], unit=rng.choice([None, [('cm', 1)], [('mm', 1)]]))
    add(path=path('mat'), type='int', items=[[str(rng.randint(1, 99)) for _ in range(3)] for _ in range(2)], unit=None)
    # grouped nodes must be contiguous for rendering
    nodes.sort(key=lambda n: ('.' in n['path'], n['path'].rsplit('.', 1)[0] if '.' in n['path'] else ''))
    return dict(nodes=nodes, units=units)
