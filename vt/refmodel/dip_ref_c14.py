"""Reference model for C14: definitions / declarations followed by modifications.

Nothing in here imports the repository.  Unit factors are a small hand-written table of *exact* linear factors
(fractions) to SI base units with a dimension vector (length, time, mass); custom `$unit` directives of the program
extend it.

prog  = {'units': [{'name','num','unit'}], 'nodes': [node], 'stmts': [stmt]}
node  = {'path': ['g','a'], 'dt': 'float', 'sfx': [''], 'u0': 'cm'|None, 'shape': None|[n]}
stmt  = {'n': node index, 'kind': 'def'|'decl'|'mod', 'typed': bool, 'kw': type keyword written (typed statements),
         'kwdt': base dtype of kw, 'val': lit|None, 'unit': None|str, 'const': bool}
"""
import random
from fractions import Fraction as Fr
from vt.refmodel import dip_ref_c13 as M

# exact factor to SI and dimension (L, T, M)
BASE = {
    'mm': (Fr(1, 1000), (1, 0, 0)), 'cm': (Fr(1, 100), (1, 0, 0)), 'm': (Fr(1), (1, 0, 0)), 'km': (Fr(1000), (1, 0, 0)),
    'ms': (Fr(1, 1000), (0, 1, 0)), 's': (Fr(1), (0, 1, 0)), 'min': (Fr(60), (0, 1, 0)), 'h': (Fr(3600), (0, 1, 0)),
    'g': (Fr(1, 1000), (0, 0, 1)), 'kg': (Fr(1), (0, 0, 1)),
    'J': (Fr(1), (2, -2, 1)), 'erg': (Fr(1, 10**7), (2, -2, 1)),
    # compound expressions (written exactly like this in the text)
    'm/s': (Fr(1), (1, -1, 0)), 'km/h': (Fr(1000, 3600), (1, -1, 0)), 'cm/s': (Fr(1, 100), (1, -1, 0)),
    'km/s': (Fr(1000), (1, -1, 0)),
    'kg*m2/s2': (Fr(1), (2, -2, 1)), 'g*cm2/s2': (Fr(1, 10**7), (2, -2, 1)),
    'g/cm3': (Fr(1000), (-3, 0, 1)), 'kg/m3': (Fr(1), (-3, 0, 1)),
}
FAMILIES = [['mm', 'cm', 'm', 'km'], ['ms', 's', 'min', 'h'], ['g', 'kg'], ['J', 'erg', 'kg*m2/s2', 'g*cm2/s2'],
            ['m/s', 'km/h', 'cm/s', 'km/s'], ['g/cm3', 'kg/m3']]
DT_KW = {'bool': ['bool'], 'int': ['int', 'int16', 'int32', 'int64', 'uint', 'uint16', 'uint32', 'uint64'],
         'float': ['float', 'float32', 'float64', 'float128'], 'str': ['str']}


def kw_sfx(kw):
    if kw.startswith('uint'):
        return 'int', ['u', kw[4:]]
    if kw.startswith('int'):
        return 'int', ['', kw[3:]]
    if kw.startswith('float'):
        return 'float', [kw[5:]]
    return kw, []


def unit_table(prog, custom_bug=False):
    """custom_bug: twin of the known defect 'a $unit keeps only the number of its definition and the dimension: the
    scale of the defining unit is dropped' (the number is then taken in the library's base units m, s, g)"""
    tab = dict(BASE)
    for u in prog.get('units', []):
        f, d = tab[u['unit']]
        if custom_bug:
            f = Fr(1, 1000) ** d[2]          # base units of the library: metre, second, gram
        tab['[' + u['name'] + ']'] = (Fr(u['num']) * f, d)
    return tab


def lit_exact(lit):
    """exact rational value of a numeric literal"""
    if lit['t'] == 'int':
        return Fr(lit['v'])
    return lit['sign'] * Fr(int(lit['digits'])) * Fr(10) ** lit['exp']


def is_falsy(lit, dt):
    """values the statement calls out: zero, empty string, none (false on a bool node is handled like any value)"""
    if lit is None:
        return False
    if lit['t'] == 'none':
        return True
    if lit['t'] == 'str':
        return lit['v'] == ''
    if lit['t'] in ('int', 'float'):
        return lit_exact(lit) == 0
    return False


# ------------------------------------------------------------------------------------------- interpreter

class Fail(Exception):
    def __init__(self, cls, stmt, node=None):
        self.cls, self.stmt, self.node = cls, stmt, node


NONE = ('<assigned none>',)      # sentinel: assigned the empty value


def interpret(prog, const_bug=False, unitless_bug=False, custom_bug=False):
    """-> ('ok', [record...]) | ('fail', class, stmt index, node index)
    const_bug: twin of the known defect 'constant flag goes to the most recently *created* node'
    unitless_bug: twin of 'a unit given for a node defined without unit is ignored'"""
    tab = unit_table(prog, custom_bug)
    nodes = prog['nodes']
    state = {}          # node index -> dict(value, assigned(bool), const, history)
    order = []
    try:
        for j, st in enumerate(prog['stmts']):
            n = st['n']
            nd = nodes[n]
            if n not in state:
                if st['kind'] == 'mod' and not st['typed']:
                    raise Fail('modifying-undefined-node', j, n)
                state[n] = dict(value=None, assigned=False, const=False, hist=[])
                order.append(n)
            else:
                s = state[n]
                if s['const']:
                    raise Fail('constant', j, n)
                if st['typed'] and st['kwdt'] != nd['dt']:
                    raise Fail('other-dtype', j, n)
            s = state[n]
            if st['val'] is not None:
                lit = st['val']
                if lit['t'] == 'none':
                    v = NONE
                elif lit['t'] == 'arr':
                    v = M.lit_value(lit)
                    if st['unit'] is not None and nd['u0'] is not None:
                        if tab[st['unit']][1] != tab[nd['u0']][1]:
                            raise Fail('other-dimension', j, n)
                        k = tab[st['unit']][0] / tab[nd['u0']][0]
                        v = scale(lit, k)
                elif nd['dt'] in ('int', 'float'):
                    x = lit_exact(lit)
                    if st['unit'] is not None:
                        if nd['u0'] is None:
                            if not unitless_bug:
                                raise Fail('unit-on-unitless-node', j, n)
                        else:
                            if tab[st['unit']][1] != tab[nd['u0']][1]:
                                raise Fail('other-dimension', j, n)
                            x = x * tab[st['unit']][0] / tab[nd['u0']][0]
                    v = x
                else:
                    v = M.lit_value(lit)
                s['value'], s['assigned'] = v, True
                s['hist'].append((j, v, is_falsy(lit, nd['dt'])))
            if st.get('const'):
                tgt = order[-1] if const_bug else n
                state[tgt]['const'] = True
        for n in order:
            if not state[n]['assigned']:
                raise Fail('declared-never-assigned', len(prog['stmts']), n)
    except Fail as f:
        return ('fail', f.cls, f.stmt, f.node)
    recs = []
    for n in order:
        nd, s = nodes[n], state[n]
        v = s['value']
        if v == NONE:
            v = None
        elif isinstance(v, Fr):
            v = float(v) if nd['dt'] == 'float' or v.denominator != 1 else int(v)
        rec = dict(path='.'.join(nd['path']), cls=M.CLS[nd['dt']], precision=None, unsigned=None, dt=nd['dt'],
                   value=v, unit=nd['u0'], n=n, hist=s['hist'])
        if nd['dt'] == 'int':
            rec['precision'] = int(nd['sfx'][1]) if nd['sfx'][1] else 32
            rec['unsigned'] = bool(nd['sfx'][0])
        elif nd['dt'] == 'float':
            rec['precision'] = int(nd['sfx'][0]) if nd['sfx'][0] else 64
        recs.append(rec)
    return ('ok', recs)


def scale(lit, k):
    if lit['t'] == 'arr':
        return [scale(x, k) for x in lit['items']]
    return float(lit_exact(lit) * k)


def earlier_values(rec):
    """values the node held (in the model) before its last assignment"""
    out = []
    for j, v, f in rec['hist'][:-1]:
        if v == NONE:
            v = None
        elif isinstance(v, Fr):
            v = float(v)
        out.append(v)
    return out


def last_is_falsy(rec):
    return bool(rec['hist']) and rec['hist'][-1][2]


# ------------------------------------------------------------------------------------------- generator

SEGS = ['a', 'b', 'c', 'g', 'h', 'box', 'size', 'v-x', 'T_e', 'n0', 'long-name', 'p', 'q']


def gen_value(rng, nd, falsy_p=0.0, allow_none=True):
    dt = nd['dt']
    if rng.random() < falsy_p:
        c = rng.random()
        if c < 0.3 and allow_none:
            return {'t': 'none'}
        if dt == 'bool':
            return {'t': 'bool', 'v': False}
        if dt == 'str':
            return {'t': 'str', 'v': ''}
        if dt == 'int':
            return {'t': 'int', 'v': 0, 'plus': False}
        txt = rng.choice(['0', '0.0', '-0.0', '0e0', '0.00', '0E+3'])
        return {'t': 'float', 'sign': -1 if txt.startswith('-') else 1, 'digits': '0', 'exp': 0, 'txt': txt, 'form': 'dec'}
    if dt == 'bool':
        return {'t': 'bool', 'v': rng.random() < 0.5}
    if dt == 'str':
        while True:
            lit = M.gen_str(rng)
            if '\n' not in lit['v']:
                return lit
    if dt == 'int':
        while True:
            lit = M.gen_int(rng, nd['sfx'], small=True)
            if abs(lit['v']) < 10**6 and lit['v'] != 0:
                return lit
    while True:
        lit = M.gen_float(rng)
        if lit_exact(lit) != 0:
            return lit


def family_of(u, tab):
    d = tab[u][1]
    return [x for x in tab if tab[x][1] == d]


def gen_prog(rng, flavor):
    prog = {'units': [], 'nodes': [], 'stmts': [], 'flavor': flavor}
    if rng.random() < 0.35 or flavor == 'custom-unit':
        prog['units'].append({'name': rng.choice(['len', 'ux', 'q_u', 'myU']), 'num': rng.choice(['2.5', '10', '0.125', '4', '1e3']),
                              'unit': rng.choice(['m', 's', 'kg', 'J', 'cm'])})
    tab = unit_table(prog)
    nn = rng.choice([1, 2, 2, 3]) if flavor != 'const-after-mod' else rng.choice([2, 3])
    paths = set()
    for i in range(nn):
        dt = rng.choice(['float', 'float', 'int', 'int', 'bool', 'str'])
        if flavor in ('fail-dimension', 'unit-on-unitless') and i == 0:
            dt = rng.choice(['float', 'int'])
        if flavor == 'array-mod' and i == 0:
            dt = rng.choice(['float', 'int', 'str', 'bool'])
        kw = rng.choice(DT_KW[dt]) if rng.random() < 0.3 else DT_KW[dt][0]
        _, sfx = kw_sfx(kw)
        while True:
            if i and rng.random() < 0.25 and prog['nodes'][0]['shape'] is None:
                path = prog['nodes'][0]['path'] + [rng.choice(SEGS)]          # typed node as parent
            else:
                path = [rng.choice(SEGS) for _ in range(rng.choice([1, 1, 2, 2, 3, 4]))]
            if tuple(path) not in paths:
                break
        paths.add(tuple(path))
        u0 = None
        if dt in ('int', 'float') and rng.random() < 0.7:
            u0 = rng.choice(sorted(tab))
        if flavor == 'fail-dimension' and i == 0:
            u0 = rng.choice(sorted(tab))
        if flavor == 'unit-on-unitless' and i == 0:
            u0 = None
        if flavor == 'custom-unit' and i == 0:
            dt, kw, sfx = 'float', 'float', ['']
            cu = '[' + prog['units'][0]['name'] + ']'
            u0 = cu if rng.random() < 0.5 else rng.choice(sorted(family_of(cu, tab)))
        nd = {'path': path, 'dt': dt, 'sfx': sfx, 'kw': kw, 'u0': u0, 'shape': None}
        if flavor == 'array-mod' and i == 0:
            nd['shape'] = [rng.randint(2, 4)]
        prog['nodes'].append(nd)
    falsy_p = 0.25 if flavor in ('ok', 'custom-unit') and rng.random() < 0.6 else 0.0
    # statement sequences per node, then interleave
    seqs = []
    for n, nd in enumerate(prog['nodes']):
        nmod = rng.randint(0, 6) if nn == 1 else rng.randint(0, 4)
        if n == 0 and flavor != 'ok':
            nmod = max(nmod, 2)
        seq = []
        declared = nd['shape'] is None and rng.random() < 0.25
        first = {'n': n, 'kind': 'decl' if declared else 'def', 'typed': True, 'kw': nd['kw'], 'kwdt': nd['dt'],
                 'val': None, 'unit': nd['u0'], 'const': False}
        if not declared:
            first['val'] = gen_node_value(rng, nd, falsy_p * 0.5)
        seq.append(first)
        if declared and nmod == 0 and not (flavor == 'fail-undeclared' and n == 0):
            nmod = 1
        for _ in range(nmod):
            st = {'n': n, 'kind': 'mod', 'typed': rng.random() < 0.3, 'kw': nd['kw'], 'kwdt': nd['dt'], 'unit': None, 'const': False}
            st['val'] = gen_node_value(rng, nd, falsy_p)
            if nd['u0'] is not None and st['val']['t'] != 'none' and rng.random() < 0.7:
                fam = sorted(family_of(nd['u0'], tab))
                if nd['dt'] == 'int':      # non-demand: only conversions with an integral result for int nodes
                    fam = [u for u in fam if (tab[u][0] / tab[nd['u0']][0]).denominator == 1]
                st['unit'] = nd['u0'] if rng.random() < 0.25 else rng.choice(fam)
                custom = [u for u in fam if u.startswith('[')]
                if flavor == 'custom-unit' and custom and rng.random() < 0.5:
                    st['unit'] = custom[0]
            seq.append(st)
        seqs.append(seq)
    # flavor-specific edits on node 0
    s0 = seqs[0]
    nd0 = prog['nodes'][0]
    if flavor == 'fail-dtype':
        k = rng.randrange(1, len(s0))
        other = rng.choice([d for d in DT_KW if d != nd0['dt']])
        s0[k]['typed'], s0[k]['kw'], s0[k]['kwdt'] = True, rng.choice(DT_KW[other]), other
        fake = {'dt': other, 'sfx': kw_sfx(s0[k]['kw'])[1], 'shape': None}
        s0[k]['val'] = gen_value(rng, fake)
        if other in ('bool', 'str'):
            s0[k]['unit'] = None
    elif flavor == 'fail-dimension':
        k = rng.randrange(1, len(s0))
        others = sorted(u for u in tab if tab[u][1] != tab[nd0['u0']][1])
        s0[k]['unit'] = rng.choice(others)
        if s0[k]['val']['t'] == 'none':
            s0[k]['val'] = gen_value(rng, nd0)
    elif flavor == 'fail-constant':
        s0[0]['const'] = True                       # right after the definition / declaration
    elif flavor == 'fail-undeclared':
        seqs[0] = [dict(s0[0], kind='decl', val=None)]
    elif flavor == 'unit-on-unitless':
        k = rng.randrange(1, len(s0))
        s0[k]['unit'] = rng.choice(['m', 's', 'kg', 'cm', 'J', 'km/h'])
        if s0[k]['val']['t'] == 'none':
            s0[k]['val'] = gen_value(rng, nd0)
    elif flavor == 'const-after-mod':
        k = rng.randrange(1, len(s0))
        s0[k]['const'] = True
    elif flavor == 'ok':
        # legal use of !constant: after the last statement of a node
        for seq in seqs:
            if rng.random() < 0.15 and len(seq) == 1 and seq[0]['kind'] == 'def':
                seq[0]['const'] = True
    # interleave keeping each node's order; a child of a typed parent is defined after its parent
    stmts = []
    idx = [0] * len(seqs)
    while any(idx[i] < len(seqs[i]) for i in range(len(seqs))):
        cand = [i for i in range(len(seqs)) if idx[i] < len(seqs[i])]
        i = cand[0] if (len(stmts) == 0 or rng.random() < 0.35) else rng.choice(cand)
        stmts.append(seqs[i][idx[i]])
        idx[i] += 1
    prog['stmts'] = stmts
    return prog


def gen_node_value(rng, nd, falsy_p):
    if nd['shape'] is None:
        return gen_value(rng, nd, falsy_p)
    return {'t': 'arr', 'items': [gen_arr_item(rng, nd) for _ in range(nd['shape'][0])]}


def gen_arr_item(rng, nd):
    if nd['dt'] == 'str':
        return M.gen_arr_str(rng, False)
    if nd['dt'] == 'bool':
        return {'t': 'bool', 'v': rng.random() < 0.5}
    while True:
        lit = M.gen_scalar(rng, nd['dt'], nd['sfx'], json_only=True, small=True)
        if lit_exact(lit) != 0 and abs(lit_exact(lit)) < 10**6:
            return lit


def int_results_integral(prog):
    """non-demand: an int node is only assigned values whose conversion into the definition unit is integral"""
    tab = unit_table(prog)
    for st in prog['stmts']:
        nd = prog['nodes'][st['n']]
        if nd['dt'] == 'int' and nd['shape'] is None and st['val'] is not None and st['val']['t'] == 'int' and st['unit'] and nd['u0'] \
                and tab[st['unit']][1] == tab[nd['u0']][1]:
            x = lit_exact(st['val']) * tab[st['unit']][0] / tab[nd['u0']][0]
            if x.denominator != 1:
                return False
    return True


def gen_case_prog(rng, flavor):
    for _ in range(200):
        prog = gen_prog(rng, flavor)
        if not int_results_integral(prog):
            continue
        res = interpret(prog)
        want_fail = {'fail-dtype': 'other-dtype', 'fail-dimension': 'other-dimension', 'fail-constant': 'constant',
                     'fail-undeclared': 'declared-never-assigned', 'unit-on-unitless': 'unit-on-unitless-node'}.get(flavor)
        if want_fail:
            if res[0] == 'fail' and res[1] == want_fail:
                return prog
            continue
        if flavor == 'const-after-mod':
            if res[0] == 'fail' and res[1] != 'constant':
                continue
            return prog
        if res[0] == 'ok':
            return prog
    raise RuntimeError('no program for flavor ' + flavor)


# ------------------------------------------------------------------------------------------- renderer

def mod_value_txt(R, lit, nd):
    """(text, classes)"""
    if lit['t'] == 'arr':
        return M.json_txt(lit, R, loose=False), {'value-array'}
    if lit['t'] == 'str':
        s = lit['v']
        styles = ['sq', 'dq'] + (['bare'] if M.bare_ok(s) else [])
        style = R.choice(styles)
        if style == 'bare':
            return s, {'value-string'}
        return M.quote(s, "'" if style == 'sq' else '"'), {'value-string'} | ({'value-empty-string'} if s == '' else set())
    cl = set()
    if lit['t'] == 'none':
        cl.add('value-none')
    elif lit['t'] == 'bool':
        cl.add('value-true' if lit['v'] else 'value-false')
    else:
        x = lit_exact(lit)
        cl.add('value-zero' if x == 0 else ('value-negative' if x < 0 else 'value-positive'))
    return M.scalar_txt(lit), cl


def render(prog, rseed, plain=False):
    """-> dict(text, classes, decl_lines={node index: stripped text of its first line})"""
    R = random.Random(rseed)
    lines, classes, first_line = [], set(), {}
    ws = lambda lo=1, hi=3: ' ' * (1 if plain else R.randint(lo, hi))
    tab = unit_table(prog)

    def filler():
        if plain:
            return
        while R.random() < 0.12:
            lines.append(R.choice(['', ' ', '   ' + '#' + M.rand_comment(R), '#' + M.rand_comment(R)]))

    def trailing():
        if plain or R.random() > 0.25:
            return ''
        return ' ' * R.randint(1, 3) + '#' + M.rand_comment(R)

    open_stack = []       # [(segments list, indent)] lines currently open (groups / nodes)
    units_done = False
    for j, st in enumerate(prog['stmts']):
        nd = prog['nodes'][st['n']]
        path = nd['path']
        filler()
        if not units_done:
            for u in prog['units']:
                lines.append('$unit' + ws() + u['name'] + ws() + '=' + ws() + u['num'] + ws() + u['unit'] + trailing())
                classes.add('custom-unit-directive')
            units_done = True
        # how much of the open hierarchy is reused
        flat = []
        for segs, ind in open_stack:
            flat.append((flat[-1][0] + segs if flat else list(segs), ind))
        keep = 0
        for k in range(len(flat), 0, -1):
            if flat[k - 1][0] == path[:len(flat[k - 1][0])] and len(flat[k - 1][0]) < len(path):
                keep = k
                break
        if keep and (plain or R.random() < 0.6):
            keep = keep if (plain or R.random() < 0.7) else R.randint(1, keep)
        else:
            keep = 0
        popped = open_stack[keep:]
        open_stack = open_stack[:keep]
        done = len(flat[keep - 1][0]) if keep else 0
        rest = path[done:]
        # split the remaining segments over lines
        cuts = [rest]
        if len(rest) > 1:
            form = 'dotted' if R.random() < 0.4 else 'nested'
            if form == 'nested':
                cuts = []
                i = 0
                while i < len(rest):
                    m = 1 if R.random() < 0.7 else R.randint(1, len(rest) - i)
                    cuts.append(rest[i:i + m])
                    i += m
        if len(path) > 1:
            classes.add('path-dotted' if (len(cuts) == 1 and keep == 0) else 'path-nested' if all(len(c) == 1 for c in cuts) else 'path-mixed')
        if keep:
            classes.add('hierarchy-continued-from-previous-statement')
        for ci, segs in enumerate(cuts):
            if open_stack:
                base = open_stack[-1][1]
                if ci == 0 and popped:
                    ind = popped[0][1]                      # same level as the sibling it replaces
                else:
                    ind = base + (2 if plain else R.randint(1, 4))
            else:
                ind = 0
            open_stack.append((segs, ind))
            name = '.'.join(segs)
            if ci < len(cuts) - 1:
                lines.append(' ' * ind + name + trailing())
                continue
            # the statement line itself
            line = ' ' * ind + name
            if st['typed']:
                line += ws() + st['kw']
                if nd['shape'] is not None and st['kwdt'] == nd['dt']:
                    line += '[%d]' % nd['shape'][0]
            cl = set()
            if st['val'] is not None:
                vtxt, cl = mod_value_txt(R, st['val'], nd if st['kwdt'] == nd['dt'] else {'dt': st['kwdt']})
                line += ws() + '=' + ws() + vtxt
            if st['unit']:
                line += ws() + st['unit']
            if st['kind'] == 'mod':
                classes.update(cl)
                classes.add('modification-typed' if st['typed'] else 'modification-untyped')
                if st['val']['t'] not in ('none',) and nd['dt'] in ('int', 'float'):
                    if st['unit'] is None:
                        classes.add('unit-omitted' if nd['u0'] else 'unitless-node')
                    elif nd['u0'] is None:
                        classes.add('unit-given-for-unitless-node')
                    elif st['unit'] == nd['u0']:
                        classes.add('unit-same-as-definition')
                    elif tab[st['unit']][1] == tab[nd['u0']][1]:
                        classes.add('unit-custom' if '[' in st['unit'] + nd['u0'] else
                                    ('unit-compound' if any(c in st['unit'] + nd['u0'] for c in '*/') else 'unit-different-prefix'))
                        if tab[st['unit']][0] != tab[nd['u0']][0]:
                            classes.add('unit-conversion-factor-not-1')
            else:
                classes.add('declaration' if st['kind'] == 'decl' else 'definition')
                if st['kind'] == 'def':
                    classes.update('definition-' + c for c in cl)
            line += trailing()
            lines.append(line)
            first_line.setdefault(st['n'], line)
            if st.get('const'):
                lines.append(' ' * (ind + (2 if plain else R.randint(1, 4))) + '!constant' + trailing())
                classes.add('constant-after-' + ('definition' if st['kind'] != 'mod' else 'modification'))
    return dict(text='\n'.join(lines), classes=sorted(classes), first_line=first_line)
