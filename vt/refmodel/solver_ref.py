"""Independent reference model of the documented expression language of scinumtools.solver.

Nothing in here imports or re-uses the repository's parser.  Pieces:

* AST (JSON-able nested lists)
      ['num', text] | ['par', e] | ['f', name, [args]] | ['una', signs, prim]
      ['bin', level, [operands], [ops]]   level in pow|mul|add|cmp|and|or (>= 2 operands)
      ['not', e] | ['hole']               (hole = operand deleted by an ill-formed edit)
* Gen          generator of the stratified, *type-stratified* grammar (DESIGN C01 O/N)
* tokens/render  AST -> token list -> text with 0-3 blanks in every gap the docs allow
* evaluate     reference evaluator: every level a left fold, documented step order
               evaluate(..., d4=True)    buggy twin of defect D4 (sign merged into binary +/-)
               evaluate(..., holes=True) buggy twin of defect D1 (short-circuit hides a missing operand)
* scan_raises  buggy twin of the argument scanner of OperatorPar (defects D2, D3), text level
* parse        independent recursive-descent recogniser (text -> AST | None) used to decide
               whether a single-edit variant is still well-formed
"""
import math, re
import numpy as np

NUMS = ['0', '1', '2', '3', '4', '5', '7', '10', '0.5', '2.5', '.25', '3.', '12.75', '100', '0.1', '1.5', '6', '9', '0.0', '16']
F1 = ['log', 'log10', 'exp', 'sqrt', 'sin', 'cos', 'tan']
F2 = ['logb', 'pow']
NARG = {f: 1 for f in F1}
NARG.update({f: 2 for f in F2})
CMPOPS = ['==', '!=', '<=', '>=', '<', '>']
LEVEL_OPS = {'pow': ['**'], 'mul': ['*', '/'], 'add': ['+', '-'], 'cmp': CMPOPS, 'and': ['&&'], 'or': ['||']}
LEVELS = ['pow', 'mul', 'add', 'cmp', 'and', 'or']


class Undefined(Exception):
    """reference value non-finite / complex / arithmetic error: the case says nothing"""


class TwinFail(Exception):
    """a buggy twin cannot produce a value for this case"""


# --------------------------------------------------------------------------- generator

class Gen:
    """Random ASTs of the type-stratified grammar.

    numeric  N := add ; add := mul (('+'|'-') mul)* ; mul := pow (('*'|'/') pow)* ;
             pow := una ('**' una)* ; una := sign* prim ; prim := number | '(' N ')' | f(N[,N])
    logical  L := and ('||' and)* ; and := not ('&&' not)* ; not := '!'? cmp ;
             cmp := cop (cmpop cop)* ; cop := N | '(' L ')'
    """

    def __init__(self, rng, maxdepth=6, maxops=40, size=1.0, funcs=True):
        self.r = rng
        self.funcs = funcs        # False: no built-in functions (operator subsets without them)
        self.size = size          # scales the probability of longer chains / deeper nesting
        self.maxdepth = maxdepth
        self.maxops = maxops
        self.ops = 0

    def _n(self, d, p2=0.36, p3=0.10):
        """number of operands of a chain"""
        if self.ops >= self.maxops:
            return 1
        x = self.r.random()
        scale = self.size * (1.0 if d > 0 else 0.6)
        n = 3 if x < p3 * scale else 2 if x < p2 * scale else 1
        self.ops += n - 1
        return n

    def chain(self, level, sub, d, **kw):
        n = self._n(d, **kw)
        if n == 1:
            return sub(d)
        return ['bin', level, [sub(d) for _ in range(n)], [self.r.choice(LEVEL_OPS[level]) for _ in range(n - 1)]]

    # numeric
    def num(self):
        return ['num', self.r.choice(NUMS)]

    def prim(self, d):
        x = self.r.random()
        if d <= 0 or x < 1 - 0.38 * min(1.0, self.size + 0.3) or self.ops >= self.maxops:
            return self.num()
        self.ops += 1
        x = self.r.random()
        if x < 0.42 or not self.funcs:
            return ['par', self.add(d - 1)]
        if x < 0.82:
            return ['f', self.r.choice(F1), [self.add(d - 1)]]
        return ['f', self.r.choice(F2), [self.add(d - 1), self.add(d - 1)]]

    def una(self, d):
        p = self.prim(d)
        x = self.r.random()
        if x < 0.72:
            return p
        k = 1 if x < 0.88 else 2 if x < 0.96 else 3
        self.ops += k
        return ['una', ''.join(self.r.choice('+-') for _ in range(k)), p]

    def small(self, d):
        """exponent operand: mostly a small literal so that powers stay finite"""
        if self.r.random() < 0.25:
            return self.una(d)
        n = ['num', self.r.choice(['2', '3', '0.5', '1', '0', '2', '1.5', '4'])]
        x = self.r.random()
        return n if x < 0.7 else ['una', self.r.choice(['-', '+', '--', '-+', '+-']), n]

    def pow(self, d):
        n = self._n(d, p2=0.25, p3=0.06)
        if n == 1:
            return self.una(d)
        return ['bin', 'pow', [self.una(d)] + [self.small(d) for _ in range(n - 1)], ['**'] * (n - 1)]

    def mul(self, d):
        return self.chain('mul', self.pow, d)

    def add(self, d):
        return self.chain('add', self.mul, d)

    # logical
    def cop(self, d):
        if d > 0 and self.r.random() < 0.25 and self.ops < self.maxops:
            self.ops += 1
            return ['par', self.or_(d - 1, force=True)]
        return self.add(d)

    def cmp(self, d, force=False):
        n = self._n(d, p2=0.6, p3=0.15)
        if n == 1 and force:
            n = 2
        if n == 1:
            return self.cop(d)
        return ['bin', 'cmp', [self.cop(d) for _ in range(n)], [self.r.choice(CMPOPS) for _ in range(n - 1)]]

    def not_(self, d, force=False):
        c = self.cmp(d, force)
        if self.r.random() < 0.3:
            self.ops += 1
            return ['not', c]
        return c

    def and_(self, d, force=False):
        n = self._n(d)
        if n == 1:
            return self.not_(d, force)
        return ['bin', 'and', [self.not_(d) for _ in range(n)], ['&&'] * (n - 1)]

    def or_(self, d, force=False):
        n = self._n(d)
        if n == 1:
            return self.and_(d, force)
        return ['bin', 'or', [self.and_(d) for _ in range(n)], ['||'] * (n - 1)]

    # stratified: a forced fragment embedded into a random context
    def fragment(self, focus, d):
        r = self.r
        kind, _, arg = focus.partition(':')
        if kind == 'lvl' and arg in LEVELS:
            sub = {'pow': self.una, 'mul': self.pow, 'add': self.mul, 'cmp': self.cop, 'and': self.not_, 'or': self.and_}[arg]
            n = r.choice([2, 3, 3, 4])
            self.ops += n - 1
            return ['bin', arg, [sub(d) for _ in range(n)], [r.choice(LEVEL_OPS[arg]) for _ in range(n - 1)]]
        if kind == 'cmp':
            n = r.choice([2, 2, 3])
            ops = [r.choice(CMPOPS) for _ in range(n - 1)]
            ops[r.randrange(n - 1)] = arg
            self.ops += n - 1
            return ['bin', 'cmp', [self.cop(d) for _ in range(n)], ops]
        if kind == 'fn':
            self.ops += 1
            return ['f', arg, [self.add(d) for _ in range(NARG[arg])]]
        if kind == 'not':
            self.ops += 1
            return ['not', self.cmp(d, force=r.random() < 0.7)]
        if kind == 'una':
            # arg = ctx-signs e.g. 'start--', 'op+-', 'bin-+' ; ctx decides where the signed operand is put
            ctx, signs = arg.rstrip('+-'), arg[len(arg.rstrip('+-')):]
            p = self.prim(d)
            u = ['una', signs, p] if signs else p
            tail = r.random() < 0.5
            if tail:                                   # unary sign directly in front of a power
                u = ['bin', 'pow', [u, self.una(d)], ['**']]
                self.ops += 1
            self.ops += len(signs) + 1
            if ctx == 'start':
                return ['par', u] if r.random() < 0.5 else u
            if ctx == 'op':
                lvl = r.choice(['mul', 'pow', 'cmp'])
                left = {'mul': self.pow, 'pow': self.una, 'cmp': self.add}[lvl](d)
                if lvl == 'pow' and u[0] == 'bin':
                    return ['bin', 'pow', [left] + u[2], ['**'] + u[3]]
                return ['bin', lvl, [left, u], [r.choice(LEVEL_OPS[lvl])]]
            return ['bin', 'add', [self.mul(d), u], [r.choice('+-')]]
        if kind == 'nest':
            e = self.add(1)
            for _ in range(r.randint(3, max(3, self.maxdepth))):
                x = r.random()
                self.ops += 1
                if x < 0.4:
                    e = ['par', e]
                elif x < 0.75:
                    e = ['f', r.choice(F1), [e]]
                else:
                    o = self.add(0)
                    e = ['f', r.choice(F2), [e, o] if r.random() < 0.5 else [o, e]]
                if r.random() < 0.5:
                    lvl = r.choice(['add', 'mul'])
                    e = ['bin', lvl, [self.num(), e], [r.choice(LEVEL_OPS[lvl])]]
            return e
        raise ValueError(focus)

    def embed(self, frag, layers):
        """wrap a fragment into random enclosing context; parentheses keep the fragment a unit"""
        r = self.r
        e = frag
        for _ in range(layers):
            logical = is_logical(e)
            e = ['par', e] if (e[0] in ('bin', 'not', 'una')) else e
            x = r.random()
            if logical:
                lvl = r.choice(['cmp', 'and', 'or', 'not'])
                if lvl == 'not':
                    e = ['not', e]
                    continue
                other = {'cmp': self.cop, 'and': self.not_, 'or': self.and_}[lvl](1)
            else:
                lvl = r.choice(['pow', 'mul', 'add', 'cmp', 'and', 'fn'])
                if lvl == 'fn':
                    f = r.choice(F1 + F2)
                    e = ['f', f, [e] if NARG[f] == 1 else ([e, self.add(0)] if x < 0.5 else [self.add(0), e])]
                    continue
                other = {'pow': self.una, 'mul': self.pow, 'add': self.mul, 'cmp': self.cop, 'and': self.not_}[lvl](1)
            opnds = [e, other] if r.random() < 0.5 else [other, e]
            e = ['bin', lvl, opnds, [r.choice(LEVEL_OPS[lvl])]]
            self.ops += 1
        return e


def is_logical(e):
    """does the expression contain a comparison / ! / && / || outside of nothing (type of the value)"""
    k = e[0]
    if k == 'not' or (k == 'bin' and e[1] in ('cmp', 'and', 'or')):
        return True
    if k == 'par':
        return is_logical(e[1])
    return False


def typed_ok(e, numeric=False):
    """type stratification: arithmetic / signs / function arguments only on numeric expressions"""
    k = e[0]
    if k == 'num':
        return True
    if k == 'hole':
        return False
    if k == 'par':
        return typed_ok(e[1], numeric)
    if k == 'f':
        return len(e[2]) == NARG[e[1]] and all(typed_ok(a, True) for a in e[2])
    if k == 'una':
        return typed_ok(e[2], True)
    if k == 'not':
        return (not numeric) and typed_ok(e[1], False)
    if e[1] in ('pow', 'mul', 'add'):
        return all(typed_ok(o, True) for o in e[2])
    return (not numeric) and all(typed_ok(o, False) for o in e[2])


# --------------------------------------------------------------------------- rendering

def tokens(e, out=None):
    out = [] if out is None else out
    k = e[0]
    if k == 'num':
        out.append(e[1])
    elif k == 'hole':
        pass
    elif k == 'par':
        out.append('(')
        tokens(e[1], out)
        out.append(')')
    elif k == 'f':
        out.append(e[1] + '(')
        for i, a in enumerate(e[2]):
            if i:
                out.append(',')
            tokens(a, out)
        out.append(')')
    elif k == 'una':
        out.extend(e[1])
        tokens(e[2], out)
    elif k == 'not':
        out.append('!')
        tokens(e[1], out)
    else:
        for i, o in enumerate(e[2]):
            if i:
                out.append(e[3][i - 1])
            tokens(o, out)
    return out


def blanks(rng, n):
    """n+1 gap widths, 0-3 blanks each"""
    return [0 if rng.random() < 0.45 else rng.randint(1, 3) for _ in range(n + 1)]


def render(toks, gaps=None):
    if gaps is None:
        return ''.join(toks)
    s = [' ' * gaps[0]]
    for i, t in enumerate(toks):
        s.append(t)
        s.append(' ' * gaps[min(i + 1, len(gaps) - 1)])
    return ''.join(s)


# --------------------------------------------------------------------------- evaluation

def _fin(v):
    if isinstance(v, complex):
        raise Undefined('complex')
    if not isinstance(v, bool) and not math.isfinite(v):
        raise Undefined('non-finite')
    return v


def _arith(op, a, b):
    try:
        if op == '+':
            v = a + b
        elif op == '-':
            v = a - b
        elif op == '*':
            v = a * b
        elif op == '/':
            v = a / b
        else:
            v = a ** b
    except (ZeroDivisionError, OverflowError, ValueError) as e:
        raise Undefined(type(e).__name__)
    return _fin(v)


def _cmp(op, a, b):
    return {'==': a == b, '!=': a != b, '<=': a <= b, '>=': a >= b, '<': a < b, '>': a > b}[op]


def _func(name, args):
    with np.errstate(all='ignore'):
        if name == 'exp':
            return _arith('**', float(np.e), args[0])
        if name == 'pow':
            return _arith('**', args[0], args[1])
        if name == 'logb':
            a, b = _fin(float(np.log(args[0]))), _fin(float(np.log(args[1])))
            return _arith('/', a, b)
        return _fin(float(getattr(np, name)(args[0])))


HOLE = object()


def _lead_signs(e):
    """(signs, operand without them) of the first leaf position of a mul/pow chain (D4 twin)"""
    if e[0] == 'una':
        return e[1], e[2]
    if e[0] == 'bin' and e[1] in ('mul', 'pow'):
        s, first = _lead_signs(e[2][0])
        if s:
            return s, ['bin', e[1], [first] + e[2][1:], e[3]]
    return '', e


def evaluate(e, d4=False, holes=False):
    """documented order, every level a left fold.  Raises Undefined when the value says nothing."""
    def ev(e):
        k = e[0]
        if k == 'num':
            return float(e[1])
        if k == 'hole':
            if holes:
                return HOLE
            raise TwinFail('hole')
        if k == 'par':
            return ev(e[1])
        if k == 'f':
            return _func(e[1], [num(a) for a in e[2]])
        if k == 'una':
            v = num(e[2])
            for s in reversed(e[1]):
                v = -v if s == '-' else v
            return v
        if k == 'not':
            return not bool(val(e[1]))
        lvl, opnds, ops = e[1], e[2], e[3]
        if lvl in ('and', 'or'):
            acc = val(opnds[0])
            for o in opnds[1:]:
                rv = ev(o)
                if (lvl == 'and') == bool(acc):      # right operand decides: its value is touched
                    if rv is HOLE:
                        raise TwinFail('hole touched')
                    acc = rv
            return acc
        if lvl == 'cmp':
            acc = val(opnds[0])
            for op, o in zip(ops, opnds[1:]):
                acc = _cmp(op, acc, val(o))
            return acc
        acc = num(opnds[0])
        for op, o in zip(ops, opnds[1:]):
            if d4 and lvl == 'add':
                s, rest = _lead_signs(o)
                if s.count('-') % 2:
                    op = '-' if op == '+' else '+'
                o = rest
            acc = _arith(op, acc, num(o))
        return acc

    def val(e):
        v = ev(e)
        if v is HOLE:
            raise TwinFail('hole touched')
        return v

    def num(e):
        v = val(e)
        return float(v) if isinstance(v, bool) else v

    return val(e)


def d4_shape(e):
    """does a non-first additive operand start with unary sign(s) (where the D4 twin merges)?"""
    if e[0] == 'bin' and e[1] == 'add' and any(_lead_signs(o)[0] for o in e[2][1:]):
        return True
    return any(d4_shape(c) for c in children(e))


def children(e):
    k = e[0]
    if k in ('par', 'not'):
        return [e[1]]
    if k == 'una':
        return [e[2]]
    if k == 'f':
        return e[2]
    if k == 'bin':
        return e[2]
    return []


# --------------------------------------------------------------------------- D2 / D3 twin (text level)

SCAN_SYMS = ['log(', 'log10(', 'logb(', 'exp(', 'sqrt(', 'pow(', 'sin(', 'cos(', 'tan(', '(']


def scan_raises(text, d2, d3):
    """Would a depth-counting argument scanner reject this text?

    d2: the function's own opening symbol is counted *in addition to* its '(' (a function nested
        in itself is counted twice); d3: the character after a depth-1 comma is skipped unexamined.
    With both off this is a plain balanced-parenthesis / arity scan.
    """
    i, n = 0, len(text)
    while i < n:
        for s in SCAN_SYMS:
            if text.startswith(s, i):
                break
        else:
            i += 1
            continue
        j, depth, args, start = i + len(s), 1, [], i + len(s)
        while True:
            if j >= n:
                return True
            if (d2 and text.startswith(s, j)) or text[j] == '(':
                depth += 1
            elif text[j] == ',' and depth == 1:
                args.append(text[start:j])
                start = j + 1
                j += 1
                if not d3:
                    continue
            elif text[j] == ')':
                depth -= 1
                if depth == 0:
                    args.append(text[start:j])
                    j += 1
                    break
            j += 1
        if len(args) != (1 if s == '(' else NARG[s[:-1]]):
            return True
        if any(scan_raises(a, d2, d3) for a in args):
            return True
        i = j
    return False


# --------------------------------------------------------------------------- recogniser

_LEX = re.compile(r' *(?:(?P<num>\d+\.?\d*|\.\d+)|(?P<fn>log10\(|logb\(|log\(|exp\(|sqrt\(|pow\(|sin\(|cos\(|tan\()|'
                  r'(?P<op>\*\*|\*|/|\+|-|==|!=|<=|>=|<|>|&&|\|\||!|\(|\)|,))')


def lex(text):
    pos, out = 0, []
    text = text.rstrip(' ')
    while pos < len(text):
        m = _LEX.match(text, pos)
        if not m or m.end() == pos:
            return None
        out.append((m.lastgroup, m.group(m.lastgroup)))
        pos = m.end()
    return out


class _P:
    def __init__(self, toks, lenient):
        self.t, self.i, self.lenient = toks, 0, lenient

    def peek(self):
        return self.t[self.i][1] if self.i < len(self.t) else None

    def kind(self):
        return self.t[self.i][0] if self.i < len(self.t) else None

    def chain(self, level, sub):
        opnds, ops = [sub()], []
        while self.kind() == 'op' and self.peek() in LEVEL_OPS[level]:
            ops.append(self.peek())
            self.i += 1
            opnds.append(sub())
        return opnds[0] if not ops else ['bin', level, opnds, ops]

    def or_(self):
        return self.chain('or', self.and_)

    def and_(self):
        return self.chain('and', self.not_)

    def not_(self):
        if self.kind() == 'op' and self.peek() == '!':
            self.i += 1
            if self.lenient:
                return ['not', self.not_()]
            return ['not', self.cmp()]
        return self.cmp()

    def cmp(self):
        return self.chain('cmp', self.add)

    def add(self):
        return self.chain('add', self.mul)

    def mul(self):
        return self.chain('mul', self.pow)

    def pow(self):
        return self.chain('pow', self.una)

    def una(self):
        signs = ''
        while self.kind() == 'op' and self.peek() in '+-':
            signs += self.peek()
            self.i += 1
        if self.lenient and self.kind() == 'op' and self.peek() == '!':
            self.i += 1
            p = ['not', self.una()]
        else:
            p = self.prim()
        return ['una', signs, p] if signs else p

    def expect(self, s):
        if self.peek() != s or self.kind() != 'op':
            raise SyntaxError(s)
        self.i += 1

    def prim(self):
        k, v = self.kind(), self.peek()
        if k == 'num':
            self.i += 1
            return ['num', v]
        if k == 'op' and v == '(':
            self.i += 1
            e = self.or_()
            self.expect(')')
            return ['par', e]
        if k == 'fn':
            self.i += 1
            args = [self.or_()]
            while self.kind() == 'op' and self.peek() == ',':
                self.i += 1
                args.append(self.or_())
            self.expect(')')
            if len(args) != NARG[v[:-1]]:
                raise SyntaxError('arity')
            return ['f', v[:-1], args]
        raise SyntaxError('operand expected')


def parse(text, lenient=False):
    """text -> AST of the documented grammar, or None when the text is not well-formed.
    lenient=True additionally accepts '!' in the positions DESIGN lists as *not demanded*."""
    toks = lex(text)
    if not toks:
        return None
    p = _P(toks, lenient)
    try:
        e = p.or_()
    except (SyntaxError, RecursionError):
        return None
    return e if p.i == len(toks) else None


# --------------------------------------------------------------------------- classes of a case

def sign_branches(signs, ctx):
    """labels of the rewriting branches a run of sign tokens goes through; ctx start|op|bin.
    Mirrors the documented double-sign rewriting: two adjacent signs merge by parity, the last
    one is a leading sign, a sign after another operator, or a binary operator."""
    out, seq = [], list(signs)
    name = {'+': 'add', '-': 'sub'}
    while len(seq) > 1:
        a, b = seq[0], seq[1]
        out.append('una-%s-before-%s' % (name[a], name[b]))
        seq[0:2] = ['+' if a == b else '-']
    out.append('una-%s-%s' % (name[seq[0]], {'start': 'leading', 'op': 'after-operator', 'bin': 'binary'}[ctx]))
    return out


def classes_of(e):
    out = set()

    def walk(e, ctx, depth):
        """ctx: what stands directly left of this expression: start | op | bin:<sign>"""
        k = e[0]
        if depth >= 3:
            out.add('nesting>=3')
        if k == 'num' or k == 'hole':
            return
        if k == 'par':
            out.add('lvl-par')
            walk(e[1], 'start', depth + 1)
        elif k == 'f':
            out.add('lvl-function')
            out.add('fn-' + e[1])
            for a in e[2]:
                walk(a, 'start', depth + 1)
        elif k == 'una':
            out.add('lvl-unary')
            if ctx.startswith('bin:'):
                out.update(sign_branches(ctx[4:] + e[1], 'bin'))
            else:
                out.update(sign_branches(e[1], ctx))
            walk(e[2], 'op', depth)
        elif k == 'not':
            out.add('lvl-not')
            walk(e[1], 'op', depth)
        else:
            lvl = e[1]
            out.add('lvl-' + lvl)
            if len(e[2]) >= 3:
                out.add('chain3-' + lvl)
            if lvl == 'cmp':
                out.update('cmp-' + o for o in e[3])
            if lvl == 'pow' and e[2][0][0] == 'una':
                out.add('unary-before-pow')
            walk(e[2][0], ctx, depth)
            for op, o in zip(e[3], e[2][1:]):
                c = 'op'
                if lvl == 'add':
                    c = 'bin:' + op
                    if not _lead_signs(o)[0]:
                        out.update(sign_branches(op, 'bin'))
                walk(o, c, depth)
    walk(e, 'start', 0)
    return out


def count_ops(e):
    """(number of operators, set of steps they belong to, unary sign next to another operator?)"""
    steps, n, adj = set(), 0, False
    toks = tokens(e)
    for i, t in enumerate(toks):
        if t in ('+', '-'):
            prev = toks[i - 1] if i else None
            unary = prev is None or prev in ('(', ',') or prev.endswith('(') or prev in ('**', '*', '/', '+', '-', '&&', '||', '!') or prev in CMPOPS
            n += 1
            steps.add('unary' if unary else 'add')
            if unary and prev is not None and not prev.endswith('(') and prev != ',':
                adj = True
            if unary and i + 2 < len(toks) and toks[i + 2] == '**':
                adj = True
        elif t == '**':
            n += 1; steps.add('pow')
        elif t in ('*', '/'):
            n += 1; steps.add('mul')
        elif t in CMPOPS:
            n += 1; steps.add('cmp')
        elif t == '!':
            n += 1; steps.add('not')
        elif t == '&&':
            n += 1; steps.add('and')
        elif t == '||':
            n += 1; steps.add('or')
        elif t.endswith('('):
            n += 1; steps.add('par')
    return n, steps, adj


def nodes(e, pred, path=()):
    """paths of all nodes satisfying pred, preorder"""
    out = [path] if pred(e) else []
    k = e[0]
    if k in ('par', 'not'):
        out += nodes(e[1], pred, path + (1,))
    elif k == 'una':
        out += nodes(e[2], pred, path + (2,))
    elif k in ('f', 'bin'):
        for i, c in enumerate(e[2]):
            out += nodes(c, pred, path + (2, i))
    return out


def replace(e, path, fn):
    """copy of e with the node at path replaced by fn(node)"""
    if not path:
        return fn(e)
    e = list(e)
    if isinstance(e[path[0]], list) and path[0] == 2 and e[0] in ('f', 'bin'):
        lst = list(e[2])
        lst[path[1]] = replace(lst[path[1]], path[2:], fn)
        e[2] = lst
    else:
        e[path[0]] = replace(e[path[0]], path[1:], fn)
    return e


# --------------------------------------------------------------------------- step guard (monitor shared by C01 / C02)

class StepBudgetExceeded(BaseException):
    """raised *inside* the monitored code when a call used more logical steps than the budget"""


class StepGuard:
    """sys.monitoring (tool id 3) counter of PY_START|JUMP events restricted to the code objects of the
    given modules; raises StepBudgetExceeded out of the monitored code once the budget is used up.
    Also records, once per line, which lines of the monitored functions were executed (anchor coverage)."""
    TOOL = 3
    _inst = None

    @classmethod
    def get(cls, modules):
        if cls._inst is None:
            cls._inst = cls()
        cls._inst.watch(modules)
        return cls._inst

    def __init__(self):
        import sys
        self.mon = sys.monitoring
        self.n = 0
        self.budget = 2_000_000
        self.max_ok = 0
        self.calls = 0
        self.lines = {}
        self.codes = {}
        self.mon.use_tool_id(self.TOOL, 'vt-steps')
        E = self.mon.events
        self.mon.register_callback(self.TOOL, E.PY_START, self._tick)
        self.mon.register_callback(self.TOOL, E.JUMP, self._tick)
        self.mon.register_callback(self.TOOL, E.LINE, self._line)

    def _tick(self, *a):
        self.n += 1
        if self.n > self.budget:
            self.n = -10 ** 15            # let the unwinding run without raising again
            raise StepBudgetExceeded(self.budget)

    def _line(self, code, line):
        self.lines['%s:%s:%d' % (code.co_filename.rsplit('/', 1)[-1], code.co_name, line)] = 1
        return self.mon.DISABLE

    def watch(self, modules):
        import types
        E = self.mon.events
        for m in modules:
            for obj in list(vars(m).values()):
                fns = []
                if isinstance(obj, types.FunctionType) and obj.__module__ == m.__name__:
                    fns.append(obj)
                elif isinstance(obj, type) and obj.__module__ == m.__name__:
                    fns += [f for f in vars(obj).values() if isinstance(f, types.FunctionType)]
                for f in fns:
                    if f.__code__ not in self.codes:
                        self.codes[f.__code__] = 1
                        self.mon.set_local_events(self.TOOL, f.__code__, E.PY_START | E.JUMP | E.LINE)

    def run(self, fn, *args):
        """-> ('v', result) | ('e', exception) | ('budget', steps)"""
        self.n = 0
        self.calls += 1
        self.budget = max(2_000_000, 200 * self.max_ok)
        try:
            r = fn(*args)
        except StepBudgetExceeded as e:
            return ('budget', e.args[0])
        except Exception as e:
            self.steps = self.n
            return ('e', e)
        self.steps = self.n
        if self.n > self.max_ok:
            self.max_ok = self.n
        return ('v', r)
