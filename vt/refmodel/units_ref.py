"""Independent reference model of unit expressions (used by C03–C09).

Reads the *published tables* (UNIT_PREFIXES, UNIT_STANDARD, QUANTITY_UNITS) once and from then on
computes, for a STRUCTURED unit expression, the conversion factor (float) and the eight-component
dimension vector (exact fractions.Fraction).  It never parses text.

Structured expression (JSON-able):
    ['a', prefix, symbol, n, d]      atom  prefix+symbol ** (n/d)
    ['n', 'text']                    numeric factor, literal text as rendered
    ['*', x, y]   ['/', x, y]        product / quotient (rendered left-associatively, so the right
                                     operand of a rendered chain is parenthesised when it is itself a product)
    ['p', x]                         explicit parentheses
"""
from fractions import Fraction as Fr
import math

NDIM = 8


class Tables:
    def __init__(self):
        from scinumtools.units import settings as S
        from scinumtools.units.unit_list import QUANTITY_UNITS
        self.prefixes = {k: float(S.UNIT_PREFIXES._data[k].magnitude) for k in S.UNIT_PREFIXES._keys}
        self.units = {}
        for k in S.UNIT_STANDARD._keys:
            row = S.UNIT_STANDARD._data[k]
            dims = tuple(Fr(d[0], d[1]) if isinstance(d, tuple) else Fr(d) for d in row.dimensions)
            defn = row.definition
            kind = 'std'
            if not isinstance(defn, str) and defn is not None:
                kind = getattr(defn, '__name__', 'custom')
            self.units[k] = dict(factor=row.magnitude, dims=dims, kind=kind, prefixes=row.prefixes, definition=defn)
        self.system = {k: dict(factor=v[0], dims=tuple(Fr(d[0], d[1]) if isinstance(d, tuple) else Fr(d) for d in v[1]))
                       for k, v in QUANTITY_UNITS.items()}

    # ---- admissibility
    def admissible(self, symbol):
        """list of prefixes the unit admits ('' not included)"""
        p = self.units[symbol]['prefixes']
        if p is True:
            return list(self.prefixes)
        if isinstance(p, (list, tuple)):
            return list(p)
        return []

    def decompositions(self, s):
        """D(s) = {(p,u) : p+u == s, u in table, p == '' or p admissible for u}"""
        out = []
        for u in self.units:
            if s.endswith(u):
                p = s[:len(s) - len(u)]
                if p == '' or (p in self.prefixes and p in self.admissible(u)):
                    out.append((p, u))
        return out

    def linear_symbols(self):
        return [k for k, v in self.units.items() if v['kind'] == 'std']

    # ---- meaning of a structured expression
    def atom(self, p, u, n=1, d=1):
        """(factor, dims) of prefix+symbol ** (n/d); raises OverflowError / ZeroDivisionError on overflow"""
        if u.startswith('#'):
            row = self.system[u]
            f = float(row['factor'])
        else:
            row = self.units[u]
            f = float(row['factor']) * (self.prefixes[p] if p else 1.0)
        e = Fr(n, d)
        if e.denominator == 1:
            fac = f ** int(e)
        else:
            fac = f ** (e.numerator / e.denominator)
        return float(fac), tuple(x * e for x in row['dims'])

    def meaning(self, x):
        """(unit_factor, numeric_factor, dims, unitmap) where unitmap = {(p,u): Fraction} in order of first appearance"""
        t = x[0]
        if t == 'a':
            f, dm = self.atom(x[1], x[2], x[3], x[4])
            return f, 1.0, dm, {(x[1], x[2]): Fr(x[3], x[4])}
        if t == 'n':
            return 1.0, float(x[1]), (Fr(0),) * NDIM, {}
        if t == 'p':
            return self.meaning(x[1])
        a = self.meaning(x[1])
        b = self.meaning(x[2])
        um = dict(a[3])
        if t == '*':
            for k, e in b[3].items():
                um[k] = um.get(k, Fr(0)) + e
            return a[0] * b[0], a[1] * b[1], tuple(p + q for p, q in zip(a[2], b[2])), um
        if t == '/':
            for k, e in b[3].items():
                um[k] = um.get(k, Fr(0)) - e
            return a[0] / b[0], a[1] / b[1], tuple(p - q for p, q in zip(a[2], b[2])), um
        raise ValueError(t)


def render_exp(n, d, style=0):
    if d == 1:
        if n == 1 and style != 2:
            return ''
        return str(n)
    return '%d:%d' % (n, d)


def render(x, top=True):
    """text of a structured expression; products are left-associative chains"""
    t = x[0]
    if t == 'a':
        return x[1] + x[2] + render_exp(x[3], x[4])
    if t == 'n':
        return x[1]
    if t == 'p':
        return '(' + render(x[1]) + ')'
    left = render(x[1])
    right = render(x[2])
    if x[2][0] in '*/':
        right = '(' + right + ')'
    return left + t + right


def dims_from_real(dimensions):
    """scinumtools Dimensions -> tuple of exact Fractions"""
    out = []
    for v in dimensions.value():
        out.append(Fr(v[0], v[1]) if isinstance(v, tuple) else Fr(v))
    return tuple(out)


def unitmap_from_real(baseunits):
    """BaseUnits.value() -> {(p,u): Fraction}"""
    out = {}
    for k, v in baseunits.value().items():
        if ':' in k:
            p, u = k.split(':')
        else:
            p, u = '', k
        out[(p, u)] = Fr(v[0], v[1]) if isinstance(v, tuple) else Fr(v)
    return out


def fmt_dims(d):
    return [str(x) for x in d]


def nonzero(um):
    return {k: v for k, v in um.items() if v != 0}


def finite_ok(*xs):
    return all(math.isfinite(x) and (x == 0 or 1e-290 < abs(x) < 1e290) for x in xs)
