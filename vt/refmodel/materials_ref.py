"""Reference model for the materials part (C10, C11, C12).

Nothing in here parses a formula.  A formula exists as a *tree* that the generator builds; the
real code only ever sees ``render(tree)``; the expected composition is computed from the tree
(``expand``) and the per-species data from the raw isotope table ``PT_DATA`` by the rules of
the property statement:

    N = A - Z,   e = Z + q,   m = M_iso + q * m_e
    isotope not given:  natural -> abundance-weighted mean over the tabulated isotopes
                        otherwise -> the isotope with the largest abundance

Tree nodes (JSON-able):

    species  {'k':'sp', 'sym':'C'|'[p]'|'D'.., 'A':int|None, 'q':int|None, 'qs':bool, 'n':int, 'cf':'n'|'i'|'x'}
             qs = charge written as a bare sign ('{+}', '{12-}'), only for |q| == 1
             cf = how the count is written: 'n' not at all (n == 1), 'i' implicit 'X3', 'x' explicit 'X * 3'
    group    {'k':'gr', 'items':[node..], 'seps':[str..], 'n':int, 'cf':'n'|'i'|'x'}
    formula  {'items':[node..], 'seps':[str..]}      seps[i] stands between items[i] and items[i+1]:
             '' (adjacent), ' ' / '  ' (blanks), ' + ' (explicit addition)

Documented-notation rules honoured by the generator (DESIGN C10 "N"): an explicit ' * n' is written
only directly after a single species or after a closing parenthesis and is followed by ' + ', by ')'
or by the end of the text; no leading coefficients; no blanks inside a term; elements without natural
abundances only with an explicit isotope.
"""
import math

NUCLEONS = {'[p]': (1, 0, 0), '[n]': (0, 1, 0), '[e]': (0, 0, 1)}
HYDROGEN_ALIAS = {'D': 2, 'T': 3}


class Tables:
    """Raw data the model is allowed to read: PT_DATA and the mass constants (in Da / g)."""

    def __init__(self, pt_data, me_da, mp_da, mn_da, da_g):
        self.pt = {}
        for el, (Z, isos) in pt_data.items():
            self.pt[el] = (int(Z), [(int(A), float(M), float(ab)) for A, (M, ab) in isos.items()])
        self.me, self.mp, self.mn, self.da_g = me_da, mp_da, mn_da, da_g
        self.elements = list(self.pt)
        self.with_abundance = [el for el in self.elements if sum(ab for _, _, ab in self.pt[el][1]) > 0]
        self.without_abundance = [el for el in self.elements if el not in self.with_abundance]
        # elements whose "most abundant isotope" is not unique are not used without explicit isotope
        self.unique_max = []
        for el in self.with_abundance:
            abs_ = sorted((ab for _, _, ab in self.pt[el][1]), reverse=True)
            if len(abs_) == 1 or abs_[0] > abs_[1]:
                self.unique_max.append(el)

    def isotopes(self, el):
        return [A for A, _, _ in self.pt[el][1]]


def load_tables():
    """Read the published raw tables of the library once (no parser / solver of the repo involved)."""
    from scinumtools.materials.periodic_table import PT_DATA
    from scinumtools.units.settings import UNIT_STANDARD
    da = float(UNIT_STANDARD['Da'].magnitude)          # grams
    me = float(UNIT_STANDARD['[m_e]'].magnitude) / da
    mp = float(UNIT_STANDARD['[m_p]'].magnitude) / da
    mn = float(UNIT_STANDARD['[m_n]'].magnitude) / da
    t = Tables(PT_DATA, me, mp, mn, da)
    # sanity against the documented values (docs/source/materials/elements.rst, 6 digits)
    assert abs(me - 5.48579e-4) / 5.48579e-4 < 1e-5 and abs(mp - 1.007276) < 2e-5 and abs(mn - 1.008664) < 2e-5, \
        'mass constants differ from the documented nucleon table'
    assert abs(da - 1.66053907e-24) / da < 1e-7
    return t


# ------------------------------------------------------------------------------- species

def sp(sym, A=None, q=None, qs=False, n=1, cf=None):
    if cf is None:
        cf = 'n' if n == 1 else 'i'
    return dict(k='sp', sym=sym, A=A, q=q, qs=bool(qs), n=n, cf=cf)


def gr(items, seps=None, n=1, cf=None):
    if cf is None:
        cf = 'n' if n == 1 else 'i'
    if seps is None:
        seps = [''] * (len(items) - 1)
    return dict(k='gr', items=items, seps=seps, n=n, cf=cf)


def fm(items, seps=None):
    if seps is None:
        seps = [''] * (len(items) - 1)
    return dict(items=items, seps=seps)


def species_text(s):
    """'C', 'C{13}', 'C{13+2}', 'C{-3}', 'C{+}', '[p]', 'D', 'D{2-1}'"""
    t = s['sym']
    A, q = s.get('A'), s.get('q')
    if A is None and not q:
        return t
    suf = ''
    if A is not None:
        suf += '%d' % A
    if q:
        sign = '+' if q > 0 else '-'
        if s.get('qs') and abs(q) == 1:
            suf += sign
        else:
            suf += '%s%d' % (sign, abs(q))
    return t + '{' + suf + '}'


def species_ident(s):
    """physical identity (element, A|None, q) - 'D' is H with A=2, 'T' is H with A=3"""
    sym = s['sym']
    if sym in NUCLEONS:
        return (sym, None, 0)
    A = s.get('A')
    if sym in HYDROGEN_ALIAS:
        A = HYDROGEN_ALIAS[sym]
        sym = 'H'
    return (sym, A, int(s.get('q') or 0))


def ident_key(ident):
    return '%s/%s/%d' % (ident[0], '-' if ident[1] is None else ident[1], ident[2])


def ident_data(T, ident, natural):
    """{'Z','N','e','mass'} of one species or None when the statement does not define it
    (no isotope given for an element without tabulated abundances / no unique maximum)."""
    el, A, q = ident
    if el in NUCLEONS:
        Z, N, e = NUCLEONS[el]
        return dict(Z=Z, N=N, e=e, mass={'[p]': T.mp, '[n]': T.mn, '[e]': T.me}[el])
    Z, isos = T.pt[el]
    if A is not None:
        for a, M, ab in isos:
            if a == A:
                return dict(Z=Z, N=A - Z, e=Z + q, mass=M + q * T.me)
        return None
    if natural:
        w = math.fsum(ab for _, _, ab in isos)
        if w <= 0:
            return None
        mass = math.fsum(ab * (M + q * T.me) for _, M, ab in isos) / w
        N = math.fsum(ab * (a - Z) for a, _, ab in isos) / w
        return dict(Z=Z, N=N, e=Z + q, mass=mass)
    best = max(isos, key=lambda r: r[2])
    if best[2] <= 0 or sum(1 for r in isos if r[2] == best[2]) > 1:
        return None
    a, M, _ = best
    return dict(Z=Z, N=a - Z, e=Z + q, mass=M + q * T.me)


# ------------------------------------------------------------------------------- render / expand

def _count_text(node):
    cf, n = node['cf'], node['n']
    if cf == 'n':
        return ''
    if cf == 'i':
        return '%d' % n
    return ' * %d' % n


def render_node(node):
    if node['k'] == 'sp':
        return species_text(node) + _count_text(node)
    return '(' + render_seq(node) + ')' + _count_text(node)


def render_seq(f):
    out = []
    for i, it in enumerate(f['items']):
        out.append(render_node(it))
        if i < len(f['items']) - 1:
            out.append(f['seps'][i])
    return ''.join(out)


def render(f):
    return render_seq(f)


def expand(f, factor=1, acc=None, idents=None):
    """-> (counts by species text in order of first occurrence, text -> identity)"""
    if acc is None:
        acc, idents = {}, {}
    for it in f['items']:
        if it['k'] == 'sp':
            t = species_text(it)
            acc[t] = acc.get(t, 0) + factor * it['n']
            idents[t] = species_ident(it)
        else:
            expand(it, factor * it['n'], acc, idents)
    return acc, idents


def merge_by_ident(counts, idents):
    out = {}
    for t, c in counts.items():
        k = ident_key(idents[t])
        out[k] = out.get(k, 0) + c
    return out


def totals(T, counts, idents, natural):
    """count-weighted sums {'mass','Z','N','e'} or None if some species is undefined"""
    tot = dict(mass=[], Z=[], N=[], e=[])
    for t, c in counts.items():
        d = ident_data(T, idents[t], natural)
        if d is None:
            return None
        for k in tot:
            tot[k].append(c * d[k])
    return {k: math.fsum(v) for k, v in tot.items()}


def all_species(f, out=None):
    if out is None:
        out = []
    for it in f['items']:
        if it['k'] == 'sp':
            out.append(it)
        else:
            all_species(it, out)
    return out


# ------------------------------------------------------------------------------- shape analysis

def depth(f):
    d = 0
    for it in f['items']:
        if it['k'] == 'gr':
            d = max(d, 1 + depth(it))
    return d


def multiplied_group_followers(f, out=None):
    """all places where a group with an *implicit* multiplier is followed (after optional blanks) by another
    group, or by an explicit ' + ': [(multiplier, 'group'|'plus-group'|'plus-species', text of the next species|None)]"""
    if out is None:
        out = []
    items, seps = f['items'], f['seps']
    for i, it in enumerate(items):
        if it['k'] == 'gr':
            multiplied_group_followers(it, out)
            if it['cf'] == 'i' and i < len(items) - 1:
                nxt, sep = items[i + 1], seps[i]
                if '+' in sep:
                    out.append((it['n'], 'plus-group' if nxt['k'] == 'gr' else 'plus-species',
                                species_text(nxt) if nxt['k'] == 'sp' else None))
                elif nxt['k'] == 'gr':
                    out.append((it['n'], 'group', None))
    return out


def shape_classes(f):
    """case classes the property statement / DESIGN call out, derived from the tree"""
    cl = set()
    text = render(f)
    d = depth(f)
    if d >= 1:
        cl.add('group')
    if d >= 3:
        cl.add('nesting>=3')
    fol = multiplied_group_followers(f)
    if any(k == 'group' for _, k, _ in fol):
        cl.add('multiplied-group-followed-by-group')
    if any(k != 'group' for _, k, _ in fol):
        cl.add('multiplied-group-followed-by-explicit-plus')
    for a, b in zip(text, text[1:]):
        if a.isupper() and b.isupper():
            cl.add('two-capitals-in-a-row')
            break

    def walk(g):
        for i, it in enumerate(g['items']):
            if it['n'] >= 10:
                cl.add('count>=10')
            if it['cf'] == 'x':
                cl.add('explicit-multiplication')
            if it['cf'] == 'i':
                cl.add('implicit-multiplication')
            if it['k'] == 'gr':
                walk(it)
            else:
                if it['sym'] in NUCLEONS:
                    cl.add('nucleon')
                elif it['sym'] in HYDROGEN_ALIAS:
                    cl.add('deuterium-tritium')
                if it.get('A') is not None:
                    cl.add('isotope-suffix')
                if it.get('q'):
                    cl.add('charge-suffix')
                    if it.get('A') is not None:
                        cl.add('isotope+charge-suffix')
        for s in g['seps']:
            if '+' in s:
                cl.add('explicit-addition')
            elif s:
                cl.add('blank-between-terms')
            else:
                cl.add('adjacent-terms')
    walk(f)
    return cl


# ------------------------------------------------------------------------------- generator

COMMON = ['H', 'C', 'N', 'O', 'Na', 'Cl', 'S', 'Ca', 'Fe', 'Al', 'Si', 'K', 'Mg', 'P', 'Co', 'Cu', 'B', 'F', 'He', 'U']


def gen_species(rng, T, natural_ok=True, allow_suffix=True, el=None):
    """one species node without count"""
    r = rng.random()
    if el is None and r < 0.06:
        return sp(rng.choice(list(NUCLEONS)))
    if el is None and r < 0.12:
        sym = rng.choice(['D', 'T'])
        if allow_suffix and rng.random() < 0.3:
            q = rng.choice([-1, 1, 2])
            return sp(sym, A=HYDROGEN_ALIAS[sym], q=q, qs=(abs(q) == 1 and rng.random() < 0.5))
        return sp(sym)
    if el is None:
        el = rng.choice(COMMON) if rng.random() < 0.35 else rng.choice(T.elements)
    Z = T.pt[el][0]
    need_iso = el not in T.unique_max
    A = q = None
    r = rng.random()
    if need_iso or (allow_suffix and r < 0.30):
        A = rng.choice(T.isotopes(el))
    if allow_suffix and rng.random() < 0.28:
        lo = -min(Z, rng.choice([1, 2, 3, 12, 30]))
        q = rng.choice([x for x in range(lo, 5) if x != 0])
    qs = bool(q) and abs(q) == 1 and rng.random() < 0.5
    return sp(el, A=A, q=q, qs=qs)


def gen_count(rng, big=0.12):
    r = rng.random()
    if r < 0.45:
        return 1
    if r < 0.45 + big:
        return rng.choice([10, 11, 12, 18, 22, 60, 100, 137])
    return rng.randint(2, 9)


def gen_seq(rng, T, depth_left, nitems, opts):
    items, seps = [], []
    for i in range(nitems):
        if depth_left > 0 and rng.random() < opts.get('pgroup', 0.3):
            inner = gen_seq(rng, T, depth_left - 1, rng.randint(1, 3), opts)
            node = dict(k='gr', items=inner['items'], seps=inner['seps'], n=1, cf='n')
        else:
            node = gen_species(rng, T, allow_suffix=opts.get('suffix', True))
        n = gen_count(rng)
        if n == 1 and rng.random() < 0.03:
            node['n'], node['cf'] = 1, 'i'               # 'H1'
        elif n > 1:
            node['n'] = n
            node['cf'] = 'x' if rng.random() < opts.get('pexplicit', 0.12) else 'i'
        items.append(node)
    for i in range(nitems - 1):
        if items[i]['cf'] == 'x':
            seps.append(' + ')
        else:
            r = rng.random()
            seps.append('' if r < 0.6 else (' + ' if r < 0.8 else rng.choice([' ', ' ', '  '])))
    f = dict(items=items, seps=seps)
    if opts.get('noplus'):
        _no_operators(f)
    elif opts.get('avoid_known'):
        _avoid_known(f)
    return f


def _avoid_known(f):
    """rewrite the places that trigger the recorded C10 defect (used by C11/C12 which need working formulas)"""
    items, seps = f['items'], f['seps']
    for i, it in enumerate(items):
        if it['k'] == 'gr':
            _avoid_known(it)
            if it['cf'] == 'i' and i < len(items) - 1 and ('+' in seps[i] or items[i + 1]['k'] == 'gr'):
                it['cf'] = 'x'
                seps[i] = ' + '


def _no_operators(f):
    """short notation only (no explicit ' + ' / ' * ', needed inside '<...>' of a material string) and none of the
    places that trigger the recorded C10 defect: a multiplied group directly followed by a group gets a species between"""
    items, seps = f['items'], f['seps']
    for i, it in enumerate(items):
        if it['cf'] == 'x':
            it['cf'] = 'i'
        if it['k'] == 'gr':
            _no_operators(it)
    for i in range(len(seps)):
        if '+' in seps[i]:
            seps[i] = ''
    i = 0
    while i < len(items) - 1:
        if items[i]['k'] == 'gr' and items[i]['cf'] == 'i' and items[i + 1]['k'] == 'gr':
            items[i], items[i + 1] = items[i + 1], items[i]      # '(A)2(B)' -> '(B)(A)2'; if both multiplied drop one multiplier
            if items[i]['cf'] == 'i':
                items[i]['n'], items[i]['cf'] = 1, 'n'
        i += 1


def gen_formula(rng, T, opts=None):
    opts = dict(opts or {})
    maxdepth = opts.get('maxdepth', 5)
    d = rng.choice([0, 0, 1, 1, 2, 3, 4, 5])
    d = min(d, maxdepth)
    f = gen_seq(rng, T, d, rng.randint(1, opts.get('maxitems', 5)), opts)
    return f


def nest(rng, T, levels):
    """a formula with exactly `levels` nested groups, every level multiplied"""
    inner = fm([gen_species(rng, T), gen_species(rng, T)])
    inner['items'][0]['n'], inner['items'][0]['cf'] = rng.randint(2, 4), 'i'
    for _ in range(levels):
        g = gr(inner['items'], inner['seps'], n=rng.randint(2, 4))
        extra = gen_species(rng, T)
        inner = fm([extra, g] if rng.random() < 0.5 else [g, extra])
    return inner
