"""C15 reference model: block trees of @case/@else/@end, renderer, reference interpreter, taint analysis.

A *program* is a JSON-able list of items

    {'k':'def','n':name,'ty':'int|float|str|bool','v':value,'p':None|'constant'|'tags'|'options'|'optlines'}
    {'k':'mod','n':name,'v':value}
    {'k':'grp','n':name,'w':indent step,'items':[...]}
    {'k':'blk','cl':[{'c':cond,'items':[...]}...],'el':None|[...],'close':'end'|'indent','w':step,'cp':None|'g'}
    {'k':'bad','kw':'else'|'end','items':[...],'w':step}          (misplaced keyword: program must be rejected)

    cond: {'e':'lit','v':bool} | {'e':'ref','n':name} | {'e':'not','a':cond} | {'e':'cmp','op':op,'n':name,'c':const}
          | {'e':'def','n':name} | {'e':'and'|'or','a':cond,'b':cond}

Nothing in here imports the repository.  The expected environment is computed from the tree:
an item takes effect iff every enclosing clause is the selected clause of its block (first true condition,
else '@else').  Names are not changed by clauses; groups (and the compact form 'g.@case') prefix them.

Known defective mechanisms of the real branching code (see NOTES_C15_C16.md) are *not* modelled by a twin of
the algorithm but by taint: every writer (definition / modification line) gets the flags of the mechanisms
that can reach it, and an observed difference is attributed to a mechanism only if every differing key can be
explained by dropping / adding *tainted* writers in the direction of that mechanism.
"""
import itertools

KEY_F1 = 'C15-F1-nodes-dropped-after-unselected-indentation-closed-clause'
KEY_F2 = 'C15-F2-else-without-open-block-accepted'
KEY_F3 = 'C15-F3-only-innermost-open-block-consulted'
KEY_F4 = 'C15-F4-end-rejected-after-indentation-closed-inner-block'
KEY_F5 = 'C15-F5-case-after-indentation-closed-block-under-group-crashes'
KEY_F6 = 'C15-F6-dedent-over-several-levels-closes-only-one-block'

MISSING = '<missing>'


# ------------------------------------------------------------------------------------------------ constructors

def D(n, ty, v, p=None):
    return {'k': 'def', 'n': n, 'ty': ty, 'v': v, 'p': p}


def M(n, v):
    return {'k': 'mod', 'n': n, 'v': v}


def G(n, items, w=2):
    return {'k': 'grp', 'n': n, 'w': w, 'items': items}


def B(clauses, el=None, close='end', w=2, cp=None):
    return {'k': 'blk', 'cl': [{'c': c, 'items': it} for c, it in clauses], 'el': el, 'close': close, 'w': w, 'cp': cp}


def BAD(kw, items=(), w=2):
    return {'k': 'bad', 'kw': kw, 'items': list(items), 'w': w}


def LIT(v):
    return {'e': 'lit', 'v': bool(v)}


# ------------------------------------------------------------------------------------------------ rendering

def render_value(ty, v):
    if ty == 'bool':
        return 'true' if v else 'false'
    if ty == 'str':
        return "'%s'" % v
    if ty == 'float':
        return repr(float(v))
    return str(int(v))


def render_cond(c):
    if c['e'] == 'lit':
        return 'true' if c['v'] else 'false'
    return '("%s")' % render_expr(c, top=True)


def render_expr(c, top=False):
    e = c['e']
    if e == 'lit':
        return 'true' if c['v'] else 'false'
    if e == 'ref':
        return '{?%s}' % c['n']
    if e == 'def':
        return '!{?%s}' % c['n']
    if e == 'not':
        return '~' + render_expr(c['a'])
    if e == 'cmp':
        const = ("'%s'" % c['c']) if isinstance(c['c'], str) else str(c['c'])
        return '{?%s} %s %s' % (c['n'], c['op'], const)
    if e in ('and', 'or'):
        s = '%s %s %s' % (render_expr(c['a']), '&&' if e == 'and' else '||', render_expr(c['b']))
        return s if top else '(' + s + ')'
    raise ValueError(e)


def eval_cond(c, env):
    """truth of a condition tree on the model environment (name -> record)"""
    e = c['e']
    if e == 'lit':
        return bool(c['v'])
    if e == 'ref':
        return bool(env[c['n']]['v'])
    if e == 'def':
        return c['n'] in env
    if e == 'not':
        return not eval_cond(c['a'], env)
    if e == 'and':
        return eval_cond(c['a'], env) and eval_cond(c['b'], env)
    if e == 'or':
        return eval_cond(c['a'], env) or eval_cond(c['b'], env)
    if e == 'cmp':
        a, b, op = env[c['n']]['v'], c['c'], c['op']
        return {'==': a == b, '!=': a != b, '<': a < b, '>': a > b, '<=': a <= b, '>=': a >= b}[op]
    raise ValueError(e)


def cond_refs(c):
    e = c['e']
    if e in ('ref', 'cmp'):
        return [c['n']]
    if e == 'not':
        return cond_refs(c['a'])
    if e in ('and', 'or'):
        return cond_refs(c['a']) + cond_refs(c['b'])
    return []


# ------------------------------------------------------------------------------------------------ analysis

class Analysis:
    pass


def _rec(ty, v, p):
    r = {'ty': ty, 'v': v, 'const': p == 'constant', 'tags': ['t1', 't2'] if p == 'tags' else None,
         'nopts': 2 if p in ('options', 'optlines') else 0}
    return r


def analyse(items):
    """walk the tree once: render text, interpret, record events; then compute taints and shapes"""
    A = Analysis()
    env = {}
    events, blocks, lines = [], [], []
    A.model_invalid = None
    A.mustfail = None

    def emit(ev):
        ev['i'] = len(events)
        events.append(ev)
        return ev

    def walk(its, indent, prefix, chain, active, gdepth):
        for it in its:
            k = it['k']
            pad = ' ' * indent
            if k in ('def', 'mod'):
                name = prefix + it['n']
                if k == 'def':
                    lines.append('%s%s %s = %s' % (pad, it['n'], it['ty'], render_value(it['ty'], it['v'])))
                    nodeline = lines[-1]
                    p = it.get('p')
                    if p == 'constant':
                        lines.append(pad + '  !constant')
                    elif p == 'tags':
                        lines.append(pad + '  !tags ["t1","t2"]')
                    elif p == 'options':
                        other = render_value(it['ty'], it['v'] + 1000 if it['ty'] != 'str' else it['v'] + 'x')
                        lines.append(pad + '  !options [%s,%s]' % (render_value(it['ty'], it['v']).replace("'", '"'),
                                                                  other.replace("'", '"')))
                    elif p == 'optlines':
                        other = render_value(it['ty'], it['v'] + 1000 if it['ty'] != 'str' else it['v'] + 'x')
                        lines.append(pad + '  = ' + render_value(it['ty'], it['v']))
                        lines.append(pad + '  = ' + other)
                else:
                    ty = env[name]['ty'] if name in env else it.get('ty', 'int')
                    lines.append('%s%s = %s' % (pad, it['n'], render_value(it.get('ty') or ty, it['v'])))
                    nodeline = lines[-1]
                ev = emit(dict(ev='w', kind=k, name=name, ty=it.get('ty'), v=it['v'], p=it.get('p'),
                               chain=tuple(chain), taken=active, line=nodeline))
                if active:
                    if name in env:
                        if k == 'def' and env[name]['ty'] != it['ty']:
                            A.model_invalid = 'type change of ' + name
                        if k == 'def' and it.get('p'):
                            A.model_invalid = 'property on redefinition of ' + name
                        if env[name]['const']:
                            A.model_invalid = 'modification of constant ' + name
                        env[name]['v'] = it['v']
                    elif k == 'def':
                        env[name] = _rec(it['ty'], it['v'], it.get('p'))
                    else:
                        A.model_invalid = 'modification of undefined ' + name
            elif k == 'grp':
                lines.append(pad + it['n'])
                emit(dict(ev='g', name=prefix + it['n'], chain=tuple(chain)))
                walk(it['items'], indent + it.get('w', 2), prefix + it['n'] + '.', chain, active, gdepth + 1)
            elif k == 'blk':
                bid = len(blocks)
                cp = it.get('cp')
                kwp = (cp + '.') if cp else ''
                blk = dict(id=bid, close=it['close'], chain=tuple(chain), start=len(events), locsel=[],
                           gdepth=gdepth + (1 if cp else 0), kw=[], active=active, prefix=prefix + kwp)
                blocks.append(blk)
                parts = [(c['c'], c['items']) for c in it['cl']]
                if it.get('el') is not None:
                    parts.append((None, it['el']))
                found = False
                for ci, (cond, sub) in enumerate(parts):
                    if cond is None:
                        truth = True
                        lines.append(pad + kwp + '@else')
                    else:
                        for r in cond_refs(cond):
                            if r not in env:
                                A.model_invalid = 'condition refers to undefined ' + r
                        truth = eval_cond(cond, env) if not A.model_invalid else False
                        lines.append(pad + kwp + '@case ' + render_cond(cond))
                    sel = truth and not found
                    found = found or truth
                    blk['locsel'].append(sel)
                    kev = emit(dict(ev='kw', kw='else' if cond is None else 'case', block=bid, clause=ci,
                                    chain=tuple(chain), truth=truth))
                    blk['kw'].append(kev['i'])
                    walk(sub, indent + it.get('w', 2), prefix + kwp, chain + [(bid, ci, sel)], active and sel,
                         gdepth + (1 if cp else 0))
                if it['close'] == 'end':
                    lines.append(pad + kwp + '@end')
                    emit(dict(ev='end', block=bid, chain=tuple(chain), line=lines[-1]))
                blk['end'] = len(events) - 1
            elif k == 'bad':
                if A.mustfail is None:
                    A.mustfail = dict(kw=it['kw'], first=not any(e['ev'] in ('kw', 'end') for e in events),
                                      active=active, depth=len(chain))
                lines.append(pad + '@' + it['kw'])
                emit(dict(ev='bad', kw=it['kw'], chain=tuple(chain)))
                # twin of F2: the body of a misplaced @else is taken like a selected clause
                walk(it['items'], indent + it.get('w', 2), prefix, chain, active, gdepth)
            else:
                raise ValueError(k)

    walk(items, 0, '', [], True, 0)
    A.text = '\n'.join(lines)
    A.lines = lines
    A.expected = env
    A.events = events
    A.blocks = blocks
    _taint(A)
    return A


def _taint(A):
    events, blocks = A.events, A.blocks
    n = len(events)
    writers = [e for e in events if e['ev'] == 'w']
    for w in writers:
        w['drop'] = set()      # expected to take effect, the real code may drop it: {'F1','F6'}
        w['add'] = False       # expected to have no effect, the real code may apply it (F3 direction)
    # F1 sources: indentation-closed block whose last clause is not the selected one (the skip test keeps
    # consulting it: it is never closed by the following nodes).
    # F6 sources: indentation-closed block (last clause selected) that is not closed by the very next line: closing
    # happens only on accepted node lines, one level per line, never on group or keyword lines.  Typical: it ends
    # together with an indentation-closed block nested in it, or it is followed by a group.  The block stays open
    # and absorbs the clauses of a following block of the same path.
    A.f1_sources = []
    A.f6_sources = []
    for b in blocks:
        if b['close'] != 'indent':
            continue
        kinds = []
        if not b['locsel'][-1]:
            kinds.append('F1')
            A.f1_sources.append(b['id'])
        simultaneous = any(c['close'] == 'indent' and c['end'] == b['end'] and any(x[0] == b['id'] for x in c['chain'])
                           for c in blocks)
        nxt = events[b['end'] + 1] if b['end'] + 1 < n else None
        closed_at_once = nxt is not None and nxt['ev'] == 'w' and not simultaneous
        if b['locsel'][-1] and not closed_at_once:
            # the next line is not a node line that closes this block (group line, keyword line, end of text, or the
            # node line is used up by an inner block): the block may linger and absorb a later block of the same path
            kinds.append('F6')
            A.f6_sources.append(b['id'])
        if not kinds:
            continue
        anc = set(c[0] for c in b['chain'])
        i = b['end'] + 1
        while i < n:
            e = events[i]
            if e['ev'] == 'kw' and e['block'] in anc:
                break          # a clause keyword of an enclosing block closes the open block by path
            if e['ev'] == 'w' and e['taken']:
                e['drop'].update(kinds)
            i += 1
    # F3 direction: innermost enclosing clause locally selected although an outer one is not, or the writer follows
    # an indentation-closed block that no keyword of an enclosing block has closed yet (the skip test consults that
    # block; every accepted node line closes only one level)
    open_after = [False] * (n + 1)
    for b in blocks:
        if b['close'] == 'indent':
            anc = set(c[0] for c in b['chain'])
            i = b['end'] + 1
            while i < n and not (events[i]['ev'] in ('kw', 'end') and events[i]['block'] in anc):
                open_after[i] = True
                i += 1
    for w in writers:
        if not w['taken']:
            if w['chain'] and w['chain'][-1][2]:
                w['add'] = True
            if open_after[w['i']]:
                w['add'] = True
    # F4 shape (wide): '@end' of a block whose last clause contains an indentation-closed block
    A.f4_lines = []
    for b in blocks:
        if b['close'] != 'end':
            continue
        lo, hi = b['kw'][-1] + 1, b['end'] - 1
        if any(c['close'] == 'indent' and lo <= c['start'] and c['end'] <= hi for c in blocks):
            A.f4_lines.append(events[b['end']]['line'])
    # F5 shape (wide): an indentation-closed block, and later a clause keyword of a block that does not enclose it
    # and lives under another group path (the keyword's path is compared as a string with the still open path
    # and "closes" past the root)
    A.f5 = False
    for b in blocks:
        if b['close'] != 'indent':
            continue
        anc = set(c[0] for c in b['chain'])
        for e in events[b['end'] + 1:]:
            if e['ev'] == 'kw' and e['block'] not in anc and blocks[e['block']]['prefix'] != b['prefix']:
                A.f5 = True
                break
        if A.f5:
            break
    A.writers = writers
    A.tainted = any(w['drop'] or w['add'] for w in writers) or bool(A.f4_lines) or A.f5
    A.shape_free = not A.tainted and A.mustfail is None
    A.classes_shape = []
    if any('F1' in w['drop'] for w in writers):
        A.classes_shape.append('taint-F1')
    if any('F6' in w['drop'] for w in writers):
        A.classes_shape.append('taint-F6')
    if any(w['add'] for w in writers):
        A.classes_shape.append('taint-F3')
    if A.f4_lines:
        A.classes_shape.append('shape-F4')
    if A.f5:
        A.classes_shape.append('shape-F5')


# ------------------------------------------------------------------------------------------------ judging

def explain_key(A, name, obs):
    """obs: observed record or MISSING.  Returns None if not explainable, else the set of mechanisms used.

    A writer is *forced* (expected to apply, untainted), *optional* (taken and drop-tainted: the real code may skip
    it; not taken and add-tainted: the real code may apply it) or *impossible*.  The observed record must be what
    some application set {forced} + subset(optional) produces: type/properties of the first applied definition,
    value of the last applied writer.  A tainted definition may also be applied without its property line (the
    node line is judged by a not-yet-closed inner block, the property line by the block below it)."""
    ws = [w for w in A.writers if w['name'] == name]

    def forced(w):
        return w['taken'] and not w['drop']

    def optional(w):
        return (w['taken'] and w['drop']) or (not w['taken'] and w['add'])

    if obs is MISSING or obs == MISSING:
        if any(forced(w) for w in ws) or not any(w['taken'] for w in ws):
            return None
        return set(_dk(w) for w in ws if w['taken'])
    best = None
    for k, wl in enumerate(ws):
        if wl['v'] != obs['v'] or type(wl['v']) is not type(obs['v']) or not (forced(wl) or optional(wl)):
            continue
        if any(forced(w) for w in ws[k + 1:]):
            continue
        base = [w for w in ws[:k] if w['taken']] + [wl]
        mech = set()
        for w in ws[k + 1:]:
            if w['taken']:
                mech.add(_dk(w))
        if not wl['taken']:
            mech.add('F3')
        firsts = []
        if base[0]['kind'] == 'def':
            firsts.append((base[0], set()))
        for d in ws[:ws.index(base[0])]:
            if d['kind'] == 'def' and not d['taken'] and d['add']:
                firsts.append((d, {'F3'}))
        for j, w in enumerate(base):
            if j > 0 and all(x['drop'] for x in base[:j]) and w['kind'] == 'def':
                firsts.append((w, set(_dk(x) for x in base[:j])))
        for f, m2 in firsts:
            for lost in (False, True):
                if lost and (not f.get('p') or not optional(f)):
                    continue
                rec = _rec(f['ty'], wl['v'], None if lost else f.get('p'))
                if rec == obs:
                    m = mech | m2 | (({_dk(f)} if f['taken'] else {'F3'}) if lost else set())
                    if best is None or len(m) < len(best):
                        best = m
    return best


def _dk(w):
    return 'F1' if 'F1' in w['drop'] else 'F6'


def clean_keys(A):
    """keys all of whose writers are untainted"""
    bad = set(w['name'] for w in A.writers if w['drop'] or w['add'])
    return [k for k in A.expected if k not in bad]


# ------------------------------------------------------------------------------------------------ enumeration

SHAPES = [(1, False), (1, True), (2, False), (2, True), (3, False)]


class _Names:
    def __init__(self):
        self.n = 0
        self.v = 10

    def name(self, p='x'):
        self.n += 1
        return '%s%d' % (p, self.n)

    def val(self):
        self.v += 1
        return self.v


def _simple_block(nm, shape, truth, close, anchor, inner=None, inner_at=None, inner_first=False):
    ncase, has_else = shape
    clauses = []
    for i in range(ncase):
        its = [D(nm.name(), 'int', nm.val()), M(anchor, nm.val())]
        if inner is not None and inner_at == i:
            its = ([inner] + its) if inner_first else (its + [inner])
        clauses.append((LIT(truth[i]), its))
    el = None
    if has_else:
        el = [D(nm.name(), 'int', nm.val()), M(anchor, nm.val())]
        if inner is not None and inner_at == ncase:
            el = ([inner] + el) if inner_first else (el + [inner])
    return B(clauses, el, close)


def block_variants():
    for shape in SHAPES:
        for truth in itertools.product((False, True), repeat=shape[0]):
            for close in ('end', 'indent'):
                yield shape, truth, close


def enum_core():
    """the complete small-scope core; deterministic order"""
    variants = list(block_variants())
    # family 1: single block, with and without a node after it
    for shape, truth, close in variants:
        for tail in (True, False):
            nm = _Names()
            items = [D('a0', 'int', nm.val()), _simple_block(nm, shape, truth, close, 'a0')]
            if tail:
                items.append(D('z', 'int', nm.val()))
            yield dict(t='prog', fam='single', items=items)
    # family 2: nesting 2, inner block in every clause position, before / after the clause's own nodes
    for shape, truth, close in variants:
        nclauses = shape[0] + (1 if shape[1] else 0)
        for at in range(nclauses):
            for first in (False, True):
                for ishape, itruth, iclose in variants:
                    nm = _Names()
                    inner = _simple_block(nm, ishape, itruth, iclose, 'a0')
                    items = [D('a0', 'int', nm.val()),
                             _simple_block(nm, shape, truth, close, 'a0', inner, at, first),
                             D('z', 'int', nm.val())]
                    yield dict(t='prog', fam='nested', items=items)
    # family 3: two consecutive blocks, with / without a node between them
    for shape, truth, close in variants:
        for between in (True, False):
            if not between and close == 'indent':
                continue          # without @end the second @case is, by definition, a clause of the first block
            for shape2, truth2, close2 in variants:
                nm = _Names()
                items = [D('a0', 'int', nm.val()), _simple_block(nm, shape, truth, close, 'a0')]
                if between:
                    items.append(D('m', 'int', nm.val()))
                items.append(_simple_block(nm, shape2, truth2, close2, 'a0'))
                items.append(D('z', 'int', nm.val()))
                yield dict(t='prog', fam='sequence', items=items)
    # family 4: misplaced keywords around every explicitly closed single block
    for kw in ('else', 'end'):
        nm = _Names()
        yield dict(t='prog', fam='mustfail', items=[BAD(kw, [D('q', 'int', nm.val())] if kw == 'else' else [])])
        nm = _Names()
        yield dict(t='prog', fam='mustfail', items=[D('a0', 'int', nm.val()),
                                                    BAD(kw, [D('q', 'int', nm.val())] if kw == 'else' else []),
                                                    D('z', 'int', nm.val())])
    for shape, truth, close in variants:
        if close != 'end':
            continue
        for kw in ('else', 'end'):
            for between in (False, True):
                for tail_end in (False, True):
                    if kw == 'end' and tail_end:
                        continue
                    nm = _Names()
                    items = [D('a0', 'int', nm.val()), _simple_block(nm, shape, truth, close, 'a0')]
                    if between:
                        items.append(D('m', 'int', nm.val()))
                    items.append(BAD(kw, [D('q', 'int', nm.val())] if kw == 'else' else []))
                    if tail_end:
                        items.append(BAD('end'))
                    items.append(D('z', 'int', nm.val()))
                    yield dict(t='prog', fam='mustfail', items=items)


# ------------------------------------------------------------------------------------------------ random programs

class _Gen:
    def __init__(self, rng, maxdepth, closes=('end', 'indent'), clean=False):
        self.rng = rng
        self.clean = clean
        self.maxdepth = maxdepth
        self.closes = closes
        self.nm = _Names()
        self.nblocks = 0
        self.nlines = 0
        self.maxblocks = rng.choice([3, 5, 8, 12])
        self.maxlines = rng.choice([12, 20, 30, 50])

    def value(self, ty):
        v = self.nm.val()
        if ty == 'int':
            return v
        if ty == 'float':
            return v + 0.5
        if ty == 'str':
            return 's%d' % v
        return bool(v % 2)

    def node(self, scope, in_clause):
        """one definition / modification / definition with a property line"""
        rng = self.rng
        r = rng.random()
        if r < 0.22 and scope['targets']:
            n, ty = rng.choice(scope['targets'])
            return {'k': 'mod', 'n': n, 'ty': ty, 'v': self.value(ty)}
        if r < 0.32 and scope['targets']:
            n, ty = rng.choice(scope['targets'])        # definition form used on an existing name
            return D(n, ty, self.value(ty))
        ty = rng.choice(['int', 'int', 'str', 'float'])
        p = None
        if rng.random() < (0.3 if in_clause else 0.1):
            p = rng.choice(['constant', 'tags', 'options', 'optlines'])
        return D(self.nm.name('n'), ty, self.value(ty), p)

    def items(self, depth, scope, in_clause, nmin=1, nmax=4, active=True):
        rng = self.rng
        out = []
        n = rng.randint(nmin, nmax)
        prev_indent_block = False
        for _ in range(n):
            self.nlines += 1
            r = rng.random()
            can_block = depth < self.maxdepth and self.nblocks < self.maxblocks and self.nlines < self.maxlines \
                and not prev_indent_block
            if r < 0.38 and can_block:
                b = self.block(depth, scope, active)
                out.append(b)
                prev_indent_block = b['close'] == 'indent'
            elif r < 0.48 and scope['gdepth'] < 2 and self.nlines < self.maxlines:
                out.append(self.group(depth, scope, in_clause, active))
                prev_indent_block = False
            else:
                out.append(self.node(scope, in_clause))
                prev_indent_block = False
        return out

    def group(self, depth, scope, in_clause, active=True):
        rng = self.rng
        name = self.nm.name('g')
        sub = dict(targets=[], gdepth=scope['gdepth'] + 1)
        its = []
        if rng.random() < 0.7:
            a = self.nm.name('k')
            its.append(D(a, 'int', self.value('int')))
            sub['targets'].append((a, 'int'))
        its += self.items(depth, sub, in_clause, 1, 3, active)
        return G(name, its, rng.choice([1, 2, 2, 3, 4]))

    def block(self, depth, scope, active=True):
        rng = self.rng
        self.nblocks += 1
        shape = rng.choice(SHAPES + [(2, False), (1, True)])
        truths = [rng.random() < 0.5 for _ in range(shape[0])]
        if self.clean and not active:
            # clean profile: nothing is selected below an unselected clause (no F3 shape)
            shape = (shape[0], False)
            truths = [False] * shape[0]
        close = rng.choice(self.closes)
        shared = None
        if rng.random() < 0.3:
            shared = (self.nm.name('sh'), rng.choice(['int', 'str']))
        clauses = []
        found = False
        for i in range(shape[0]):
            sel = truths[i] and not found
            found = found or truths[i]
            its = self.items(depth + 1, scope, True, 1, 3, active and sel)
            if shared:
                its.insert(rng.randint(0, len(its)), D(shared[0], shared[1], self.value(shared[1])))
                its = self._fix(its)
            clauses.append((LIT(truths[i]), its))
        el = None
        if shape[1]:
            el = self.items(depth + 1, scope, True, 1, 3, active and not found)
            if shared:
                el.insert(rng.randint(0, len(el)), D(shared[0], shared[1], self.value(shared[1])))
                el = self._fix(el)
        cp = None
        if scope['gdepth'] == 0 and depth == 0 and rng.random() < 0.12:
            cp = self.nm.name('c')
        return B(clauses, el, close, rng.choice([1, 2, 2, 3, 4]), cp)

    def _fix(self, its):
        """no block directly after an indentation-closed block in one list"""
        out = []
        for it in its:
            if out and out[-1]['k'] == 'blk' and out[-1]['close'] == 'indent' and it['k'] == 'blk':
                out.append(D(self.nm.name('n'), 'int', self.value('int')))
            out.append(it)
        return out


def _all_conds(items, out):
    for it in items:
        if it['k'] == 'blk':
            for c in it['cl']:
                out.append(c)
                _all_conds(c['items'], out)
            if it.get('el') is not None:
                _all_conds(it['el'], out)
        elif it['k'] in ('grp', 'bad'):
            _all_conds(it['items'], out)


def _flat_nodes(items, out):
    for it in items:
        if it['k'] in ('def', 'mod'):
            out.append(it)
        elif it['k'] == 'grp' or it['k'] == 'bad':
            _flat_nodes(it['items'], out)
        elif it['k'] == 'blk':
            for c in it['cl']:
                _flat_nodes(c['items'], out)
            if it.get('el') is not None:
                _flat_nodes(it['el'], out)


def _all_blocks(items, out):
    for it in items:
        if it['k'] == 'blk':
            out.append(it)
            for c in it['cl']:
                _all_blocks(c['items'], out)
            if it.get('el') is not None:
                _all_blocks(it['el'], out)
        elif it['k'] in ('grp', 'bad'):
            _all_blocks(it['items'], out)


def gen_random(rng, maxdepth=5, closes=('end', 'indent'), expressions=True, clean=False, indent_ok=True):
    """clean=True: profile that avoids the known defective shapes (explicit @end, nothing selected below an
    unselected clause; afterwards blocks are switched to indentation closing where that keeps the program shape-free)"""
    if clean:
        closes = ('end',)
    g = _Gen(rng, maxdepth, closes, clean)
    root = dict(targets=[], gdepth=0)
    items = []
    for _ in range(rng.randint(1, 3)):
        a = g.nm.name('a')
        items.append(D(a, 'int', g.value('int')))
        root['targets'].append((a, 'int'))
    if rng.random() < 0.5:
        a = g.nm.name('a')
        items.append(D(a, 'str', g.value('str')))
        root['targets'].append((a, 'str'))
    # condition anchors: never modified
    anchors = [D('fa', 'bool', True), D('fb', 'bool', False), D('ia', 'int', 5), D('sa', 'str', 'abc')]
    rng.shuffle(anchors)
    items += anchors[:rng.randint(2, 4)]
    items += g.items(0, root, False, 2, 5)
    if not any(it['k'] == 'blk' for it in items):
        items.append(g.block(0, root))
        if items[-1]['close'] == 'indent' and rng.random() < 0.7:
            items.append(g.node(root, False))
    items = g._fix(items)
    items = repair(items)
    if clean and indent_ok:
        bl = []
        _all_blocks(items, bl)
        rng.shuffle(bl)
        for b in bl[:6]:
            if rng.random() < 0.6:
                b['close'] = 'indent'
                try:
                    ok = g._fix(list(items)) == items and _lists_ok(items) and analyse(items).shape_free
                except Exception:
                    ok = False
                if not ok:
                    b['close'] = 'end'
    if expressions and rng.random() < 0.6:
        decorate(items, rng)
    return dict(t='prog', fam='random', items=items)


def _lists_ok(items):
    """no block directly after an indentation-closed block in any list"""
    prev = None
    for it in items:
        if prev is not None and prev['k'] == 'blk' and prev['close'] == 'indent' and it['k'] == 'blk':
            return False
        prev = it
        if it['k'] in ('grp', 'bad'):
            if not _lists_ok(it['items']):
                return False
        elif it['k'] == 'blk':
            for c in it['cl']:
                if not _lists_ok(c['items']):
                    return False
            if it.get('el') is not None and not _lists_ok(it['el']):
                return False
    return True


def repair(items):
    """rewrite modifications whose target may be absent in the real run, drop properties from redefinitions,
    make types consistent; iterate to a fixpoint"""
    for _ in range(4):
        A = analyse(items)
        flat = []
        _flat_nodes(items, flat)
        changed = False
        sure = {}
        seen_def = {}
        for w, it in zip(A.writers, flat):
            name = w['name']
            if it['k'] == 'mod':
                if name not in sure:
                    ty = it.get('ty') or 'int'
                    v = it['v']
                    n = it['n']
                    it.clear()
                    it.update(D(n, ty, v))
                    changed = True
            if it['k'] == 'def':
                if name in seen_def:
                    if it.get('p'):
                        it['p'] = None
                        changed = True
                    if seen_def[name] != it['ty']:
                        it['ty'] = seen_def[name]
                        it['v'] = _coerce(it['v'], it['ty'])
                        changed = True
                else:
                    seen_def[name] = it['ty']
                if w['taken'] and not w['drop'] and name not in sure:
                    sure[name] = it['ty']
            # nothing may modify a constant node
        consts = set(w['name'] for w, it in zip(A.writers, flat) if it['k'] == 'def' and it.get('p') == 'constant')
        firsts = set()
        for w, it in zip(A.writers, flat):
            if w['name'] in consts:
                if w['name'] in firsts:
                    # later writer of a constant node: rename it into a fresh node
                    it['n'] = it['n'] + 'r%d' % w['i']
                    if it['k'] == 'mod':
                        ty = it.get('ty') or 'int'
                        v, n = it['v'], it['n']
                        it.clear()
                        it.update(D(n, ty, v))
                    changed = True
                firsts.add(w['name'])
        if not changed:
            break
    return items


def _coerce(v, ty):
    if ty == 'int':
        return int(v) if not isinstance(v, str) else int(v[1:])
    if ty == 'float':
        return float(v) if not isinstance(v, str) else float(v[1:]) + 0.5
    if ty == 'str':
        return v if isinstance(v, str) else 's%d' % int(v)
    return bool(v)


def decorate(items, rng):
    """replace literal conditions by expressions over earlier, certainly-defined, untainted nodes with the same truth"""
    A = analyse(items)
    conds = []
    _all_conds(items, conds)
    kws = [e for e in A.events if e['ev'] == 'kw' and e['kw'] == 'case']
    assert len(kws) == len(conds)
    tainted = set(w['name'] for w in A.writers if w['drop'] or w['add'])
    all_names = set(w['name'] for w in A.writers)
    for e, c in zip(kws, conds):
        if rng.random() < 0.5:
            continue
        # environment at that line by the model, restricted to safe names
        avail = {}
        for w in A.writers:
            if w['i'] > e['i']:
                break
            if w['taken'] and w['name'] not in tainted:
                if w['kind'] == 'def' and w['name'] not in avail:
                    avail[w['name']] = [w['ty'], w['v']]
                elif w['name'] in avail:
                    avail[w['name']][1] = w['v']
        if not avail:
            continue
        want = bool(c['c']['v'])
        c['c'] = _make_expr(rng, avail, all_names, want)


def _atom(rng, avail, all_names, want):
    names = sorted(avail)
    for _ in range(20):
        n = rng.choice(names)
        ty, v = avail[n]
        r = rng.random()
        if r < 0.12:
            if want:
                return {'e': 'def', 'n': n}
            return {'e': 'def', 'n': 'undefined_node'}
        if ty == 'bool':
            if bool(v) == want:
                return {'e': 'ref', 'n': n}
            return {'e': 'not', 'a': {'e': 'ref', 'n': n}}
        if ty == 'int':
            op = rng.choice(['==', '!=', '<', '>', '<=', '>='])
            d = rng.randint(1, 7)
            cands = [v, v - d, v + d]
            rng.shuffle(cands)
            for c in cands:
                t = {'==': v == c, '!=': v != c, '<': v < c, '>': v > c, '<=': v <= c, '>=': v >= c}[op]
                if t == want:
                    return {'e': 'cmp', 'op': op, 'n': n, 'c': c}
        if ty == 'str':
            return {'e': 'cmp', 'op': '==', 'n': n, 'c': v if want else v + 'q'}
    return {'e': 'lit', 'v': want}


def _make_expr(rng, avail, all_names, want):
    r = rng.random()
    if r < 0.45:
        return _atom(rng, avail, all_names, want)
    other = rng.random() < 0.5
    if r < 0.75:
        # and
        if want:
            a, b = _atom(rng, avail, all_names, True), _atom(rng, avail, all_names, True)
        else:
            a, b = _atom(rng, avail, all_names, False), _atom(rng, avail, all_names, other)
            if rng.random() < 0.5:
                a, b = b, a
        x = {'e': 'and', 'a': a, 'b': b}
    else:
        if want:
            a, b = _atom(rng, avail, all_names, True), _atom(rng, avail, all_names, other)
            if rng.random() < 0.5:
                a, b = b, a
        else:
            a, b = _atom(rng, avail, all_names, False), _atom(rng, avail, all_names, False)
        x = {'e': 'or', 'a': a, 'b': b}
    if x['a']['e'] == 'lit' or x['b']['e'] == 'lit':
        return {'e': 'lit', 'v': want}
    return x


def _complement(c):
    import copy
    if c['e'] == 'cmp':
        return dict(c, op={'==': '!=', '!=': '==', '<': '>=', '>=': '<', '>': '<=', '<=': '>'}[c['op']])
    if c['e'] == 'not':
        return copy.deepcopy(c['a'])
    if c['e'] in ('ref', 'def'):
        return {'e': 'not', 'a': copy.deepcopy(c)}
    return LIT(True)


def gen_repeated(rng):
    """ONE condition text standing in several blocks of one program while the node it refers to changes in between (a plain
    modification, a modification made by the selected clause of the earlier block, a definition arriving between two
    definedness tests).  The condition is evaluated "at the place where the block stands": what an earlier block with the
    same text found is no answer for a later one.  All blocks are closed by @end (no known defective shape is involved)."""
    import copy
    kind = rng.choice(['int', 'int', 'bool', 'str', 'defined'])
    items, uid = [], [0]

    def nm(p):
        uid[0] += 1
        return '%s%d' % (p, uid[0])
    if kind == 'int':
        a = rng.randint(0, 9)
        b = a + rng.choice([-3, -1, 1, 2, 5])
        op = rng.choice(['==', '!=', '<', '>', '<=', '>='])
        cond = {'e': 'cmp', 'op': op, 'n': 'm', 'c': a + rng.choice([0, 0, 1, -1])}
        vals, ty = [a, b, a, b + 1], 'int'
    elif kind == 'bool':
        a = rng.random() < 0.5
        cond = rng.choice([{'e': 'ref', 'n': 'm'}, {'e': 'not', 'a': {'e': 'ref', 'n': 'm'}}])
        vals, ty = [a, not a, a, not a], 'bool'
    elif kind == 'str':
        cond = {'e': 'cmp', 'op': '==', 'n': 'm', 'c': 'abc'}
        vals, ty = rng.choice([['abc', 'abd', 'abc', 'x'], ['x', 'abc', 'y', 'abc']]), 'str'
    else:
        cond = rng.choice([{'e': 'def', 'n': 'm'}, {'e': 'not', 'a': {'e': 'def', 'n': 'm'}}])
        vals, ty = [None, 4, 5, 6], 'int'
    if rng.random() < 0.3:
        cond = {'e': rng.choice(['and', 'or']), 'a': cond, 'b': LIT(rng.random() < 0.5)}
    if rng.random() < 0.5:
        items.append(D(nm('a'), 'int', rng.randint(1, 9)))
    nblocks = rng.choice([2, 2, 3, 4])
    where = rng.choice(['between', 'between', 'in-selected-clause', 'in-else-or-first'])
    defined = False
    for k in range(nblocks):
        v = vals[k]
        change = None
        if v is not None:
            change = dict(M('m', v), ty=ty) if defined else D('m', ty, v)
            defined = True
        body = lambda: [D(nm('x'), 'int', rng.randint(1, 99))]
        if change is not None and (k == 0 or where == 'between'):
            items.append(change)
            change = None
        # where the change is made by a clause of THIS block it becomes visible to the next block only
        nxt = None
        if k + 1 < nblocks and where != 'between' and vals[k + 1] is not None and defined:
            nxt = dict(M('m', vals[k + 1]), ty=ty)
            vals[k + 1] = None if kind != 'defined' else None
        c1, c2 = body(), body()
        if nxt is not None:
            c1.append(copy.deepcopy(nxt))        # whichever clause is selected makes the change
            c2.append(copy.deepcopy(nxt))
        blk = B([(copy.deepcopy(cond), c1)], c2, 'end')
        shape = rng.choice(['plain', 'plain', 'nested-in-true', 'under-group', 'with-second-clause'])
        if shape == 'under-group' and nxt is not None:
            shape = 'plain'                       # a modification under a group would address another node (g.m)
        if shape == 'with-second-clause':
            c3 = body() + ([copy.deepcopy(nxt)] if nxt is not None else [])
            blk = B([(copy.deepcopy(cond), c1), (_complement(cond), c3)], c2, 'end')
        if shape == 'nested-in-true':
            blk = B([(LIT(True), [blk, D(nm('t'), 'int', 7)])], None, 'end')
        elif shape == 'under-group':
            blk = G(nm('g'), [blk])
        items.append(blk)
        if rng.random() < 0.4:
            items.append(D(nm('z'), 'int', rng.randint(1, 9)))
    return dict(t='prog', fam='repeated-condition', items=items, kind=kind, where=where)


def gen_mustfail(rng):
    """misplaced @else / @end inserted into a random program that uses explicit @end only"""
    for _ in range(50):
        case = gen_random(rng, maxdepth=2, closes=('end',), expressions=False, clean=True, indent_ok=False)
        items = case['items']
        A = analyse(items)
        if A.tainted or A.model_invalid:
            continue
        kw = rng.choice(['else', 'end'])
        nm = 'q%d' % rng.randint(100, 999)
        body = [D(nm, 'int', rng.randint(1000, 9999))] if kw == 'else' else []
        idx_blocks = [i for i, it in enumerate(items) if it['k'] == 'blk']
        first_any = min([i for i, it in enumerate(items) if _has_block(it)] or [len(items)])
        mode = rng.choice(['start', 'after-end', 'later', 'inside-clause', 'inside-clause'])
        if mode == 'inside-clause' and idx_blocks:
            # inside the body of a clause (selected or not, any depth) at a point where no block of that body is open:
            # at its start or after plain node lines
            cbody = rng.choice(_clause_bodies(items))
            pos = 0
            while pos < len(cbody) and cbody[pos]['k'] in ('def', 'mod') and rng.random() < 0.6:
                pos += 1
            cbody.insert(pos, BAD(kw, [D(nm, 'int', rng.randint(1000, 9999))] if kw == 'else' else [], 2))
            B2 = analyse(items)
            if B2.model_invalid or B2.mustfail is None:
                continue
            return dict(t='prog', fam='mustfail', items=items)
        if mode == 'start' or not idx_blocks:
            pos = rng.randint(0, first_any)
        elif mode == 'after-end':
            pos = rng.choice(idx_blocks) + 1
        else:
            i = rng.choice(idx_blocks)
            # only positions where every item since the block is a plain node
            pos = i + 1
            while pos < len(items) and items[pos]['k'] in ('def', 'mod'):
                pos += 1
            if pos == i + 1:
                items.insert(pos, D('m%d' % rng.randint(100, 999), 'int', 77))
                pos += 1
        new = list(items)
        new.insert(pos, BAD(kw, body, rng.choice([2, 2, 4])))
        if kw == 'else' and ((pos + 1 < len(new) and new[pos + 1]['k'] != 'def') or rng.random() < 0.3):
            new.insert(pos + 1, BAD('end'))      # '@end' of the misplaced '@else'
        B2 = analyse(new)
        if B2.model_invalid:
            continue
        return dict(t='prog', fam='mustfail', items=new)
    return None


def _clause_bodies(items, out=None):
    out = [] if out is None else out
    for it in items:
        if it['k'] == 'blk':
            for c in it['cl']:
                out.append(c['items'])
                _clause_bodies(c['items'], out)
            if it.get('el') is not None:
                out.append(it['el'])
                _clause_bodies(it['el'], out)
        elif it['k'] == 'grp':
            _clause_bodies(it['items'], out)
    return out


def _has_block(it):
    if it['k'] == 'blk':
        return True
    if it['k'] == 'grp':
        return any(_has_block(x) for x in it['items'])
    return False


# ------------------------------------------------------------------------------------------------ step budget

class StepBudgetExceeded(BaseException):
    pass


class StepBudget:
    """sys.monitoring counter of PY_START|JUMP events around a call; raises StepBudgetExceeded at the limit.
    limit = max(minimum, factor * largest count of an accepted call seen so far)"""

    def __init__(self, tool=3, minimum=5_000_000, factor=200, name='vt-steps'):
        import sys
        self.mon = sys.monitoring
        self.tool = tool
        self.minimum, self.factor = minimum, factor
        self.count = 0
        self.max_ok = 0
        self.limit = minimum
        try:
            self.mon.use_tool_id(tool, name)
        except ValueError:
            self.mon.free_tool_id(tool)
            self.mon.use_tool_id(tool, name)
        E = self.mon.events
        self.mask = E.PY_START | E.JUMP
        self.mon.register_callback(tool, E.PY_START, self._cb2)
        self.mon.register_callback(tool, E.JUMP, self._cb3)

    def _cb2(self, code, off):
        self.count += 1
        if self.count > self.limit:
            raise StepBudgetExceeded(self.count)

    def _cb3(self, code, off, dst):
        self.count += 1
        if self.count > self.limit:
            raise StepBudgetExceeded(self.count)

    def run(self, fn):
        self.count = 0
        self.mon.set_events(self.tool, self.mask)
        try:
            return fn()
        finally:
            self.mon.set_events(self.tool, 0)

    def accepted(self):
        if self.count > self.max_ok:
            self.max_ok = self.count
            self.limit = max(self.minimum, self.factor * self.max_ok)
