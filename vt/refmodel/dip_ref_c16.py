"""C16 reference model: constraint programs (options, !condition, !format, dimension bounds, declarations),
an independent evaluator, and the reusable post-condition monitor for DIP.parse.

Program = {'t':'c16','nodes':[node...]}, node =
    {'name', 'ty': 'int|float|str|bool', 'unit': None|sym, 'dims': None|[[lo,hi]...],
     'value': None (declaration) | literal, 'vunit': unit of that literal (None = node unit),
     'props': [ {'p':'optline','v':lit,'u':unit|None} | {'p':'optlist','v':[lit..],'u':unit|None}
              | {'p':'cond','c':tree} | {'p':'format','f':regex} ],
     'mods': [{'v': literal, 'u': unit|None}...]}
numeric literals are decimal strings (exact), string literals python str, booleans bool, arrays nested lists.

condition tree: {'e':'cmp','op':..,'c':lit,'u':unit|None,'flip':bool} | {'e':'self'} | {'e':'not','a':t}
                | {'e':'and'|'or','a':t,'b':t}

Units: a small hard-coded table of exact linear factors; nothing is imported from the repository.
Tolerance rule of the evaluator (three-valued): two numbers are *equal* when they differ by <= 1e-8 relative,
*different* when they differ by >= 1e-4 relative, otherwise the comparison is undecided (None) and no verdict is
derived from it (the real code uses rtol 1e-6; the generator produces nothing inside the band).
"""
import re
from fractions import Fraction

KEY_COND_IGNORED = 'C16-condition-ignored-for-bool-and-str'
KEY_EQ_BARE_BOOL = 'C16-equality-condition-returns-bare-bool'
KEY_INT_TRUNC = 'C16-int-condition-constant-cast-to-int'
KEY_ARRAY_MOD = 'C16-array-modification-crashes'

UNITS = {   # symbol -> (dimension, exact factor to the dimension's reference unit)
    'mm': ('L', Fraction(1, 1000)), 'cm': ('L', Fraction(1, 100)), 'm': ('L', Fraction(1)), 'km': ('L', Fraction(1000)),
    'g': ('M', Fraction(1)), 'kg': ('M', Fraction(1000)),
    's': ('T', Fraction(1)), 'ms': ('T', Fraction(1, 1000)),
}
EQ_TOL = Fraction(1, 10 ** 8)
NE_TOL = Fraction(1, 10 ** 4)


def frac(lit):
    """exact value of a numeric literal (decimal string, int, float)"""
    if isinstance(lit, bool):
        raise ValueError('bool is not a number')
    if isinstance(lit, (int, Fraction)):
        return Fraction(lit)
    if isinstance(lit, float):
        return Fraction(lit)
    return Fraction(str(lit).strip())


def dec(fr):
    """finite decimal rendering of a Fraction whose denominator is 2^a 5^b (plain, no exponent)"""
    fr = Fraction(fr)
    sign = '-' if fr < 0 else ''
    fr = abs(fr)
    n, d = fr.numerator, fr.denominator
    k = 0
    dd = d
    while dd % 2 == 0:
        dd //= 2
        k += 1
    j = 0
    while dd % 5 == 0:
        dd //= 5
        j += 1
    if dd != 1:
        raise ValueError('not a finite decimal: %s' % fr)
    p = max(k, j)
    scaled = n * (10 ** p) // d
    s = str(scaled)
    if p == 0:
        return sign + s
    s = s.rjust(p + 1, '0')
    out = s[:-p] + '.' + s[-p:]
    out = out.rstrip('0').rstrip('.')
    return sign + out


def convert(value, u_from, u_to):
    """value [u_from] expressed in u_to; None if not convertible with the table"""
    if u_from == u_to or u_from is None or u_to is None:
        return value if (u_from == u_to) else None
    if u_from not in UNITS or u_to not in UNITS or UNITS[u_from][0] != UNITS[u_to][0]:
        return None
    return value * UNITS[u_from][1] / UNITS[u_to][1]


def num_eq(a, b):
    """True / False / None (undecided)"""
    if a == b:
        return True
    m = max(abs(a), abs(b))
    r = abs(a - b) / m
    if r <= EQ_TOL:
        return True
    if r >= NE_TOL:
        return False
    return None


def num_cmp(op, a, b, strict_exact=True):
    """three-valued comparison.  Non-strict operators and == include the tolerance; strict ones and != are exact
    comparisons and undecided when the operands are within the tolerance band but not identical."""
    e = num_eq(a, b)
    if op == '==':
        return e
    if op == '!=':
        if a == b:
            return False
        return True if e is False else None
    if op in ('<=', '>='):
        if e is True:
            return True
        if e is None:
            return None
        return a < b if op == '<=' else a > b
    if op in ('<', '>'):
        if a == b:
            return False
        if e is False:
            return a < b if op == '<' else a > b
        return None
    raise ValueError(op)


def and3(a, b):
    if a is False or b is False:
        return False
    if a is None or b is None:
        return None
    return True


def or3(a, b):
    if a is True or b is True:
        return True
    if a is None or b is None:
        return None
    return False


def not3(a):
    return None if a is None else (not a)


# ------------------------------------------------------------------------------------------------ rendering

def lit_text(ty, v):
    if isinstance(v, list):
        return '[' + ','.join(lit_text(ty, x) for x in v) + ']'
    if ty == 'bool':
        return 'true' if v else 'false'
    if ty == 'str':
        return '"%s"' % v
    return str(v)


def scalar_text(ty, v):
    if ty == 'str':
        return "'%s'" % v
    return lit_text(ty, v)


def cond_text(c, top=True):
    e = c['e']
    if e == 'self':
        return '{?}'
    if e == 'not':
        inner = cond_text(c['a'], False)
        if c['a']['e'] == 'self':
            return '~' + inner
        return '~' + (inner if inner.startswith('(') else '(' + inner + ')')
    if e == 'cmp':
        const = c['c']
        if isinstance(const, bool):
            k = 'true' if const else 'false'
        elif c.get('str'):
            k = "'%s'" % const
        else:
            k = str(const) + ((' ' + c['u']) if c.get('u') else '')
        s = ('%s %s {?}' % (k, c['op'])) if c.get('flip') else ('{?} %s %s' % (c['op'], k))
        return s
    if e in ('and', 'or'):
        s = '%s %s %s' % (cond_text(c['a'], False), '&&' if e == 'and' else '||', cond_text(c['b'], False))
        return s if top else '(' + s + ')'
    raise ValueError(e)


def render(prog):
    lines = []
    for nd in prog['nodes']:
        ty = nd['ty']
        head = nd['name'] + ' ' + ty
        if nd.get('dims'):
            head += '[' + ','.join(_dim_text(d) for d in nd['dims']) + ']'
        if nd['value'] is not None:
            head += ' = ' + (lit_text(ty, nd['value']) if nd.get('dims') else scalar_text(ty, nd['value']))
            u = nd.get('vunit') or nd.get('unit')
        else:
            u = nd.get('unit')
        if u:
            head += ' ' + u
        lines.append(head)
        for p in nd.get('props', []):
            if p['p'] == 'optline':
                lines.append('  = ' + scalar_text(ty, p['v']) + ((' ' + p['u']) if p.get('u') else ''))
            elif p['p'] == 'optlist':
                lines.append('  !options ' + lit_text(ty, p['v']) + ((' ' + p['u']) if p.get('u') else ''))
            elif p['p'] == 'cond':
                lines.append('  !condition ("%s")' % cond_text(p['c']))
            elif p['p'] == 'format':
                lines.append("  !format '%s'" % p['f'])
    for nd in prog['nodes']:
        for m in nd.get('mods', []):
            ty = nd['ty']
            lines.append(nd['name'] + ' = ' + (lit_text(ty, m['v']) if nd.get('dims') else scalar_text(ty, m['v'])) +
                         ((' ' + m['u']) if m.get('u') else ''))
    # trailing comments (without quote characters) on about a quarter of the property lines: they change nothing
    import zlib
    for k, ln in enumerate(lines):
        if ln.startswith('  ') and '#' not in ln and zlib.crc32(ln.encode()) % 4 == 0:
            lines[k] = ln + '   # note %d' % k
    return '\n'.join(lines)


def _dim_text(d):
    lo, hi = d
    if lo is not None and lo == hi:
        return str(lo)
    return '%s:%s' % ('' if lo is None else lo, '' if hi is None else hi)


# ------------------------------------------------------------------------------------------------ evaluator

def final_value(nd):
    """(value, unit) of the node after its last assignment, in the node's unit; value None if never assigned"""
    v, u = nd['value'], nd.get('vunit') or nd.get('unit')
    for m in nd.get('mods', []):
        v, u = m['v'], m.get('u') or nd.get('unit')
    if v is None:
        return None
    if nd['ty'] in ('int', 'float') and not nd.get('dims'):
        x = frac(v)
        if nd.get('unit') and u != nd['unit']:
            x = convert(x, u, nd['unit'])
        return x
    return v


def eval_cond(c, ty, val, unit, trunc=False):
    """three-valued truth of a condition tree for a node of type ty with final value val [unit].
    trunc=True is the twin of the recorded defect: constants are cast to int after conversion (int nodes)."""
    e = c['e']
    if e == 'self':
        return bool(val) if ty == 'bool' else None
    if e == 'not':
        return not3(eval_cond(c['a'], ty, val, unit, trunc))
    if e == 'and':
        return and3(eval_cond(c['a'], ty, val, unit, trunc), eval_cond(c['b'], ty, val, unit, trunc))
    if e == 'or':
        return or3(eval_cond(c['a'], ty, val, unit, trunc), eval_cond(c['b'], ty, val, unit, trunc))
    if e == 'cmp':
        op = c['op']
        if ty in ('bool', 'str'):
            if op == '==':
                return val == c['c']
            if op == '!=':
                return val != c['c']
            return None
        k = frac(c['c'])
        ku = c.get('u')
        converted = False
        if (ku or None) != (unit or None):
            if not ku or not unit:
                return None                      # mixing a plain number with a dimensional value: not judged
            k = convert(k, ku, unit)
            converted = True
            if k is None:
                return None
        if trunc:
            k = _int_cast(k, converted and trunc == 'low')
        a, b = (k, val) if c.get('flip') else (val, k)
        return num_cmp(op, a, b)
    raise ValueError(e)


def _int_cast(k, noise_below):
    """twin of int(float): truncation towards zero; noise_below: a converted constant that is mathematically integral
    may arrive as 116.99999999999999 and is then cut to the next integer towards zero"""
    if noise_below and k.denominator == 1 and k != 0:
        return k - 1 if k > 0 else k + 1
    return Fraction(int(k))


def twin_truths(c, ty, val, unit):
    """truth values the recorded int-cast mechanism can produce for this condition"""
    return {eval_cond(c, ty, val, unit, trunc=True), eval_cond(c, ty, val, unit, trunc='low')}


def shape_of(v):
    sh = []
    while isinstance(v, list):
        sh.append(len(v))
        v = v[0] if v else None
    return sh


def check_node(nd):
    """list of (kind, truth) for every constraint of the node: truth True (satisfied) / False (violated) / None"""
    out = []
    ty = nd['ty']
    val = final_value(nd)
    if val is None:
        out.append(('defined', False))
        return out
    out.append(('defined', True))
    unit = nd.get('unit')
    if nd.get('dims'):
        sh = shape_of(val)
        ok = len(sh) >= len(nd['dims'])
        if ok:
            for s, (lo, hi) in zip(sh, nd['dims']):
                if lo is not None and s < lo:
                    ok = False
                if hi is not None and s > hi:
                    ok = False
        out.append(('dimension', ok))
        return out
    opts = []
    for p in nd.get('props', []):
        if p['p'] == 'optline':
            opts.append((p['v'], p.get('u')))
        elif p['p'] == 'optlist':
            opts += [(v, p.get('u')) for v in p['v']]
    if opts:
        res = False
        for v, u in opts:
            if ty == 'str':
                r = (v == val)
            else:
                x = frac(v)
                if u and unit and u != unit:
                    x = convert(x, u, unit)
                elif u and not unit:
                    x = None
                r = None if x is None else num_eq(x, val)
            res = or3(res, r)
        out.append(('options', res))
    for p in nd.get('props', []):
        if p['p'] == 'cond':
            out.append(('condition', eval_cond(p['c'], ty, val, unit)))
        elif p['p'] == 'format':
            out.append(('format', format_matches(p['f'], val)))
    return out


def format_matches(fmt, value):
    """anchored patterns: whole-string match; other patterns: match at the start (the weakest reading)"""
    try:
        if fmt.startswith('^') and fmt.endswith('$') and not fmt.endswith('\\$'):
            return re.fullmatch(fmt[1:-1], value) is not None
        return re.match(fmt, value) is not None
    except re.error:
        return None


def verdict(prog):
    """('accept'|'reject'|'undecided', [(node, kind)...violated], all checks)"""
    bad, und, allc = [], [], []
    for nd in prog['nodes']:
        for kind, t in check_node(nd):
            allc.append((nd['name'], kind, t))
            if t is False:
                bad.append((nd['name'], kind))
            elif t is None:
                und.append((nd['name'], kind))
    if bad:
        return 'reject', bad, allc
    if und:
        return 'undecided', und, allc
    return 'accept', [], allc


# ------------------------------------------------------------------------------------------------ generator

_DEC = ['0.001', '0.002', '0.005', '0.01', '0.05', '0.1', '0.25', '0.5']


def _rand_value(rng, ty):
    if ty == 'int':
        return rng.randint(2, 400)
    mant = rng.choice([rng.randint(1, 9), rng.randint(10, 999), rng.randint(1000, 9999)])
    exp = rng.choice([-3, -2, -1, 0, 0, 0, 1, 2])
    v = Fraction(mant) * Fraction(10) ** exp
    if v < Fraction(1, 1000):
        v = Fraction(1, 1000) * mant
    return v


def _other_unit(rng, unit, p=0.6):
    if not unit or rng.random() > p:
        return unit
    dim = UNITS[unit][0]
    return rng.choice([u for u in UNITS if UNITS[u][0] == dim])


def _place(rng, V, how, ty):
    """boundary value relative to the final value V (Fractions), in the node's unit"""
    if how == 'on':
        return V
    if how == 'near':
        return V * (1 + rng.choice([-1, 1]) * Fraction(1, 10 ** 9) * rng.choice([1, Fraction(1, 2), Fraction(1, 10)]))
    d = frac(rng.choice(_DEC))
    if ty == 'int':
        k = rng.choice([1, 1, 2, 5, 50])
        return V + (k if how == 'above' else -k)
    return V * (1 + d) if how == 'above' else V * (1 - d)


def _lit_in(x, unit_node, u, ty):
    """literal of value x [node unit] expressed in unit u"""
    if unit_node and u and u != unit_node:
        x = x * UNITS[unit_node][1] / UNITS[u][1]
    if ty == 'int':
        if x.denominator != 1:
            return None
        return str(int(x))
    return dec(x)


def gen_numeric(rng, name, classes, psat=0.55):
    ty = rng.choice(['float', 'float', 'int'])
    unit = rng.choice([None, None] + list(UNITS))
    V = Fraction(_rand_value(rng, ty))
    nd = dict(name=name, ty=ty, unit=unit, dims=None, value=None, vunit=None, props=[], mods=[])
    # how the final value is reached
    route = rng.choice(['def', 'def', 'decl+mod', 'def+mod', 'def+mod+mod'])
    fu = unit                      # unit of the last literal
    if route == 'def':
        nd['value'] = _lit_in(V, unit, unit, ty)
    else:
        if route == 'decl+mod':
            classes.add('declared-then-assigned')
        else:
            other = _place(rng, V, rng.choice(['above', 'below']), ty)
            nd['value'] = _lit_in(other, unit, unit, ty)
            classes.add('modified')
        nmods = 2 if route == 'def+mod+mod' else 1
        for i in range(nmods):
            last = i == nmods - 1
            x = V if last else _place(rng, V, rng.choice(['above', 'below']), ty)
            u = _other_unit(rng, unit) if ty == 'float' else unit
            lit = _lit_in(x, unit, u, ty)
            if lit is None:
                u, lit = unit, _lit_in(x, unit, unit, ty)
            nd['mods'].append({'v': lit, 'u': u if (u != unit or rng.random() < 0.5) else None})
            if last:
                fu = u
        if fu != unit:
            classes.add('final-value-in-other-unit')
    same_unit_final = (fu == unit)
    kinds = rng.choice([['options'], ['cond'], ['options', 'cond'], ['cond'], ['options']])
    if 'options' in kinds:
        sat = rng.random() < psat
        n = rng.randint(1, 4)
        vals = []
        for i in range(n):
            how = rng.choice(['above', 'below'])
            vals.append((_place(rng, V, how, ty), 'off'))
        if sat:
            how = rng.choice(['on', 'on', 'near']) if ty == 'float' else 'on'
            vals[rng.randrange(n)] = (_place(rng, V, how, ty), how)
            classes.add('option-' + how)
        else:
            classes.add('option-all-off')
        # split into per-line options and list clauses
        i = 0
        while i < len(vals):
            if rng.random() < 0.5:
                x, _ = vals[i]
                u = _other_unit(rng, unit)
                lit = _lit_in(x, unit, u, ty)
                if lit is None:
                    u, lit = unit, _lit_in(x, unit, unit, ty)
                uu = u if (u != unit or rng.random() < 0.6) else None
                nd['props'].append({'p': 'optline', 'v': lit, 'u': uu})
                classes.add('option-per-line')
                if uu and uu != unit:
                    classes.add('option-in-other-unit')
                i += 1
            else:
                k = rng.randint(1, len(vals) - i)
                u = _other_unit(rng, unit)
                lits = [_lit_in(x, unit, u, ty) for x, _ in vals[i:i + k]]
                if any(l is None for l in lits):
                    u = unit
                    lits = [_lit_in(x, unit, unit, ty) for x, _ in vals[i:i + k]]
                uu = u if (u != unit or rng.random() < 0.6) else None
                nd['props'].append({'p': 'optlist', 'v': lits, 'u': uu})
                classes.add('option-list-form')
                if uu and uu != unit:
                    classes.add('option-in-other-unit')
                i += k
    if 'cond' in kinds:
        nd['props'].append({'p': 'cond', 'c': _num_cond(rng, V, ty, unit, same_unit_final, classes)})
    rng.shuffle(nd['props'])
    return nd


def _num_cmp(rng, V, ty, unit, same_unit_final, classes, allow_eq=True):
    ops = ['<', '>', '<=', '>=', '!=', '=='] if allow_eq else ['<', '>', '<=', '>=', '!=']
    op = rng.choice(ops)
    hows = ['above', 'below', 'on']
    if op in ('<=', '>=', '==') and ty == 'float':
        hows.append('near')
    how = rng.choice(hows)
    u = _other_unit(rng, unit, 0.5)
    if how == 'on' and op in ('<', '>', '!='):
        if not same_unit_final:
            how = rng.choice(['above', 'below'])
        u = unit                            # strict operators on the boundary: identical literal, identical unit
    b = _place(rng, V, how, ty)
    if ty == 'int' and how != 'on' and rng.random() < 0.2:
        # constant that is not integral in the node's unit (the property speaks about the value of the expression)
        b = V + (Fraction(1, 2) if how == 'above' else -Fraction(1, 2))
        classes.add('int-node-fractional-constant')
        lit = _lit_in(b, unit, u, 'int') or _lit_in(b, unit, unit, 'float')
        if _lit_in(b, unit, u, 'int') is None:
            u = unit
    else:
        lit = _lit_in(b, unit, u, 'float' if ty == 'float' else 'int')
        if lit is None:
            u = unit
            lit = _lit_in(b, unit, u, 'int')
    classes.add('cond-%s-%s' % ({'<': 'lt', '>': 'gt', '<=': 'le', '>=': 'ge', '!=': 'ne', '==': 'eq'}[op], how))
    if u != unit:
        classes.add('condition-constant-in-other-unit')
    return {'e': 'cmp', 'op': op, 'c': lit, 'u': u, 'flip': rng.random() < 0.25}


def _num_cond(rng, V, ty, unit, same_unit_final, classes):
    r = rng.random()
    if r < 0.45:
        c = _num_cmp(rng, V, ty, unit, same_unit_final, classes)
        if c['op'] == '==':
            classes.add('condition-toplevel-equality')
        return c
    if r < 0.55:
        classes.add('condition-negation')
        return {'e': 'not', 'a': _num_cmp(rng, V, ty, unit, same_unit_final, classes, allow_eq=False)}
    a = _num_cmp(rng, V, ty, unit, same_unit_final, classes)
    b = _num_cmp(rng, V, ty, unit, same_unit_final, classes)
    classes.add('condition-compound')
    return {'e': rng.choice(['and', 'or']), 'a': a, 'b': b}


_WORDS = ['abc', 'dog', 'cat', 'Horse', 'x1', 'alpha', 'beta9', 'Zed', 'run-7', 'a_b']


def gen_string(rng, name, classes, psat=0.55):
    nd = dict(name=name, ty='str', unit=None, dims=None, value=None, vunit=None, props=[], mods=[])
    kinds = rng.choice([['options'], ['format'], ['cond'], ['options', 'format'], ['format', 'cond'], ['options', 'cond']])
    fmt = None
    if 'format' in kinds:
        fmt, good, bad = _gen_format(rng)
        sat = rng.random() < psat
        V = good if sat else bad
        if kinds == ['format'] and rng.random() < 0.2:
            # the empty string is a value like any other: it satisfies the format only if the pattern admits it
            V = ''
            sat = format_matches(fmt, '') is True
            classes.add('format-on-empty-string')
            classes.add('format-on-empty-string-' + ('match' if sat else 'violated'))
        classes.add('format-match' if sat else 'format-violated')
        nd['props'].append({'p': 'format', 'f': fmt})
    else:
        V = rng.choice(_WORDS) + rng.choice(['', '', '2', 'q'])
    if 'options' in kinds:
        sat = rng.random() < psat
        others = [w for w in _WORDS if w != V]
        rng.shuffle(others)
        near = [V + 'x', V[:-1] if len(V) > 1 else V + 'y', V.swapcase(), '_' + V]
        near = [w for w in near if w != V and '"' not in w]
        vals = others[:rng.randint(1, 3)] + ([rng.choice(near)] if rng.random() < 0.6 else [])
        if sat:
            vals.insert(rng.randrange(len(vals) + 1), V)
            classes.add('str-option-member')
        else:
            classes.add('str-option-not-member')
        if rng.random() < 0.5:
            for v in vals:
                nd['props'].append({'p': 'optline', 'v': v, 'u': None})
            classes.add('option-per-line')
        else:
            nd['props'].append({'p': 'optlist', 'v': vals, 'u': None})
            classes.add('option-list-form')
    if 'cond' in kinds:
        sat = rng.random() < 0.5
        op = rng.choice(['==', '==', '!='])
        same = (op == '==') == sat
        c = V if same else rng.choice([V + 'z', V[:-1] or 'q', V.swapcase() if V.swapcase() != V else V + 'Z'])
        nd['props'].append({'p': 'cond', 'c': {'e': 'cmp', 'op': op, 'c': c, 'str': True, 'u': None, 'flip': False}})
        classes.add('str-condition-' + ('satisfied' if sat else 'violated'))
    route = rng.choice(['def', 'def', 'decl+mod', 'def+mod'])
    if route == 'def':
        nd['value'] = V
    elif route == 'decl+mod':
        nd['mods'].append({'v': V, 'u': None})
        classes.add('declared-then-assigned')
    else:
        nd['value'] = rng.choice([w for w in _WORDS if w != V])
        nd['mods'].append({'v': V, 'u': None})
        classes.add('modified')
    rng.shuffle(nd['props'])
    return nd


def _gen_format(rng):
    """anchored regular expression with one matching and one non-matching value"""
    for _ in range(50):
        parts, good = [], ''
        for _ in range(rng.randint(1, 3)):
            kind = rng.choice(['lit', 'class', 'class', 'digit', 'alt'])
            if kind == 'lit':
                w = rng.choice(['ab', 'x', 'id', 'v', 'run', 'K'])
                parts.append(w)
                good += w
                continue
            if kind == 'alt':
                a, b = rng.sample(['ab', 'cd', 'xy', 'on', 'off', 'A'], 2)
                parts.append('(%s|%s)' % (a, b))
                good += rng.choice([a, b])
                continue
            if kind == 'digit':
                cls, chars = rng.choice([('[0-9]', '0123456789'), ('\\d', '0123456789')])
            else:
                cls, chars = rng.choice([('[a-z]', 'abcdefghijklmnopqrstuvwxyz'), ('[A-Z]', 'ABCDEFGHIJKLMNOPQRSTUVWXYZ'),
                                         ('[a-c]', 'abc'), ('[a-zA-Z]', 'abcXYZ'), ('[a-z0-9_]', 'abc019_')])
            q = rng.choice(['', '+', '{2}', '{1,3}', '*', '?'])
            n = {'': 1, '+': rng.randint(1, 4), '{2}': 2, '{1,3}': rng.randint(1, 3), '*': rng.randint(0, 3),
                 '?': rng.randint(0, 1)}[q]
            parts.append(cls + q)
            good += ''.join(rng.choice(chars) for _ in range(n))
        inner = ''.join(parts)
        if not good or re.fullmatch(inner, good) is None:
            continue
        # violating value: whole-string mismatch; prefers values whose *prefix* still matches
        cands = [good + '-', good + good[-1] + '-', '-' + good, good[:-1] + '-', good + ' 1', good[:-1]]
        rng.shuffle(cands)
        cands.sort(key=lambda c: 0 if c.startswith(good) else 1)
        if rng.random() < 0.4:
            rng.shuffle(cands)
        for bad in cands:
            if bad and bad.strip() == bad and re.fullmatch(inner, bad) is None:
                return '^' + inner + '$', good, bad
    return '^[a-z]+$', 'abc', 'abc1'


def gen_bool(rng, name, classes, psat=0.55):
    form = rng.choice(['self', 'notself', 'eqtrue', 'eqfalse'])
    V = (form in ('self', 'eqtrue')) == (rng.random() < psat)
    c = {'self': {'e': 'self'}, 'notself': {'e': 'not', 'a': {'e': 'self'}},
         'eqtrue': {'e': 'cmp', 'op': '==', 'c': True, 'u': None, 'flip': False},
         'eqfalse': {'e': 'cmp', 'op': '==', 'c': False, 'u': None, 'flip': False}}[form]
    nd = dict(name=name, ty='bool', unit=None, dims=None, value=V, vunit=None, props=[{'p': 'cond', 'c': c}], mods=[])
    if rng.random() < 0.3:
        nd['value'] = not V
        nd['mods'].append({'v': V, 'u': None})
        classes.add('modified')
    t = eval_cond(c, 'bool', V, None)
    classes.add('bool-condition-' + ('satisfied' if t else 'violated'))
    return nd


def gen_array(rng, name, classes, psat=0.55):
    ty = rng.choice(['int', 'float', 'str', 'bool'])
    ndim = rng.choice([1, 1, 1, 2])
    dims, shape = [], []
    sat = rng.random() < psat
    viol = None if sat else rng.randrange(ndim)
    for d in range(ndim):
        form = rng.choice(['exact', 'lo', 'hi', 'both', 'free'])
        lo = rng.randint(1, 3)
        hi = lo + rng.randint(0, 2)
        if form == 'exact':
            b = [lo, lo]
        elif form == 'lo':
            b = [lo, None]
        elif form == 'hi':
            b = [None, hi]
        elif form == 'both':
            b = [lo, hi]
        else:
            b = [None, None]
        if viol == d and form == 'free':
            b = [lo, hi]
        dims.append(b)
        l, h = b
        if viol == d:
            choices = []
            if l is not None and l - 1 >= 1:
                choices.append(l - 1)
            if h is not None:
                choices.append(h + 1)
            if not choices:
                b[1] = (l or 1) + 1
                choices = [b[1] + 1]
            n = rng.choice(choices)
            classes.add('dimension-just-outside')
        else:
            cands = [x for x in [l, h, (l or 1), (h or (l or 1) + 1)] if x is not None]
            n = rng.choice(cands)
            if (l is not None and n == l) or (h is not None and n == h):
                classes.add('dimension-on-bound')
        shape.append(n)

    cnt = [0]

    def fill(level):
        if level == len(shape):
            cnt[0] += 1
            if ty == 'int':
                return cnt[0]
            if ty == 'float':
                return dec(Fraction(cnt[0] * 5, 4))
            if ty == 'str':
                return 'w%d' % cnt[0]
            return cnt[0] % 2 == 1
        return [fill(level + 1) for _ in range(shape[level])]
    val = fill(0)
    unit = rng.choice([None, 'kg', 'cm']) if ty in ('int', 'float') else None
    nd = dict(name=name, ty=ty, unit=unit, dims=dims, value=val, vunit=None, props=[], mods=[])
    classes.add('dimension-bounds')
    if ndim == 2:
        classes.add('dimension-2d')
    r = rng.random()
    total = 1
    for s in shape:
        total *= s
    if r < 0.12:
        nd['value'] = None
        nd['mods'].append({'v': val, 'u': None})
        classes.add('array-declared-then-assigned')
    elif r < 0.2:
        nd['mods'].append({'v': val, 'u': None})
        nd['value'] = fill(0)
        classes.add('array-modified')
    return nd


def gen_declared(rng, name, classes, psat=0.55):
    ty = rng.choice(['int', 'float', 'str', 'bool'])
    unit = rng.choice([None, 'cm', 's']) if ty in ('int', 'float') else None
    nd = dict(name=name, ty=ty, unit=unit, dims=None, value=None, vunit=None, props=[], mods=[])
    if rng.random() > psat:
        classes.add('declared-without-value')
        if ty in ('int', 'float') and rng.random() < 0.4:
            nd['props'].append({'p': 'optline', 'v': '3', 'u': None})
            nd['props'].append({'p': 'optline', 'v': '4', 'u': None})
    else:
        v = {'int': 7, 'float': '2.5', 'str': 'abc', 'bool': True}[ty]
        nd['mods'].append({'v': v, 'u': None})
        classes.add('declared-then-assigned')
    return nd


def gen_program(rng):
    classes = set()
    n = rng.choice([1, 1, 1, 2, 2, 3])
    nodes = []
    for i in range(n):
        kind = rng.choice(['num', 'num', 'num', 'num', 'str', 'str', 'bool', 'array', 'declared'])
        name = 'p%d' % i
        nodes.append({'num': gen_numeric, 'str': gen_string, 'bool': gen_bool, 'array': gen_array,
                      'declared': gen_declared}[kind](rng, name, classes, 0.5 if n == 1 else 0.78))
    return {'t': 'c16', 'nodes': nodes, 'gen_classes': sorted(classes)}


# ------------------------------------------------------------------------------------------------ post-condition

class _Tok:
    def __init__(self, text):
        self.toks = self._lex(text)
        self.i = 0

    @staticmethod
    def _lex(s):
        out, i, n = [], 0, len(s)
        while i < n:
            ch = s[i]
            if ch.isspace():
                i += 1
            elif ch == '{':
                j = s.index('}', i)
                out.append(('ref', s[i + 1:j]))
                i = j + 1
            elif ch in '"\'':
                j = s.index(ch, i + 1)
                out.append(('str', s[i + 1:j]))
                i = j + 1
            elif s[i:i + 2] in ('||', '&&', '==', '!=', '<=', '>='):
                out.append(('op', s[i:i + 2]))
                i += 2
            elif ch in '<>~!()':
                out.append(('op', ch))
                i += 1
            else:
                j = i
                while j < n and not s[j].isspace() and s[j] not in '()|&=<>!~{':
                    j += 1
                if j == i:
                    raise ValueError('cannot tokenise ' + s[i:])
                out.append(('word', s[i:j]))
                i = j
        return out

    def peek(self):
        return self.toks[self.i] if self.i < len(self.toks) else (None, None)

    def next(self):
        t = self.peek()
        self.i += 1
        return t


_NUM = re.compile(r'^[+-]?(\d+\.?\d*|\.\d+)([eE][+-]?\d+)?$')


def eval_condition_text(expr, self_value):
    """three-valued truth of a DIP logical expression whose only reference is {?}.
    self_value: ('num', Fraction, unit) | ('bool', b) | ('str', s).  None when the expression is outside the
    small grammar (other references, functions, arrays) or the comparison is undecided."""
    try:
        tk = _Tok(expr)
        v = _p_or(tk, self_value)
        if tk.peek()[0] is not None:
            return None
        return v if isinstance(v, bool) or v is None else _truth(v)
    except Exception:
        return None


class _Undecided(Exception):
    pass


def _truth(v):
    if isinstance(v, tuple) and v[0] == 'bool':
        return v[1]
    if isinstance(v, bool) or v is None:
        return v
    raise _Undecided()


def _p_or(tk, sv):
    a = _p_and(tk, sv)
    while tk.peek() == ('op', '||'):
        tk.next()
        b = _p_and(tk, sv)
        a = or3(_truth(a), _truth(b))
    return a


def _p_and(tk, sv):
    a = _p_not(tk, sv)
    while tk.peek() == ('op', '&&'):
        tk.next()
        b = _p_not(tk, sv)
        a = and3(_truth(a), _truth(b))
    return a


def _p_not(tk, sv):
    if tk.peek() == ('op', '~'):
        tk.next()
        return not3(_truth(_p_not(tk, sv)))
    return _p_cmp(tk, sv)


def _p_cmp(tk, sv):
    a = _p_term(tk, sv)
    t = tk.peek()
    if t[0] == 'op' and t[1] in ('==', '!=', '<=', '>=', '<', '>'):
        tk.next()
        b = _p_term(tk, sv)
        return _compare(t[1], a, b)
    return a


def _p_term(tk, sv):
    t = tk.next()
    if t == ('op', '('):
        v = _p_or(tk, sv)
        if tk.next() != ('op', ')'):
            raise ValueError('unbalanced')
        return v
    if t == ('op', '!'):
        raise _Undecided()
    if t[0] == 'ref':
        if t[1] == '?':
            return sv
        raise _Undecided()
    if t[0] == 'str':
        return ('str', t[1])
    if t[0] == 'word':
        if t[1] == 'true':
            return ('bool', True)
        if t[1] == 'false':
            return ('bool', False)
        if _NUM.match(t[1]):
            unit = None
            nt = tk.peek()
            if nt[0] == 'word' and not _NUM.match(nt[1]) and nt[1] not in ('true', 'false'):
                unit = tk.next()[1]
            return ('num', Fraction(t[1]), unit)
        return ('str', t[1])
    raise ValueError('unexpected token %r' % (t,))


def _compare(op, a, b):
    if a is None or b is None or isinstance(a, bool) or isinstance(b, bool):
        raise _Undecided()
    if a[0] != b[0]:
        raise _Undecided()
    if a[0] in ('bool', 'str'):
        if op == '==':
            return a[1] == b[1]
        if op == '!=':
            return a[1] != b[1]
        raise _Undecided()
    x, ux = a[1], a[2]
    y, uy = b[1], b[2]
    if (ux or None) != (uy or None):
        if not ux or not uy:
            raise _Undecided()
        y = convert(y, uy, ux)
        if y is None:
            raise _Undecided()
    return num_cmp(op, x, y)


def _plain(v):
    if hasattr(v, 'tolist'):
        v = v.tolist()
    return v


def check_env_constraints(env):
    """Re-check every node of a returned DIP environment against the constraints stored on it, with the
    independent evaluator.  Returns a list of deviations {'node','kind','detail','known'}; undecidable
    constraints (unknown units, references to other nodes, values inside the tolerance band) yield nothing."""
    devs = []
    for node in env.nodes:
        name = getattr(node, 'name', '?')
        kw = getattr(node, 'keyword', None)
        val = getattr(node, 'value', None)
        if val is None:
            devs.append(dict(node=name, kind='returned-node-without-value',
                             detail=dict(declared=bool(getattr(node, 'defined', False)), code=getattr(node, 'code', None)),
                             known=None))
            continue
        try:
            raw = _plain(val.value)
            unit = getattr(val, 'unit', None)
        except Exception:
            continue
        # dimension bounds
        dim = getattr(node, 'dimension', None)
        if dim and isinstance(raw, list):
            sh = shape_of(raw)
            for d, (lo, hi) in enumerate(dim):
                if d < len(sh) and ((lo is not None and sh[d] < lo) or (hi is not None and sh[d] > hi)):
                    devs.append(dict(node=name, kind='returned-node-violates-dimension',
                                     detail=dict(shape=sh, dimension=[list(x) for x in dim]), known=None))
                    break
        if isinstance(raw, list):
            continue
        # own value
        if kw in ('int', 'float'):
            try:
                sv = ('num', Fraction(raw), unit or None)
            except Exception:
                continue
        elif kw == 'bool':
            sv = ('bool', bool(raw))
        elif kw == 'str':
            sv = ('str', str(raw))
        else:
            continue
        # options
        opts = getattr(node, 'options', None) or []
        if opts:
            res = False
            for o in opts:
                try:
                    if kw == 'str':
                        r = (str(o.value_raw) == sv[1])
                    else:
                        x = Fraction(str(o.value_raw))
                        ou = o.units_raw or None
                        if ou and sv[2] and ou != sv[2]:
                            x = convert(x, ou, sv[2])
                        elif ou and not sv[2]:
                            x = None
                        r = None if x is None else num_eq(x, sv[1])
                except Exception:
                    r = None
                res = or3(res, r)
            if res is False:
                devs.append(dict(node=name, kind='returned-node-violates-options',
                                 detail=dict(value=repr(raw), unit=unit, options=[(str(o.value_raw), o.units_raw) for o in opts][:8]),
                                 known=None))
        # condition
        cond = getattr(node, 'condition', None)
        if cond:
            t = eval_condition_text(cond, sv)
            if t is False:
                devs.append(dict(node=name, kind='returned-node-violates-condition',
                                 detail=dict(value=repr(raw), unit=unit, condition=cond, type=kw),
                                 known=KEY_COND_IGNORED if kw in ('bool', 'str') else
                                 (KEY_INT_TRUNC if kw == 'int' and _int_trunc_explains(cond, sv) else None)))
        # format
        fmt = getattr(node, 'format', None)
        if fmt and kw == 'str':
            m = format_matches(fmt, sv[1])
            if m is False:
                devs.append(dict(node=name, kind='returned-node-violates-format',
                                 detail=dict(value=sv[1], format=fmt), known=None))
    return devs


def _int_trunc_explains(cond, sv):
    """twin of the recorded defect: with every constant cast to int in the node's unit the condition holds"""
    return _int_trunc_explains_mode(cond, sv, False) or _int_trunc_explains_mode(cond, sv, True)


def _int_trunc_explains_mode(cond, sv, low):
    try:
        tk = _Tok(cond)
        for i, t in enumerate(tk.toks):
            if t[0] == 'word' and _NUM.match(t[1]):
                unit = None
                if i + 1 < len(tk.toks) and tk.toks[i + 1][0] == 'word' and not _NUM.match(tk.toks[i + 1][1]):
                    unit = tk.toks[i + 1][1]
                x = Fraction(t[1])
                if unit and sv[2] and unit != sv[2]:
                    x = convert(x, unit, sv[2])
                    if x is None:
                        return False
                    tk.toks[i] = ('word', str(int(_int_cast(x, low))))
                    tk.toks[i + 1] = ('word', sv[2])
                else:
                    tk.toks[i] = ('word', str(int(x)))
        v = _p_or(tk, sv)
        return _truth(v) is True
    except Exception:
        return False


PARSE_MONITOR = {'parse_postcondition_evaluations': 0, 'deviations': [], 'mode': 'record', 'attached': False}


class ParsePostconditionViolation(Exception):
    pass


def returned_environment_satisfies_its_constraints(result):
    PARSE_MONITOR['parse_postcondition_evaluations'] += 1
    devs = check_env_constraints(result)
    if devs:
        PARSE_MONITOR['deviations'].extend(devs)
    if PARSE_MONITOR['mode'] == 'raise':
        return not [d for d in devs if not d.get('known')]
    return True


def _postcondition_error(result):
    return ParsePostconditionViolation('DIP.parse returned an environment that violates its own constraints: %r'
                                       % (PARSE_MONITOR['deviations'][-3:],))


def attach_parse_contract(mode='record'):
    """Attach the post-condition to the real scinumtools.dip.DIP.parse (idempotent).
    mode='record': deviations are collected in PARSE_MONITOR['deviations'] (use drain_parse_deviations());
    mode='raise' : an unknown deviation raises ParsePostconditionViolation out of parse()."""
    import icontract
    from scinumtools.dip import DIP
    PARSE_MONITOR['mode'] = mode
    if PARSE_MONITOR['attached'] and getattr(DIP.parse, '__vt_c16__', False):
        return PARSE_MONITOR
    wrapped = icontract.ensure(returned_environment_satisfies_its_constraints, error=_postcondition_error)(DIP.parse)
    try:
        wrapped.__vt_c16__ = True
    except Exception:
        pass
    DIP.parse = wrapped
    PARSE_MONITOR['attached'] = True
    return PARSE_MONITOR


def drain_parse_deviations():
    """-> (number of post-condition evaluations since the last drain, deviations since the last drain)"""
    n, d = PARSE_MONITOR['parse_postcondition_evaluations'], PARSE_MONITOR['deviations']
    PARSE_MONITOR['parse_postcondition_evaluations'] = 0
    PARSE_MONITOR['deviations'] = []
    return n, d
