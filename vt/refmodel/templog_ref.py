"""Reference formulas for temperature and logarithmic conversions, written from the definitions the
property statement cites (not from the repository's tables)."""
import math

SI_PREFIX = {'Y': 1e24, 'Z': 1e21, 'E': 1e18, 'P': 1e15, 'T': 1e12, 'G': 1e9, 'M': 1e6, 'k': 1e3, 'h': 1e2, 'da': 1e1,
             'd': 1e-1, 'c': 1e-2, 'm': 1e-3, 'u': 1e-6, 'n': 1e-9, 'p': 1e-12, 'f': 1e-15, 'a': 1e-18, 'z': 1e-21, 'y': 1e-24, '': 1.0}

# ---------------------------------------------------------------- temperature (through kelvin)
TEMP_SCALE = {'K': 1.0, 'Cel': 1.0, 'degF': 5.0 / 9.0, 'degR': 5.0 / 9.0}   # kelvin per unit step


def to_kelvin(x, p, u):
    if u == 'K':
        return x * SI_PREFIX[p]
    if u == 'Cel':
        return x + 273.15
    if u == 'degF':
        return (x + 459.67) * 5.0 / 9.0
    if u == 'degR':
        return x * 5.0 / 9.0
    raise KeyError(u)


def from_kelvin(k, p, u):
    if u == 'K':
        return k / SI_PREFIX[p]
    if u == 'Cel':
        return k - 273.15
    if u == 'degF':
        return k * 9.0 / 5.0 - 459.67
    if u == 'degR':
        return k * 9.0 / 5.0
    raise KeyError(u)


def temp_step(p, u):
    return TEMP_SCALE[u] * (SI_PREFIX[p] if u == 'K' else 1.0)


# ---------------------------------------------------------------- levels
# level unit -> (bels per decade of the linear quantity: 1 = power-like (10 log10 in dB), 2 = amplitude-like (20 log10),
#                linear unit symbol, reference level in that linear unit)
LEVELS = {
    'Bm':   (1, 'W', 1e-3), 'BmW': (1, 'W', 1e-3), 'BW': (1, 'W', 1.0), 'BSWL': (1, 'W', 1e-12),
    'BSIL': (1, 'W/m2', 1e-12),
    'BV':   (2, 'V', 1.0), 'BuV': (2, 'V', 1e-6), 'BA': (2, 'A', 1.0), 'BuA': (2, 'A', 1e-6),
    'BOhm': (2, 'Ohm', 1.0), 'BSPL': (2, 'Pa', 20e-6),
}
RATIOS = {'PR': 1, 'AR': 2}      # bels = k*log10(ratio);  nepers = (k/2)*ln(ratio)


def level_from_linear(x_si, sym):
    k, _, ref = LEVELS[sym]
    return k * math.log10(x_si / ref)          # in bels


def linear_from_level(bels, sym):
    k, _, ref = LEVELS[sym]
    return ref * 10 ** (bels / k)


def bels_from_ratio(r, sym):
    return RATIOS[sym] * math.log10(r)


def ratio_from_bels(b, sym):
    return 10 ** (b / RATIOS[sym])


def nepers_from_ratio(r, sym):
    return RATIOS[sym] / 2.0 * math.log(r)


def ratio_from_nepers(n, sym):
    return math.exp(n * 2.0 / RATIOS[sym])


NP_PER_B = math.log(10) / 2.0          # 1 B = 1.1513 Np
LEVEL_OFFSETS = {('BW', 'Bm'): 3.0, ('BW', 'BmW'): 3.0, ('Bm', 'BW'): -3.0, ('BmW', 'BW'): -3.0, ('Bm', 'BmW'): 0.0, ('BmW', 'Bm'): 0.0,
                 ('BV', 'BuV'): 12.0, ('BuV', 'BV'): -12.0}      # in bels


def power_sum_bels(a, b, sign=+1):
    """10 log10(10^(a/10) +- 10^(b/10)) dB written in bels"""
    return math.log10(10 ** a + sign * 10 ** b)
